// Bridge between refchess values and texel's types.  Positions always enter
// texel through its public text interface (TextIO::readFEN) or by replaying
// moves, exactly as a GUI would.
#pragma once
#include "common/refchess.hpp"
#include "position.hpp"
#include "move.hpp"
#include "moveGen.hpp"
#include "piece.hpp"
#include "textio.hpp"
#include <string>
#include <vector>

namespace tx {

inline char pieceChar(int p) {
    static const char* t = ".KQRBNPkqrbnp";
    return (p >= 0 && p < 13) ? t[p] : '?';
}
inline int pieceCode(char c) {
    static const char* t = ".KQRBNPkqrbnp";
    const char* q = strchr(t, c);
    return q ? (int)(q - t) : 0;
}
inline ref::Move toRef(const Move& m) {
    ref::Move r;
    r.from = m.from().asInt(); r.to = m.to().asInt();
    int pr = m.promoteTo();
    r.promo = pr == Piece::EMPTY ? 0 : ref::lower(pieceChar(pr));
    return r;
}
inline Move toTexel(const ref::Move& m, bool whiteMoves) {
    int promo = Piece::EMPTY;
    if (m.promo) promo = pieceCode(whiteMoves ? ref::upper(m.promo) : m.promo);
    return Move(Square(m.from), Square(m.to), promo);
}
inline Position toTexel(const ref::Pos& p) { return TextIO::readFEN(ref::toFEN(p)); }

// Field-by-field comparison of a texel Position with a reference position.
// epMode: 0 = compare with ref's recorded (pseudo) e.p. square, 1 = with the legal notion
inline std::string diff(const Position& t, const ref::Pos& r, int epMode) {
    for (int s = 0; s < 64; s++)
        if (pieceChar(t.getPiece(Square(s))) != r.b[s])
            return "square " + ref::sqName(s) + ": texel " + pieceChar(t.getPiece(Square(s))) + " ref " + r.b[s];
    if (t.isWhiteMove() != r.wtm) return "side to move";
    if (t.h1Castle() != r.cK || t.a1Castle() != r.cQ || t.h8Castle() != r.ck || t.a8Castle() != r.cq)
        return "castling rights: texel " + TextIO::castleMaskToString(t.getCastleMask()) + " ref " + ref::castleStr(r);
    int ep = epMode == 1 ? (ref::legalEp(r) ? r.ep : -1) : r.ep;
    int tep = t.getEpSquare().isValid() ? t.getEpSquare().asInt() : -1;
    if (tep != ep) return "e.p. square: texel " + std::to_string(tep) + " ref " + std::to_string(ep);
    if (t.getHalfMoveClock() != r.hmc) return "half-move clock: texel " + std::to_string(t.getHalfMoveClock()) + " ref " + std::to_string(r.hmc);
    if (t.getFullMoveCounter() != r.fmc) return "full-move counter: texel " + std::to_string(t.getFullMoveCounter()) + " ref " + std::to_string(r.fmc);
    return "";
}

inline std::vector<ref::Move> listToRef(const MoveList& ml) {
    std::vector<ref::Move> v;
    for (int i = 0; i < ml.size; i++) v.push_back(toRef(ml[i]));
    return v;
}
inline std::string movesStr(const std::vector<ref::Move>& v) {
    std::string s;
    for (auto& m : v) { if (!s.empty()) s += ' '; s += m.uci(); }
    return s;
}

} // namespace tx
