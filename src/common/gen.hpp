// Generators, written as decoders over a rapidcheck choice stream (vh::Choices).
// All construct cases (no filtering besides a cheap sanity repair whose residual
// rejection rate is counted by the caller).
#pragma once
#include "common/refchess.hpp"
#include "common/vh.hpp"
#include <string>
#include <vector>

namespace gen {

using vh::Choices;

// Start positions: the initial position, the classic perft positions, and
// FENs taken from the repository's own tests (promotion-consistent, <= 16 men per side).
inline const std::vector<std::string>& seedFens() {
    static const std::vector<std::string> v = {
        "rnbqkbnr/pppppppp/8/8/8/8/PPPPPPPP/RNBQKBNR w KQkq - 0 1",
        "r3k2r/p1ppqpb1/bn2pnp1/3PN3/1p2P3/2N2Q1p/PPPBBPPP/R3K2R w KQkq - 0 1",
        "8/2p5/3p4/KP5r/1R3p1k/8/4P1P1/8 w - - 0 1",
        "r3k2r/Pppp1ppp/1b3nbN/nP6/BBP1P3/q4N2/Pp1P2PP/R2Q1RK1 w kq - 0 1",
        "rnbq1k1r/pp1Pbppp/2p5/8/2B5/8/PPP1NnPP/RNBQK2R w KQ - 1 8",
        "r4rk1/1pp1qppp/p1np1n2/2b1p1B1/2B1P1b1/P1NP1N2/1PP1QPPP/R4RK1 w - - 0 10",
        "r3k2r/8/8/8/8/8/8/R3K2R w KQkq - 0 1",
        "r3k2r/pppppppp/8/8/8/8/PPPPPPPP/R3K2R b KQkq - 0 1",
        "4k3/pppppppp/8/8/8/8/PPPPPPPP/4K3 w - - 0 1",
        "8/PPPPPPPP/8/2k5/8/2K5/pppppppp/8 w - - 0 1",
        "n1n5/PPPk4/8/8/8/8/4Kppp/5N1N b - - 0 1",
        "8/8/1k6/2b5/2pP4/8/5K2/8 b - d3 0 1",
        "8/5bk1/8/2Pp4/8/1K6/8/8 w - d6 0 1",
        "8/8/8/8/k1pP3R/8/8/4K3 b - d3 0 1",
        "4k3/8/8/2KPp2r/8/8/8/8 w - e6 0 2",
        "r1bqkb1r/pppp1ppp/2n2n2/4p2Q/2B1P3/8/PPPP1PPP/RNB1K1NR w KQkq - 4 4",
        "rnb1kbnr/pppp1ppp/8/4p3/6Pq/5P2/PPPPP2P/RNBQKBNR w KQkq - 1 3",
        "2kr3r/ppp2ppp/2n5/1B1P4/4P1b1/2P1BN2/P4PPP/R2q1RK1 w - - 0 14",
        "5rk1/1ppb3p/p1pb4/6q1/3P1p1r/2P1R2P/PP1BQ1P1/5RKN w - - 0 1",
        "8/3k4/8/8/8/4K3/8/Q7 w - - 0 1",
        "8/8/8/3k4/8/8/4K3/5BN1 w - - 0 1",
        "k7/2P5/1K6/8/8/8/8/8 w - - 0 1",
        "7k/5Q2/6K1/8/8/8/8/8 b - - 0 1",
        "r1bq1rk1/pp2ppbp/2np1np1/8/3NP3/2N1BP2/PPPQ2PP/R3KB1R w KQ - 3 9",
        "1k1r4/pp1b1R2/3q2pp/4p3/2B5/4Q3/PPP2B2/2K5 b - - 0 1",
        "3r1k2/4npp1/1ppr3p/p6P/P2PPPP1/1NR5/5K2/2R5 w - - 0 1",
        "4k2r/8/8/8/8/8/8/R3K3 w Qk - 0 1",
        "8/P6k/8/8/8/8/p6K/8 w - - 0 1",
    };
    return v;
}

struct Game {
    std::string startFen;
    std::vector<ref::Move> moves;
    std::vector<ref::Pos> pos; // pos[0] = start, pos[i+1] = after moves[i]
    int profile = 0;
    std::vector<std::string> uciMoves() const { std::vector<std::string> r; for (auto& m : moves) r.push_back(m.uci()); return r; }
};

// Re-create a game from its concrete description (replay files).
inline bool gameFrom(const std::string& fen, const std::vector<std::string>& ucis, Game& g) {
    g = Game(); g.startFen = fen;
    ref::Pos p;
    if (!ref::fromFEN(fen, p)) return false;
    g.pos.push_back(p);
    for (auto& u : ucis) {
        ref::Move m = ref::Move::fromUci(u);
        if (!ref::isLegal(g.pos.back(), m)) return false;
        g.moves.push_back(m);
        g.pos.push_back(ref::make(g.pos.back(), m));
    }
    return true;
}

enum Profile { UNIFORM = 0, CAPTURES, PAWNS, KINGROOK, SHUFFLE, QUIET, NPROFILES };

// Choose the next move of a random game according to a profile.
inline ref::Move pickMove(Choices& c, const ref::Pos& p, const std::vector<ref::Move>& lm, int profile,
                          const std::vector<ref::Pos>& history) {
    auto choose = [&](const std::vector<ref::Move>& v) { return v[c.pick((int)v.size())]; };
    if (profile == UNIFORM || c.chance(1, 4)) return choose(lm);
    std::vector<ref::Move> pref;
    for (const ref::Move& m : lm) {
        char pc = ref::lower(p.b[m.from]);
        bool take = false;
        switch (profile) {
        case CAPTURES: take = ref::isCapture(p, m); break;
        case PAWNS: take = pc == 'p'; break;
        case KINGROOK: take = pc == 'k' || pc == 'r'; break;
        case QUIET: take = !ref::isCapture(p, m) && pc != 'p'; break;
        case SHUFFLE: {
            if (ref::isCapture(p, m) || pc == 'p') break;
            // prefer moves that return to a position seen before
            ref::Pos n = ref::make(p, m);
            for (size_t k = history.size(); k-- > 0 && history.size() - k < 12;)
                if (history[k].sameBoard(n) && history[k].wtm == n.wtm) { take = true; break; }
            break;
        }
        }
        if (take) pref.push_back(m);
    }
    if (profile == SHUFFLE && pref.empty()) {
        for (const ref::Move& m : lm)
            if (!ref::isCapture(p, m) && ref::lower(p.b[m.from]) != 'p') pref.push_back(m);
    }
    return pref.empty() ? choose(lm) : choose(pref);
}

// Random legal game from one of the seeded starts (or a supplied start).
inline Game game(Choices& c, int maxPlies, const std::string* forcedStart = nullptr, int forcedProfile = -1) {
    Game g;
    g.startFen = forcedStart ? *forcedStart : (c.chance(1, 2) ? seedFens()[0] : c.of(seedFens()));
    ref::Pos p;
    ref::fromFEN(g.startFen, p);
    g.pos.push_back(p);
    g.profile = forcedProfile >= 0 ? forcedProfile : c.pick(NPROFILES);
    int plies = c.range(0, maxPlies);
    int profile = g.profile;
    for (int i = 0; i < plies && !c.empty(); i++) {
        std::vector<ref::Move> lm = ref::legalMoves(g.pos.back());
        if (lm.empty()) break;
        if (i % 16 == 15 && c.chance(1, 3)) profile = c.pick(NPROFILES); // change of mood
        ref::Move m = pickMove(c, g.pos.back(), lm, profile, g.pos);
        g.moves.push_back(m);
        g.pos.push_back(ref::make(g.pos.back(), m));
    }
    return g;
}

// ---- synthetic placements ---------------------------------------------------
struct Placed { ref::Pos p; int tmpl = 0; bool ok = false; };

inline int emptySquare(Choices& c, const ref::Pos& p, int yLo = 0, int yHi = 7) {
    for (int t = 0; t < 40; t++) {
        int s = ref::SQ(c.pick(8), c.range(yLo, yHi));
        if (p.b[s] == '.') return s;
    }
    for (int s = yLo * 8; s < (yHi + 1) * 8; s++) if (p.b[s] == '.') return s;
    return -1;
}
inline void put(ref::Pos& p, int s, char pc) { if (s >= 0) p.b[s] = pc; }

// Men of one side as a promotion-consistent multiset (<= 15 non-king men,
// pawns + promoted extras <= 8).
inline std::vector<char> sideMen(Choices& c, int maxMen, bool heavy) {
    std::vector<char> men;
    int pawns = c.range(0, 8);
    int extras = c.range(0, 8 - pawns);
    if (!heavy) extras = std::min(extras, c.pick(3));
    static const char base[7] = {'q', 'r', 'r', 'b', 'b', 'n', 'n'};
    for (char b : base) if (c.chance(2, 3)) men.push_back(b);
    static const char prom[4] = {'q', 'r', 'b', 'n'};
    for (int i = 0; i < extras; i++) men.push_back(prom[c.chance(1, 2) ? 0 : c.pick(4)]);
    for (int i = 0; i < pawns; i++) men.push_back('p');
    // random subset of size <= maxMen
    while ((int)men.size() > maxMen) men.erase(men.begin() + c.pick((int)men.size()));
    return men;
}

inline void placeMen(Choices& c, ref::Pos& p, const std::vector<char>& men, bool white) {
    for (char m : men) {
        int s = (m == 'p') ? emptySquare(c, p, 1, 6) : emptySquare(c, p);
        put(p, s, white ? ref::upper(m) : m);
    }
}

inline void randomRights(Choices& c, ref::Pos& p) {
    if (p.b[4] == 'K' && p.b[7] == 'R' && c.flip()) p.cK = true;
    if (p.b[4] == 'K' && p.b[0] == 'R' && c.flip()) p.cQ = true;
    if (p.b[60] == 'k' && p.b[63] == 'r' && c.flip()) p.ck = true;
    if (p.b[60] == 'k' && p.b[56] == 'r' && c.flip()) p.cq = true;
}

// Try to give the side to move an en-passant opportunity consistent with a
// double push having just been played.
inline void maybeEp(Choices& c, ref::Pos& p) {
    std::vector<int> cand;
    for (int x = 0; x < 8; x++) {
        if (p.wtm) {
            if (p.b[ref::SQ(x, 4)] == 'p' && p.b[ref::SQ(x, 5)] == '.' && p.b[ref::SQ(x, 6)] == '.' &&
                ((x > 0 && p.b[ref::SQ(x - 1, 4)] == 'P') || (x < 7 && p.b[ref::SQ(x + 1, 4)] == 'P')))
                cand.push_back(ref::SQ(x, 5));
        } else {
            if (p.b[ref::SQ(x, 3)] == 'P' && p.b[ref::SQ(x, 2)] == '.' && p.b[ref::SQ(x, 1)] == '.' &&
                ((x > 0 && p.b[ref::SQ(x - 1, 3)] == 'p') || (x < 7 && p.b[ref::SQ(x + 1, 3)] == 'p')))
                cand.push_back(ref::SQ(x, 2));
        }
    }
    if (!cand.empty()) p.ep = cand[c.pick((int)cand.size())];
}

inline bool finalize(ref::Pos& p) {
    if (p.count('K') != 1 || p.count('k') != 1) return false;
    for (int x = 0; x < 8; x++) for (int y = 0; y < 8; y += 7) if (ref::lower(p.b[ref::SQ(x, y)]) == 'p') return false;
    if (ref::inCheck(p, !p.wtm)) {
        p.wtm = !p.wtm; p.ep = -1;
        if (ref::inCheck(p, !p.wtm)) return false;
    }
    // kings adjacent is covered by the check test
    return true;
}

enum Tmpl { T_SPARSE = 0, T_DENSE, T_PIN, T_DOUBLECHECK, T_EPPIN, T_CASTLE, T_PROMO, T_MANYLIKE, T_BATTERY, T_ENDGAME, NTMPL };
inline const char* tmplName(int t) {
    static const char* n[] = {"sparse", "dense", "pin", "doublecheck", "ep-pin", "castle", "promo7th", "manylike", "battery", "endgame"};
    return n[t];
}

inline Placed place(Choices& c, int forcedTmpl = -1) {
    Placed out;
    ref::Pos& p = out.p;
    int t = forcedTmpl >= 0 ? forcedTmpl : c.pick(NTMPL);
    out.tmpl = t;
    p.wtm = c.flip();
    bool w = p.wtm; // templates are built for the side to move = "own"
    auto own = [&](char pc) { return w ? ref::upper(pc) : pc; };
    auto opp = [&](char pc) { return w ? pc : ref::upper(pc); };
    auto flipY = [&](int s) { return w ? s : ref::SQ(ref::X(s), 7 - ref::Y(s)); };
    switch (t) {
    case T_SPARSE: case T_DENSE: case T_ENDGAME: {
        put(p, emptySquare(c, p), 'K'); put(p, emptySquare(c, p), 'k');
        int mw = t == T_DENSE ? 15 : t == T_ENDGAME ? c.range(0, 2) : c.range(0, 5);
        int mb = t == T_DENSE ? 15 : t == T_ENDGAME ? c.range(0, 2) : c.range(0, 5);
        placeMen(c, p, sideMen(c, mw, t == T_DENSE), true);
        placeMen(c, p, sideMen(c, mb, t == T_DENSE), false);
        break;
    }
    case T_PIN: case T_BATTERY: {
        // king - (man) - slider collinear.  PIN: own king, own man, enemy slider.
        // BATTERY: enemy king, own man, own slider (a discovered check is available).
        int kx = c.pick(8), ky = c.pick(8);
        static const int dirs[8][2] = {{1,0},{-1,0},{0,1},{0,-1},{1,1},{1,-1},{-1,1},{-1,-1}};
        int d = c.pick(8), dx = dirs[d][0], dy = dirs[d][1];
        int len = 0;
        while (ref::onBoard(kx + dx * (len + 1), ky + dy * (len + 1))) len++;
        if (len < 2) { d ^= 1; dx = dirs[d][0]; dy = dirs[d][1]; len = 0; while (ref::onBoard(kx + dx * (len + 1), ky + dy * (len + 1))) len++; }
        if (len < 2) { kx = 3; ky = 3; len = 3; }
        int a = c.range(1, len - 1), b = c.range(a + 1, len);
        bool diag = dx && dy;
        char slider = c.flip() ? 'q' : (diag ? 'b' : 'r');
        static const char mid[6] = {'p', 'n', 'b', 'r', 'q', 'p'};
        char man = mid[c.pick(6)];
        int ms = ref::SQ(kx + dx * a, ky + dy * a), ss = ref::SQ(kx + dx * b, ky + dy * b);
        if (man == 'p' && (ref::Y(ms) == 0 || ref::Y(ms) == 7)) man = 'n';
        if (t == T_PIN) { put(p, ref::SQ(kx, ky), own('k')); put(p, ms, own(man)); put(p, ss, opp(slider)); put(p, emptySquare(c, p), opp('k')); }
        else { put(p, ref::SQ(kx, ky), opp('k')); put(p, ms, own(man)); put(p, ss, own(slider)); put(p, emptySquare(c, p), own('k')); }
        placeMen(c, p, sideMen(c, c.range(0, 6), false), true);
        placeMen(c, p, sideMen(c, c.range(0, 6), false), false);
        break;
    }
    case T_DOUBLECHECK: {
        // own king attacked by an enemy knight and an enemy slider
        int kx = c.range(1, 6), ky = c.range(1, 6);
        put(p, ref::SQ(kx, ky), own('k'));
        static const int kn[8][2] = {{1,2},{2,1},{2,-1},{1,-2},{-1,-2},{-2,-1},{-2,1},{-1,2}};
        for (int tries = 0; tries < 8; tries++) {
            int k = c.pick(8);
            if (ref::onBoard(kx + kn[k][0], ky + kn[k][1])) { put(p, ref::SQ(kx + kn[k][0], ky + kn[k][1]), opp('n')); break; }
        }
        static const int dirs[8][2] = {{1,0},{-1,0},{0,1},{0,-1},{1,1},{1,-1},{-1,1},{-1,-1}};
        int d = c.pick(8), dist = c.range(1, 6), sx = kx + dirs[d][0] * dist, sy = ky + dirs[d][1] * dist;
        while (!ref::onBoard(sx, sy) && dist > 1) { dist--; sx = kx + dirs[d][0] * dist; sy = ky + dirs[d][1] * dist; }
        if (ref::onBoard(sx, sy) && p.b[ref::SQ(sx, sy)] == '.')
            put(p, ref::SQ(sx, sy), opp(c.flip() ? 'q' : (dirs[d][0] && dirs[d][1] ? 'b' : 'r')));
        put(p, emptySquare(c, p), opp('k'));
        placeMen(c, p, sideMen(c, c.range(0, 5), false), true);
        placeMen(c, p, sideMen(c, c.range(0, 5), false), false);
        // the slider's ray may have been blocked by later men: fine, still a check-heavy position
        break;
    }
    case T_EPPIN: {
        // own pawn on its 5th rank beside an enemy pawn that has just double-pushed;
        // own king and an enemy slider placed so that the capture may expose the king.
        int x = c.pick(8), ex = (x == 0) ? 1 : (x == 7) ? 6 : (c.flip() ? x - 1 : x + 1);
        int y5 = 4; // white's view; flipped for black
        put(p, flipY(ref::SQ(x, y5)), own('p'));
        put(p, flipY(ref::SQ(ex, y5)), opp('p'));
        p.ep = flipY(ref::SQ(ex, y5 + 1));
        // battery = roles swapped: ENEMY king and OWN slider, so that the e.p. capture gives a discovered check
        // (through the capturing pawn's square or through the captured pawn's square)
        bool battery = c.chance(1, 3);
        const char KING = battery ? opp('k') : own('k');
        auto SL = [&](char pc) { return battery ? own(pc) : opp(pc); };
        int mode = c.pick(4); // 0 rank pin, 1 diagonal pin through capturer, 2 file/other, 3 random
        if (mode == 0) {
            int lo = std::min(x, ex), hi = std::max(x, ex);
            bool kingLeft = c.flip();
            if (lo == 0) kingLeft = false;
            if (hi == 7) kingLeft = true;
            int kxp = kingLeft ? c.range(0, lo - 1) : c.range(hi + 1, 7);
            int sxp = kingLeft ? (hi < 7 ? c.range(hi + 1, 7) : -1) : (lo > 0 ? c.range(0, lo - 1) : -1);
            put(p, flipY(ref::SQ(kxp, y5)), KING);
            if (sxp >= 0) put(p, flipY(ref::SQ(sxp, y5)), SL(c.flip() ? 'r' : 'q'));
        } else if (mode == 1) {
            // king behind the capturing pawn on a diagonal, bishop/queen on the far side
            int dx = c.flip() ? 1 : -1;
            int px = c.chance(1, 3) ? ex : x; // the diagonal through the capturing pawn, or through the captured pawn
            int kxp = px - dx, kyp = y5 - 1, bx = px + dx, by = y5 + 1;
            if (c.flip()) { kxp = px - dx; kyp = y5 + 1; bx = px + dx; by = y5 - 1; }
            if (ref::onBoard(kxp, kyp) && p.b[flipY(ref::SQ(kxp, kyp))] == '.') put(p, flipY(ref::SQ(kxp, kyp)), KING);
            while (ref::onBoard(bx + dx, by + (by > y5 ? 1 : -1)) && c.flip()) { bx += dx; by += (by > y5 ? 1 : -1); }
            if (ref::onBoard(bx, by) && p.b[flipY(ref::SQ(bx, by))] == '.') put(p, flipY(ref::SQ(bx, by)), SL(c.flip() ? 'b' : 'q'));
        } else if (mode == 2) {
            // king on the file of the capturing pawn or of the captured pawn, rook behind
            int fx = c.flip() ? x : ex;
            int ky = c.range(0, y5 - 1), ry = c.range(y5 + 2, 7);
            if (c.flip()) std::swap(ky, ry);
            if (p.b[flipY(ref::SQ(fx, ky))] == '.') put(p, flipY(ref::SQ(fx, ky)), KING);
            if (p.b[flipY(ref::SQ(fx, ry))] == '.') put(p, flipY(ref::SQ(fx, ry)), SL(c.flip() ? 'r' : 'q'));
        }
        if (p.count(own('k')) == 0) put(p, emptySquare(c, p), own('k'));
        if (p.count(opp('k')) == 0) put(p, emptySquare(c, p), opp('k'));
        placeMen(c, p, sideMen(c, c.range(0, 4), false), true);
        placeMen(c, p, sideMen(c, c.range(0, 4), false), false);
        // keep the e.p. geometry intact: squares behind the pushed pawn must be empty
        {
            int s1 = p.ep, s2 = flipY(ref::SQ(ex, y5 + 2));
            if (p.b[s1] != '.' && ref::lower(p.b[s1]) != 'k') p.b[s1] = '.';
            if (p.b[s2] != '.' && ref::lower(p.b[s2]) != 'k') p.b[s2] = '.';
            if (p.b[s1] != '.' || p.b[s2] != '.') p.ep = -1;
        }
        break;
    }
    case T_CASTLE: {
        put(p, 4, 'K'); put(p, 60, 'k');
        if (c.chance(3, 4)) put(p, 7, 'R'); if (c.chance(3, 4)) put(p, 0, 'R');
        if (c.chance(3, 4)) put(p, 63, 'r'); if (c.chance(3, 4)) put(p, 56, 'r');
        // attackers / blockers aimed at the squares between king and rook
        int n = c.range(0, 5);
        for (int i = 0; i < n; i++) {
            bool white = c.flip();
            static const char pcs[5] = {'q', 'r', 'b', 'n', 'p'};
            char pc = pcs[c.pick(5)];
            int s;
            if (c.chance(1, 3)) { int xs[6] = {1, 2, 3, 5, 6, 4}; s = ref::SQ(xs[c.pick(5)], c.flip() ? 0 : 7); }
            else s = emptySquare(c, p, 1, 6);
            if (p.b[s] == '.' && !(pc == 'p' && (ref::Y(s) == 0 || ref::Y(s) == 7))) put(p, s, white ? ref::upper(pc) : pc);
        }
        p.cK = p.b[7] == 'R' && c.chance(5, 6); p.cQ = p.b[0] == 'R' && c.chance(5, 6);
        p.ck = p.b[63] == 'r' && c.chance(5, 6); p.cq = p.b[56] == 'r' && c.chance(5, 6);
        break;
    }
    case T_PROMO: {
        put(p, emptySquare(c, p, 0, 5), own('k')); put(p, emptySquare(c, p, 2, 7), opp('k'));
        int n = c.range(1, 4);
        for (int i = 0; i < n; i++) {
            int x = c.pick(8);
            int s7 = flipY(ref::SQ(x, 6));
            if (p.b[s7] != '.') continue;
            put(p, s7, own('p'));
            for (int dx = -1; dx <= 1; dx++) {
                if (!ref::onBoard(x + dx, 7)) continue;
                int s8 = flipY(ref::SQ(x + dx, 7));
                if (p.b[s8] == '.' && c.chance(1, 2)) { static const char v[4] = {'r', 'n', 'b', 'q'}; put(p, s8, opp(v[c.pick(4)])); }
            }
        }
        placeMen(c, p, sideMen(c, c.range(0, 4), false), true);
        placeMen(c, p, sideMen(c, c.range(0, 4), false), false);
        break;
    }
    case T_MANYLIKE: {
        put(p, emptySquare(c, p), own('k')); put(p, emptySquare(c, p), opp('k'));
        static const char kinds[4] = {'q', 'n', 'r', 'b'};
        char kind = kinds[c.pick(4)];
        int n = c.range(2, kind == 'q' ? 5 : 4);
        int target = emptySquare(c, p);
        if (c.flip()) put(p, target, opp(c.flip() ? 'p' : 'n'));
        if (ref::lower(p.b[target]) == 'p' && (ref::Y(target) == 0 || ref::Y(target) == 7)) p.b[target] = opp('n');
        // place n like pieces on squares from which the kind attacks the target (geometry only)
        std::vector<int> from;
        for (int s = 0; s < 64; s++) {
            if (s == target || p.b[s] != '.') continue;
            int dx = abs(ref::X(s) - ref::X(target)), dy = abs(ref::Y(s) - ref::Y(target));
            bool ok = kind == 'n' ? (dx * dy == 2) : kind == 'r' ? (dx == 0 || dy == 0) : kind == 'b' ? (dx == dy) : (dx == 0 || dy == 0 || dx == dy);
            if (ok) from.push_back(s);
        }
        for (int i = 0; i < n && !from.empty(); i++) {
            int k = c.pick((int)from.size());
            put(p, from[k], own(kind));
            from.erase(from.begin() + k);
        }
        placeMen(c, p, sideMen(c, c.range(0, 3), false), !w);
        break;
    }
    }
    if (t != T_EPPIN && t != T_CASTLE && c.chance(1, 4)) maybeEp(c, p);
    if (t != T_CASTLE && c.chance(1, 5)) randomRights(c, p);
    p.hmc = c.chance(1, 6) ? c.range(0, 99) : 0;
    p.fmc = c.chance(1, 6) ? c.range(1, 200) : 1;
    bool wasW = p.wtm;
    out.ok = finalize(p);
    if (out.ok && p.wtm != wasW && p.ep >= 0) p.ep = -1;
    // an e.p. square only makes sense for the right side to move
    if (out.ok && p.ep >= 0 && (ref::Y(p.ep) == 5) != p.wtm) p.ep = -1;
    return out;
}

// One position from either generator.
struct AnyPos { ref::Pos p; std::string origin; bool ok = true; };

} // namespace gen
