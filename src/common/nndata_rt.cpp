// Link-time replacement for the CMake-generated nndata.cpp (an INCBIN of
// /repo/nndata.tbin.compr, which is empty in this checkout).  The compressed
// network is read at start-up from the file named by $TEXEL_VERIF_NET.
#include <cstdio>
#include <cstdlib>

extern "C" {
unsigned char gNNDataData[24u << 20];
unsigned int gNNDataSize = 0;
}

namespace {
struct Loader {
    Loader() {
        const char* fn = getenv("TEXEL_VERIF_NET");
        if (!fn || !*fn)
            return;
        FILE* f = fopen(fn, "rb");
        if (!f) {
            fprintf(stderr, "nndata_rt: cannot open %s\n", fn);
            return;
        }
        gNNDataSize = (unsigned)fread(gNNDataData, 1, sizeof(gNNDataData), f);
        fclose(f);
    }
};
Loader loader __attribute__((init_priority(101)));
}
