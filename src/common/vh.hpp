// vh: shared harness skeleton.
//  * every generated case is decoded from a rapidcheck-generated choice stream
//    (std::vector<uint32_t>), so rapidcheck owns every random choice, shrinking
//    works uniformly (drop choices / reduce them towards 0 = "first option") and a
//    run is a pure function of RC_PARAMS' seed;
//  * the *decoded*, concrete case (FENs, move lists, parameters) is what a
//    replay file stores; `--replay FILE` runs it through the same oracle without
//    rapidcheck;
//  * counters: evaluations, distinct non-trivial cases (64-bit hash set), class
//    histogram, a few samples per class, inconclusive count.
#pragma once
#include "common/json.hpp"
#include <rapidcheck.h>
#include <csignal>
#include <cstdint>
#include <cstdio>
#include <cstdlib>
#include <cstring>
#include <functional>
#include <map>
#include <set>
#include <string>
#include <unistd.h>
#include <unordered_set>
#include <vector>

namespace vh {

using vj::Value;

inline uint64_t fnv(const std::string& s, uint64_t h = 1469598103934665603ULL) {
    for (unsigned char c : s) { h ^= c; h *= 1099511628211ULL; }
    return h;
}
inline uint64_t mix(uint64_t z) {
    z += 0x9e3779b97f4a7c15ULL;
    z = (z ^ (z >> 30)) * 0xbf58476d1ce4e5b9ULL;
    z = (z ^ (z >> 27)) * 0x94d049bb133111ebULL;
    return z ^ (z >> 31);
}

// ---- choice stream -----------------------------------------------------------
struct Choices {
    const std::vector<uint32_t>& v;
    size_t i = 0;
    explicit Choices(const std::vector<uint32_t>& raw) : v(raw) {}
    bool empty() const { return i >= v.size(); }
    size_t left() const { return i >= v.size() ? 0 : v.size() - i; }
    uint32_t raw() { return i < v.size() ? v[i++] : 0; }
    // uniform-ish pick in [0,n); an exhausted stream yields 0 (the simplest option)
    int pick(int n) { return n <= 1 ? (void(raw()), 0) : (int)(raw() % (uint32_t)n); }
    int range(int lo, int hi) { return lo + pick(hi - lo + 1); } // inclusive
    bool flip() { return pick(2) == 1; }
    bool chance(int num, int den) { return pick(den) >= den - num; } // exhausted stream => false
    template <class T> const T& of(const std::vector<T>& xs) { return xs[pick((int)xs.size())]; }
};

inline rc::Gen<std::vector<uint32_t>> choiceGen(double scale = 4.0, int minSize = 0) {
    // length grows with rapidcheck's size (<= ~100*scale); elements are full-range.  minSize lifts the size of the
    // first cases (rapidcheck starts at size 0 = empty stream), for checks that can afford only a few cases per shard
    auto base = rc::gen::scale(scale, rc::gen::container<std::vector<uint32_t>>(
        rc::gen::resize(100, rc::gen::inRange<uint32_t>(0, 1u << 30))));
    if (minSize <= 0) return base;
    return rc::gen::withSize([=](int size) { return rc::gen::resize(minSize + size * (100 - minSize) / 100, base); });
}

// ---- command line ------------------------------------------------------------
struct Args {
    uint64_t seed = 1;
    long cases = 100;
    int maxSize = 100;
    int shard = 0;
    std::string part, replay, foundDir = "/verif/replays/found", tier = "quick", prop = "C00";
    std::map<std::string, std::string> kv;
    long num(const std::string& k, long def) const { auto it = kv.find(k); return it == kv.end() ? def : atol(it->second.c_str()); }
    std::string str(const std::string& k, const std::string& def = "") const { auto it = kv.find(k); return it == kv.end() ? def : it->second; }
};
inline void ctx_args_hook(const Args& a);
inline void installDeathHooks();
inline Args parseArgs(int argc, char** argv) {
    Args a;
    for (int i = 1; i < argc; i++) {
        std::string k = argv[i];
        if (k.rfind("--", 0) != 0) continue;
        k = k.substr(2);
        std::string v = (i + 1 < argc && strncmp(argv[i + 1], "--", 2) != 0) ? argv[++i] : "1";
        a.kv[k] = v;
    }
    a.seed = strtoull(a.str("seed", "1").c_str(), 0, 10);
    a.cases = a.num("cases", 100);
    a.maxSize = (int)a.num("size", 100);
    a.shard = (int)a.num("shard", 0);
    a.part = a.str("part");
    a.replay = a.str("replay");
    a.foundDir = a.str("found-dir", a.foundDir);
    a.tier = a.str("tier", "quick");
    a.prop = a.str("prop", a.prop);
    ctx_args_hook(a);
    return a;
}

// ---- statistics ----------------------------------------------------------------
struct Stats {
    long evaluations = 0, inconclusive = 0, discarded = 0;
    std::unordered_set<uint64_t> nontrivial;
    std::map<std::string, long> classes;
    std::map<std::string, std::vector<Value>> samples;
    std::map<std::string, long> counters;
    size_t hashCap = 4000000;
    int samplesPerClass = 2;
    void nt(uint64_t h) { if (nontrivial.size() < hashCap) nontrivial.insert(h); }
    void nt(const std::string& canon) { nt(fnv(canon)); }
    // returns true when the caller should supply a sample for this class
    bool cls(const std::string& c) { long n = ++classes[c]; return n <= samplesPerClass; }
    void sample(const std::string& c, const Value& v) { auto& s = samples[c]; if ((int)s.size() < samplesPerClass) s.push_back(v); }
    void clsSample(const std::string& c, const std::function<Value()>& mk) { if (cls(c)) sample(c, mk()); }
    void count(const std::string& c, long n = 1) { counters[c] += n; }
};

struct Failure { Value kase; std::string message; bool set = false; };

struct Ctx {
    Args args;
    Stats stats;
    Failure lastFail;           // most recent failing execution = shrunk case after rc::check
    std::vector<Value> violations; // {replay, message, sub}
    long shrinkBudget = 2000, execAfterFail = 0;
    bool failedOnce = false;
};
inline Ctx& ctx() { static Ctx c; return c; }

inline void ctx_args_hook(const Args& a) { ctx().args = a; }
struct CaseFailed { std::string msg; };

// Called by a property body when the oracle rejects a case.
[[noreturn]] inline void fail(const Value& kase, const std::string& msg) {
    Ctx& c = ctx();
    c.lastFail.kase = kase; c.lastFail.message = msg; c.lastFail.set = true;
    c.failedOnce = true;
    throw CaseFailed{msg};
}

inline std::string writeReplay(const std::string& sub, const Value& kase, const std::string& msg) {
    Ctx& c = ctx();
    Value r = Value::object();
    r["property"] = c.args.prop;
    r["sub"] = sub;
    r["message"] = msg;
    r["case"] = kase;
    std::string dir = c.args.foundDir;
    std::string cmd = "mkdir -p '" + dir + "'";
    if (system(cmd.c_str())) {}
    char buf[64];
    snprintf(buf, sizeof buf, "%016llx", (unsigned long long)fnv(vj::dump(kase)));
    std::string fn = dir + "/" + c.args.prop + "-" + sub + "-" + buf + ".json";
    vj::writeFile(fn, r);
    return fn;
}

inline void recordViolation(const std::string& sub, const Value& kase, const std::string& msg) {
    Ctx& c = ctx();
    std::string fn = writeReplay(sub, kase, msg);
    Value v = Value::object();
    v["sub"] = sub; v["replay"] = fn; v["message"] = msg;
    c.violations.push_back(v);
    printf("VIOLATION property=%s replay=%s\n", c.args.prop.c_str(), fn.c_str());
    printf("  %s: %s\n", sub.c_str(), msg.c_str());
    fflush(stdout);
}

// ---- crash capture ------------------------------------------------------------
// A sanitizer abort, failed assert() or SIGSEGV bypasses rapidcheck.  The body
// announces the concrete case it is about to run with setCurrent(); the death
// hooks write it as the replay file and print the VIOLATION line.
struct Current { std::string sub; std::string kaseJson; bool active = false; };
inline Current& current() { static Current c; return c; }
inline void setCurrent(const std::string& sub, const Value& kase) {
    Current& c = current(); c.sub = sub; c.kaseJson = vj::dump(kase); c.active = true;
}
inline void clearCurrent() { current().active = false; }
inline void deathHook() {
    static bool once = false;
    if (once) return;
    once = true;
    Current& cur = current();
    if (!cur.active) return;
    Ctx& c = ctx();
    char buf[64];
    snprintf(buf, sizeof buf, "%016llx", (unsigned long long)fnv(cur.kaseJson));
    std::string dir = c.args.foundDir;
    std::string cmd = "mkdir -p '" + dir + "'";
    if (system(cmd.c_str())) {}
    std::string fn = dir + "/" + c.args.prop + "-" + cur.sub + "-crash-" + buf + ".json";
    FILE* f = fopen(fn.c_str(), "w");
    if (f) {
        fprintf(f, "{\"property\":\"%s\",\"sub\":\"%s\",\"message\":\"crash (sanitizer report, assert or signal) while running this case\",\"case\":%s}\n",
                c.args.prop.c_str(), cur.sub.c_str(), cur.kaseJson.c_str());
        fclose(f);
    }
    printf("VIOLATION property=%s replay=%s\n  %s: crash (sanitizer report, assert or signal)\n", c.args.prop.c_str(), fn.c_str(), cur.sub.c_str());
    fflush(stdout);
}
} // namespace vh
// Sanitizer runtime defaults (each harness is a single translation unit): make
// every report fatal via abort() so that the SIGABRT hook can save the case.
extern "C" __attribute__((used, visibility("default"))) const char* __ubsan_default_options() { return "abort_on_error=1:halt_on_error=1:print_stacktrace=1"; }
extern "C" __attribute__((used, visibility("default"))) const char* __asan_default_options() { return "abort_on_error=1:detect_leaks=0:allocator_may_return_null=1:malloc_context_size=3"; }
extern "C" __attribute__((used, visibility("default"))) const char* __tsan_default_options() { return "halt_on_error=1:abort_on_error=1:second_deadlock_stack=1"; }
namespace vh {
extern "C" void __sanitizer_set_death_callback(void (*)(void)) __attribute__((weak));
inline void sigHook(int sig) { deathHook(); signal(sig, SIG_DFL); raise(sig); }
inline void installDeathHooks() {
    if (__sanitizer_set_death_callback) __sanitizer_set_death_callback(deathHook);
    signal(SIGABRT, sigHook);
    if (!__sanitizer_set_death_callback) { signal(SIGSEGV, sigHook); signal(SIGBUS, sigHook); signal(SIGFPE, sigHook); signal(SIGILL, sigHook); }
}

// Run one sub-property: body(choices) decodes a case and checks it; it calls
// vh::fail() on a violation, or `return false` to discard.  `cases` executions.
inline bool runProp(const std::string& sub, long cases, double scale,
                    const std::function<void(Choices&)>& body, int maxSize = -1, int minSize = 0) {
    Ctx& c = ctx();
    if (cases <= 0) return true;
    uint64_t seed = mix(c.args.seed * 1000003ULL + (uint64_t)c.args.shard * 7919ULL + fnv(sub));
    rc::detail::TestParams params;
    params.seed = seed;
    params.maxSuccess = (int)cases;
    params.maxSize = maxSize > 0 ? maxSize : c.args.maxSize;
    params.maxDiscardRatio = 50;
    rc::detail::TestMetadata metadata;
    metadata.id = sub; metadata.description = sub;
    c.lastFail = Failure(); c.failedOnce = false; c.execAfterFail = 0;
    auto gen = choiceGen(scale, minSize);
    auto result = rc::detail::checkTestable([&]() {
        std::vector<uint32_t> raw = *gen;
        if (c.failedOnce && ++c.execAfterFail > c.shrinkBudget) return; // stop shrinking: keep current best
        Choices ch(raw);
        try {
            body(ch);
        } catch (const CaseFailed& f) {
            RC_FAIL(f.msg);
        }
    }, metadata, params);
    bool ok = result.template is<rc::detail::SuccessResult>();
    if (!ok) { rc::detail::printResultMessage(result, std::cerr); std::cerr << std::endl; }
    if (!ok) {
        if (c.lastFail.set) recordViolation(sub, c.lastFail.kase, c.lastFail.message);
        else { Value k = Value::object(); k["note"] = "rapidcheck reported failure without an oracle message (generator gave up?)"; recordViolation(sub, k, "rapidcheck failure"); }
    }
    return ok;
}

// Replay dispatcher: returns 0 pass / 1 fail
inline int runReplay(const std::function<void(const std::string& sub, const Value& kase)>& replayFn) {
    Ctx& c = ctx();
    Value r = vj::parseFile(c.args.replay);
    std::string sub = r.getStr("sub");
    try {
        replayFn(sub, r.at("case"));
    } catch (const CaseFailed& f) {
        printf("REPLAY-FAIL property=%s sub=%s: %s\n", r.getStr("property").c_str(), sub.c_str(), f.msg.c_str());
        return 1;
    }
    printf("REPLAY-PASS property=%s sub=%s\n", r.getStr("property").c_str(), sub.c_str());
    return 0;
}

inline void writePart() {
    Ctx& c = ctx();
    if (c.args.part.empty()) return;
    Value p = Value::object();
    p["evaluations"] = c.stats.evaluations;
    p["inconclusive"] = c.stats.inconclusive;
    p["discarded"] = c.stats.discarded;
    p["nontrivial_count"] = (long long)c.stats.nontrivial.size();
    Value cl = Value::object();
    for (auto& kv : c.stats.classes) cl[kv.first] = kv.second;
    p["classes"] = cl;
    Value cn = Value::object();
    for (auto& kv : c.stats.counters) cn[kv.first] = kv.second;
    p["counters"] = cn;
    Value sm = Value::object();
    for (auto& kv : c.stats.samples) { Value a = Value::array(); for (auto& s : kv.second) a.push(s); sm[kv.first] = a; }
    p["samples"] = sm;
    Value vs = Value::array();
    for (auto& v : c.violations) vs.push(v);
    p["violations"] = vs;
    std::string hf = c.args.part + ".hashes";
    FILE* f = fopen(hf.c_str(), "wb");
    if (f) {
        for (uint64_t h : c.stats.nontrivial) fwrite(&h, 8, 1, f);
        fclose(f);
    }
    p["hashes_file"] = hf;
    vj::writeFile(c.args.part, p);
}

// Standard main() tail: exit code 1 iff violations
inline int finish() {
    writePart();
    return ctx().violations.empty() ? 0 : 1;
}

} // namespace vh
