// netgen <family> <seed> <outfile>
// Writes a synthetic evaluation network in the format the engine embeds
// (NetData::save() + Lzma86_Encode).  Families:
//   material      own-minus-opponent material through the ReLU stack plus small
//                 random piece-square noise: the search behaves like a chess engine
//   random-small  small random weights everywhere
//   random-wide   large first-layer weights (still < 32767/30 so the 16-bit
//                 accumulators cannot overflow with 30 non-king men)
//   extreme       weights at the corners of their types (same accumulator bound)
//   zero          all zero
#include "nntypes.hpp"
#include <cstdio>
#include <cstdlib>
#include <cstring>
#include <fstream>
#include <sstream>
#include <vector>

extern "C" {
#include "Lzma86Enc.h"
}

static unsigned long long s;
static unsigned long long rnd() { // splitmix64
    unsigned long long z = (s += 0x9e3779b97f4a7c15ULL);
    z = (z ^ (z >> 30)) * 0xbf58476d1ce4e5b9ULL;
    z = (z ^ (z >> 27)) * 0x94d049bb133111ebULL;
    return z ^ (z >> 31);
}
static int rr(int lo, int hi) { return lo + (int)(rnd() % (unsigned long long)(hi - lo + 1)); }

template <int nIn, int nOut>
static void fillLayer(LayerData<nIn, nOut>& l, int w, int b) {
    for (auto& x : l.weight.data) x = (S8)rr(-w, w);
    for (auto& x : l.bias.data) x = rr(-b, b);
}
template <int nIn, int nOut>
static void cornerLayer(LayerData<nIn, nOut>& l, int b) {
    for (auto& x : l.weight.data) { int k = rr(0, 3); x = (S8)(k == 0 ? 127 : k == 1 ? -127 : k == 2 ? -128 : 0); }
    for (auto& x : l.bias.data) x = (rr(0, 1) ? b : -b);
}

int main(int argc, char** argv) {
    if (argc != 4) { fprintf(stderr, "usage: netgen family seed out\n"); return 2; }
    std::string fam = argv[1];
    s = strtoull(argv[2], 0, 10) * 0x2545F4914F6CDD1DULL + 12345;
    auto net = NetData::create();
    memset((void*)net.get(), 0, sizeof(NetData));
    NetData& n = *net;
    const int IF = NetData::inFeatures, N1 = NetData::n1;
    if (fam == "zero") {
    } else if (fam == "material") {
        // feature index = (kIdx*10+pt)*64+sq ; pt 0..4 own Q R B N P, 5..9 opponent
        static const int val[5] = {36, 20, 13, 12, 4};
        for (int f = 0; f < IF; f++) {
            int pt = (f / 64) % 10;
            n.weight1(f, 0) = pt < 5 ? val[pt] : 0;       // own material
            n.weight1(f, 1) = pt >= 5 ? val[pt - 5] : 0;  // opponent material
            for (int k = 2; k < 10; k++) n.weight1(f, k) = (S16)rr(-24, 24);
        }
        for (int k = 2; k < 10; k++) n.bias1(k) = 200;
        for (int h = 0; h < NetData::nHeads; h++) {
            auto& H = n.head[h];
            H.lin2.weight(0, 0) = 64;  H.lin2.weight(0, 1) = -64;
            H.lin2.weight(1, 0) = -64; H.lin2.weight(1, 1) = 64;
            for (int o = 2; o < 6; o++) {
                for (int k = 2; k < 10; k++) {
                    H.lin2.weight(o, k) = (S8)rr(-40, 40);
                    H.lin2.weight(o, N1 + k) = (S8)rr(-40, 40);
                }
                H.lin2.bias(o) = rr(0, 2000);
            }
            for (int o = 0; o < 6; o++) H.lin3.weight(o, o) = 64;
            H.lin4.weight(0, 0) = 41; H.lin4.weight(0, 1) = -41;
            for (int o = 2; o < 6; o++) H.lin4.weight(0, o) = (S8)rr(-6, 6);
            H.lin4.bias(0) = rr(-300, 300);
        }
    } else if (fam == "random-small" || fam == "random-wide" || fam == "extreme") {
        bool wide = fam != "random-small", ext = fam == "extreme";
        int w1 = wide ? 1000 : 60;
        for (auto& x : n.weight1.data) x = ext ? (S16)(rr(0, 2) == 0 ? 0 : rr(0, 1) ? w1 : -w1) : (S16)rr(-w1, w1);
        for (auto& x : n.bias1.data) x = ext ? (S16)(rr(0, 1) ? 2000 : -2000) : (S16)rr(-w1, w1);
        for (int h = 0; h < NetData::nHeads; h++) {
            auto& H = n.head[h];
            if (ext) {
                cornerLayer(H.lin2, 1 << 24); cornerLayer(H.lin3, 1 << 20); cornerLayer(H.lin4, 1 << 16);
            } else {
                fillLayer(H.lin2, wide ? 127 : 20, wide ? 100000 : 500);
                fillLayer(H.lin3, wide ? 127 : 40, wide ? 20000 : 500);
                fillLayer(H.lin4, wide ? 127 : 40, wide ? 20000 : 500);
            }
        }
    } else {
        fprintf(stderr, "unknown family %s\n", fam.c_str());
        return 2;
    }
    std::stringstream ss;
    n.save(ss);
    std::string raw = ss.str();
    std::vector<unsigned char> out(raw.size() + raw.size() / 2 + 4096);
    size_t outLen = out.size();
    int res = Lzma86_Encode(out.data(), &outLen, (const Byte*)raw.data(), raw.size(), 1, 1 << 16, SZ_FILTER_NO);
    if (res != SZ_OK) { fprintf(stderr, "lzma encode failed %d\n", res); return 1; }
    std::ofstream os(argv[3], std::ios::binary);
    os.write((const char*)out.data(), outLen);
    return os.good() ? 0 : 1;
}
