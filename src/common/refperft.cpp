// Self-validation of refchess against perft numbers published in the
// literature (chessprogramming.org "Perft Results").  The constants are
// external to texel, so an error in refchess cannot cancel against one in texel.
#include "common/refchess.hpp"
#include <cstdio>
#include <cstring>

struct T { const char* fen; int depth; unsigned long long nodes; };
static const T quick[] = {
    {"rnbqkbnr/pppppppp/8/8/8/8/PPPPPPPP/RNBQKBNR w KQkq - 0 1", 1, 20ULL},
    {"rnbqkbnr/pppppppp/8/8/8/8/PPPPPPPP/RNBQKBNR w KQkq - 0 1", 2, 400ULL},
    {"rnbqkbnr/pppppppp/8/8/8/8/PPPPPPPP/RNBQKBNR w KQkq - 0 1", 3, 8902ULL},
    {"rnbqkbnr/pppppppp/8/8/8/8/PPPPPPPP/RNBQKBNR w KQkq - 0 1", 4, 197281ULL},
    {"r3k2r/p1ppqpb1/bn2pnp1/3PN3/1p2P3/2N2Q1p/PPPBBPPP/R3K2R w KQkq - 0 1", 1, 48ULL},
    {"r3k2r/p1ppqpb1/bn2pnp1/3PN3/1p2P3/2N2Q1p/PPPBBPPP/R3K2R w KQkq - 0 1", 2, 2039ULL},
    {"r3k2r/p1ppqpb1/bn2pnp1/3PN3/1p2P3/2N2Q1p/PPPBBPPP/R3K2R w KQkq - 0 1", 3, 97862ULL},
    {"8/2p5/3p4/KP5r/1R3p1k/8/4P1P1/8 w - - 0 1", 4, 43238ULL},
    {"8/2p5/3p4/KP5r/1R3p1k/8/4P1P1/8 w - - 0 1", 5, 674624ULL},
    {"r3k2r/Pppp1ppp/1b3nbN/nP6/BBP1P3/q4N2/Pp1P2PP/R2Q1RK1 w kq - 0 1", 3, 9467ULL},
    {"r3k2r/Pppp1ppp/1b3nbN/nP6/BBP1P3/q4N2/Pp1P2PP/R2Q1RK1 w kq - 0 1", 4, 422333ULL},
    {"r2q1rk1/pP1p2pp/Q4n2/bbp1p3/Np6/1B3NBn/pPPP1PPP/R3K2R b KQ - 0 1", 4, 422333ULL},
    {"rnbq1k1r/pp1Pbppp/2p5/8/2B5/8/PPP1NnPP/RNBQK2R w KQ - 1 8", 3, 62379ULL},
    {"r4rk1/1pp1qppp/p1np1n2/2b1p1B1/2B1P1b1/P1NP1N2/1PP1QPPP/R4RK1 w - - 0 10", 3, 89890ULL},
};
static const T deep[] = {
    {"rnbqkbnr/pppppppp/8/8/8/8/PPPPPPPP/RNBQKBNR w KQkq - 0 1", 5, 4865609ULL},
    {"r3k2r/p1ppqpb1/bn2pnp1/3PN3/1p2P3/2N2Q1p/PPPBBPPP/R3K2R w KQkq - 0 1", 4, 4085603ULL},
    {"8/2p5/3p4/KP5r/1R3p1k/8/4P1P1/8 w - - 0 1", 6, 11030083ULL},
    {"rnbq1k1r/pp1Pbppp/2p5/8/2B5/8/PPP1NnPP/RNBQK2R w KQ - 1 8", 4, 2103487ULL},
    {"r4rk1/1pp1qppp/p1np1n2/2b1p1B1/2B1P1b1/P1NP1N2/1PP1QPPP/R4RK1 w - - 0 10", 4, 3894594ULL},
};

static int run(const T* t, int n) {
    int bad = 0;
    for (int i = 0; i < n; i++) {
        ref::Pos p;
        if (!ref::fromFEN(t[i].fen, p)) { printf("refperft: bad fen %s\n", t[i].fen); bad++; continue; }
        unsigned long long got = ref::perft(p, t[i].depth);
        if (got != t[i].nodes) { printf("refperft: MISMATCH %s d%d got %llu want %llu\n", t[i].fen, t[i].depth, got, t[i].nodes); bad++; }
    }
    return bad;
}

int main(int argc, char** argv) {
    int bad = run(quick, sizeof(quick) / sizeof(quick[0]));
    if (argc > 1 && !strcmp(argv[1], "--deep")) bad += run(deep, sizeof(deep) / sizeof(deep[0]));
    // SAN spot checks from the PGN standard's own examples
    ref::Pos p;
    ref::fromFEN("5k2/8/8/8/8/8/8/4K2R w K - 0 1", p);
    ref::Move m; m.from = 4; m.to = 6;
    if (ref::san(p, m) != "O-O+") { printf("refperft: san castle %s\n", ref::san(p, m).c_str()); bad++; }
    printf(bad ? "refperft: FAILED\n" : "refperft: ok\n");
    return bad ? 1 : 0;
}
