// UCI driver: spawns the real texel binary (built from /repo/app/texel), keeps a
// single totally ordered transcript of sent and received lines, offers pacing
// primitives for generators, detects exit status / signals and samples the
// child's CPU time for the hang rule.  Also: a line grammar for everything
// texel can print, and parsers for info / bestmove lines.
#pragma once
#include "common/json.hpp"
#include <cerrno>
#include <cstdio>
#include <cstdlib>
#include <cstring>
#include <fcntl.h>
#include <functional>
#include <poll.h>
#include <regex>
#include <signal.h>
#include <string>
#include <sys/types.h>
#include <sys/wait.h>
#include <time.h>
#include <unistd.h>
#include <vector>

namespace uci {

inline long long nowMs() {
    timespec ts; clock_gettime(CLOCK_MONOTONIC, &ts);
    return (long long)ts.tv_sec * 1000 + ts.tv_nsec / 1000000;
}

struct Entry { int seq; char dir; std::string line; long long t; }; // dir '>' sent, '<' received

struct Info {
    bool hasScore = false, mate = false, upper = false, lower = false, hasPv = false;
    int depth = -1, score = 0, multipv = 0;
    long long nodes = -1, time = -1, nps = -1, tbhits = 0;
    std::vector<std::string> pv;
    std::string currmove;
};

inline std::vector<std::string> split(const std::string& s) {
    std::vector<std::string> t; size_t i = 0;
    while (i < s.size()) {
        while (i < s.size() && isspace((unsigned char)s[i])) i++;
        size_t j = i;
        while (j < s.size() && !isspace((unsigned char)s[j])) j++;
        if (j > i) t.push_back(s.substr(i, j - i));
        i = j;
    }
    return t;
}

inline bool parseInfo(const std::string& line, Info& inf) {
    std::vector<std::string> t = split(line);
    if (t.empty() || t[0] != "info") return false;
    for (size_t i = 1; i < t.size(); i++) {
        const std::string& k = t[i];
        auto num = [&](long long& out) { if (i + 1 < t.size()) out = atoll(t[++i].c_str()); };
        if (k == "depth") { long long v = -1; num(v); inf.depth = (int)v; }
        else if (k == "score") {
            if (i + 2 < t.size()) { inf.hasScore = true; inf.mate = t[i + 1] == "mate"; inf.score = atoi(t[i + 2].c_str()); i += 2; }
        } else if (k == "upperbound") inf.upper = true;
        else if (k == "lowerbound") inf.lower = true;
        else if (k == "nodes") num(inf.nodes);
        else if (k == "time") num(inf.time);
        else if (k == "nps") num(inf.nps);
        else if (k == "tbhits") num(inf.tbhits);
        else if (k == "multipv") { long long v = 0; num(v); inf.multipv = (int)v; }
        else if (k == "currmove") { if (i + 1 < t.size()) inf.currmove = t[++i]; }
        else if (k == "pv") { inf.hasPv = true; for (i++; i < t.size(); i++) inf.pv.push_back(t[i]); }
        else if (k == "string") break;
    }
    return true;
}

// Line grammar: every line kind texel prints on its UCI channel.
enum Kind { K_ID, K_OPTION, K_UCIOK, K_READYOK, K_BESTMOVE, K_INFO_DEPTH, K_INFO_PV, K_INFO_CURRMOVE, K_INFO_STATS, K_INFO_STRING, K_EMPTY, K_MALFORMED };
inline Kind classify(const std::string& l) {
    static const std::string mv = "[a-h][1-8][a-h][1-8][qrbn]?";
    static const std::regex reBest("^bestmove (" + mv + "|0000)( ponder " + mv + ")?$");
    static const std::regex reDepth("^info depth [0-9]+$");
    static const std::regex rePv("^info depth [0-9]+ score (cp|mate) -?[0-9]+( upperbound| lowerbound)? time [0-9]+ nodes [0-9]+ nps [0-9]+( tbhits [0-9]+)?( multipv [0-9]+)? pv( " + mv + ")*$");
    static const std::regex reCurr("^info currmove (" + mv + "|0000) currmovenumber [0-9]+$");
    static const std::regex reStats("^info nodes [0-9]+ nps [0-9]+ hashfull [0-9]+( tbhits [0-9]+)? time [0-9]+$");
    static const std::regex reOpt("^option name .+ type (check|spin|combo|button|string)( .*)?$");
    if (l.empty()) return K_EMPTY;
    if (l == "uciok") return K_UCIOK;
    if (l == "readyok") return K_READYOK;
    if (l.rfind("id name ", 0) == 0 || l.rfind("id author ", 0) == 0) return K_ID;
    if (l.rfind("info string ", 0) == 0) return K_INFO_STRING;
    if (l.rfind("bestmove", 0) == 0) return std::regex_match(l, reBest) ? K_BESTMOVE : K_MALFORMED;
    if (l.rfind("option ", 0) == 0) return std::regex_match(l, reOpt) ? K_OPTION : K_MALFORMED;
    if (std::regex_match(l, reDepth)) return K_INFO_DEPTH;
    if (std::regex_match(l, rePv)) return K_INFO_PV;
    if (std::regex_match(l, reCurr)) return K_INFO_CURRMOVE;
    if (std::regex_match(l, reStats)) return K_INFO_STATS;
    return K_MALFORMED;
}
inline bool isSearchOutput(Kind k) { return k == K_INFO_DEPTH || k == K_INFO_PV || k == K_INFO_CURRMOVE || k == K_INFO_STATS; }

class Engine {
public:
    std::vector<Entry> log;
    int seq = 0;
    pid_t pid = -1;
    int inFd = -1, outFd = -1; // our write end to child's stdin, our read end of child's stdout
    std::string buf;
    bool eof = false;
    int exitStatus = -1; // raw wait status once reaped
    bool reaped = false;
    std::string stderrFile;
    size_t scanPos = 0; // next log index not yet seen by waitFor

    ~Engine() { kill(); }

    // argv[0] = engine path; env additions as "K=V"
    bool start(const std::string& exe, const std::vector<std::string>& envAdd, const std::string& stderrPath) {
        int pin[2], pout[2];
        if (pipe(pin) || pipe(pout)) return false;
        stderrFile = stderrPath;
        pid = fork();
        if (pid < 0) return false;
        if (pid == 0) {
            dup2(pin[0], 0); dup2(pout[1], 1);
            int efd = open(stderrPath.c_str(), O_WRONLY | O_CREAT | O_TRUNC, 0644);
            if (efd >= 0) dup2(efd, 2);
            close(pin[0]); close(pin[1]); close(pout[0]); close(pout[1]);
            for (auto& e : envAdd) putenv(strdup(e.c_str()));
            execl(exe.c_str(), exe.c_str(), (char*)nullptr);
            _exit(127);
        }
        close(pin[0]); close(pout[1]);
        inFd = pin[1]; outFd = pout[0];
        fcntl(outFd, F_SETFL, fcntl(outFd, F_GETFL) | O_NONBLOCK);
        signal(SIGPIPE, SIG_IGN);
        return true;
    }

    void send(const std::string& line) {
        log.push_back({seq++, '>', line, nowMs()});
        if (inFd < 0) return;
        std::string s = line + "\n";
        size_t off = 0;
        while (off < s.size()) {
            ssize_t n = write(inFd, s.data() + off, s.size() - off);
            if (n <= 0) { if (errno == EINTR) continue; break; }
            off += (size_t)n;
        }
    }
    void closeStdin() { if (inFd >= 0) { log.push_back({seq++, '>', "<EOF>", nowMs()}); close(inFd); inFd = -1; } }

    // Pump available output for up to timeoutMs; returns number of new lines.
    int pump(int timeoutMs) {
        if (eof || outFd < 0) return 0;
        pollfd pfd{outFd, POLLIN, 0};
        int r = poll(&pfd, 1, timeoutMs);
        if (r <= 0) return 0;
        char tmp[65536];
        int lines = 0;
        for (;;) {
            ssize_t n = read(outFd, tmp, sizeof tmp);
            if (n > 0) {
                buf.append(tmp, (size_t)n);
                size_t p;
                while ((p = buf.find('\n')) != std::string::npos) {
                    std::string l = buf.substr(0, p);
                    if (!l.empty() && l.back() == '\r') l.pop_back();
                    buf.erase(0, p + 1);
                    log.push_back({seq++, '<', l, nowMs()});
                    lines++;
                }
                continue;
            }
            if (n == 0) { eof = true; if (!buf.empty()) { log.push_back({seq++, '<', buf, nowMs()}); buf.clear(); lines++; } }
            break;
        }
        return lines;
    }

    // Wait until pred(line) holds for a received line not yet examined, or timeout.
    // Returns the log index or -1.
    int waitFor(const std::function<bool(const std::string&)>& pred, int timeoutMs) {
        long long end = nowMs() + timeoutMs;
        for (;;) {
            for (; scanPos < log.size(); scanPos++)
                if (log[scanPos].dir == '<' && pred(log[scanPos].line)) return (int)scanPos++;
            long long left = end - nowMs();
            if (left <= 0 || eof) { if (eof) { for (; scanPos < log.size(); scanPos++) if (log[scanPos].dir == '<' && pred(log[scanPos].line)) return (int)scanPos++; } return -1; }
            pump((int)std::min<long long>(left, 50));
            if (!reaped) tryReap();
        }
    }
    int waitLine(const std::string& exact, int timeoutMs) { return waitFor([&](const std::string& l) { return l == exact; }, timeoutMs); }
    int waitPrefix(const std::string& pre, int timeoutMs) { return waitFor([&](const std::string& l) { return l.rfind(pre, 0) == 0; }, timeoutMs); }
    void sleepMs(int ms) { long long end = nowMs() + ms; while (nowMs() < end) pump((int)std::min<long long>(end - nowMs(), 20)); }

    bool tryReap() {
        if (reaped || pid < 0) return reaped;
        int st; pid_t r = waitpid(pid, &st, WNOHANG);
        if (r == pid) { reaped = true; exitStatus = st; }
        return reaped;
    }
    // Wait for process exit; returns true if it exited within the timeout.
    bool waitExit(int timeoutMs) {
        long long end = nowMs() + timeoutMs;
        while (!tryReap()) {
            if (nowMs() >= end) return false;
            pump(20);
        }
        while (!eof && pump(50) > 0) {}
        pump(10);
        return true;
    }
    bool exitedCleanly() const { return reaped && WIFEXITED(exitStatus) && WEXITSTATUS(exitStatus) == 0; }
    std::string exitDesc() const {
        if (!reaped) return "still running";
        if (WIFSIGNALED(exitStatus)) return "killed by signal " + std::to_string(WTERMSIG(exitStatus));
        return "exit status " + std::to_string(WEXITSTATUS(exitStatus));
    }
    // CPU time (user+system) of the child in clock ticks, -1 if gone.
    long cpuTicks() const {
        if (pid < 0 || reaped) return -1;
        char path[64]; snprintf(path, sizeof path, "/proc/%d/stat", (int)pid);
        FILE* f = fopen(path, "r"); if (!f) return -1;
        char line[2048]; if (!fgets(line, sizeof line, f)) { fclose(f); return -1; }
        fclose(f);
        const char* p = strrchr(line, ')'); if (!p) return -1;
        long ut = 0, stt = 0; int field = 2; // after ')' comes field 3 (state)
        std::vector<std::string> t = split(p + 1);
        if (t.size() < 13) return -1;
        ut = atol(t[11].c_str()); stt = atol(t[12].c_str()); (void)field;
        return ut + stt;
    }
    void kill() {
        if (inFd >= 0) { close(inFd); inFd = -1; }
        if (pid > 0 && !reaped) { ::kill(pid, SIGKILL); int st; waitpid(pid, &st, 0); reaped = true; exitStatus = st; }
        if (outFd >= 0) { close(outFd); outFd = -1; }
    }
    std::string stderrText(size_t maxBytes = 20000) const {
        FILE* f = fopen(stderrFile.c_str(), "r"); if (!f) return "";
        std::string s; char tmp[4096]; size_t n;
        while ((n = fread(tmp, 1, sizeof tmp, f)) > 0 && s.size() < maxBytes) s.append(tmp, n);
        fclose(f);
        return s;
    }
    vj::Value transcript(size_t maxLines = 400) const {
        vj::Value a = vj::Value::array();
        size_t start = log.size() > maxLines ? log.size() - maxLines : 0;
        for (size_t i = start; i < log.size(); i++) a.push(std::string(1, log[i].dir) + " " + log[i].line);
        return a;
    }
    std::vector<std::string> received() const { std::vector<std::string> r; for (auto& e : log) if (e.dir == '<') r.push_back(e.line); return r; }
};

} // namespace uci
