// Minimal JSON value (object / array / string / integer / double / bool / null)
// with a writer and a parser: enough for replay files and evidence parts.
#pragma once
#include <cstdint>
#include <cstdio>
#include <cstdlib>
#include <fstream>
#include <map>
#include <sstream>
#include <stdexcept>
#include <string>
#include <vector>

namespace vj {

struct Value {
    enum Type { Null, Bool, Int, Dbl, Str, Arr, Obj } t = Null;
    bool b = false;
    long long i = 0;
    double d = 0;
    std::string s;
    std::vector<Value> a;
    std::vector<std::pair<std::string, Value>> o; // insertion ordered

    Value() {}
    Value(bool v) : t(Bool), b(v) {}
    Value(int v) : t(Int), i(v) {}
    Value(long v) : t(Int), i(v) {}
    Value(long long v) : t(Int), i(v) {}
    Value(unsigned v) : t(Int), i(v) {}
    Value(unsigned long v) : t(Int), i((long long)v) {}
    Value(unsigned long long v) : t(Int), i((long long)v) {}
    Value(double v) : t(Dbl), d(v) {}
    Value(const char* v) : t(Str), s(v) {}
    Value(const std::string& v) : t(Str), s(v) {}
    static Value array() { Value v; v.t = Arr; return v; }
    static Value object() { Value v; v.t = Obj; return v; }
    template <class T> static Value arrayOf(const std::vector<T>& xs) { Value v = array(); for (auto& x : xs) v.a.push_back(Value(x)); return v; }

    Value& operator[](const std::string& k) {
        if (t == Null) t = Obj;
        for (auto& kv : o) if (kv.first == k) return kv.second;
        o.emplace_back(k, Value());
        return o.back().second;
    }
    const Value* find(const std::string& k) const {
        for (auto& kv : o) if (kv.first == k) return &kv.second;
        return nullptr;
    }
    bool has(const std::string& k) const { return find(k) != nullptr; }
    const Value& at(const std::string& k) const {
        const Value* v = find(k);
        if (!v) throw std::runtime_error("json: missing key " + k);
        return *v;
    }
    void push(const Value& v) { if (t == Null) t = Arr; a.push_back(v); }
    long long num() const { return t == Dbl ? (long long)d : i; }
    long long getInt(const std::string& k, long long def) const { const Value* v = find(k); return v ? v->num() : def; }
    std::string getStr(const std::string& k, const std::string& def = "") const { const Value* v = find(k); return v ? v->s : def; }
    bool getBool(const std::string& k, bool def) const { const Value* v = find(k); return v ? (v->t == Bool ? v->b : v->num() != 0) : def; }
    std::vector<std::string> strs(const std::string& k) const {
        std::vector<std::string> r; const Value* v = find(k);
        if (v) for (auto& e : v->a) r.push_back(e.s);
        return r;
    }
    std::vector<long long> ints(const std::string& k) const {
        std::vector<long long> r; const Value* v = find(k);
        if (v) for (auto& e : v->a) r.push_back(e.num());
        return r;
    }
};

inline void escape(std::ostream& os, const std::string& s) {
    os << '"';
    for (unsigned char c : s) {
        switch (c) {
        case '"': os << "\\\""; break;
        case '\\': os << "\\\\"; break;
        case '\n': os << "\\n"; break;
        case '\r': os << "\\r"; break;
        case '\t': os << "\\t"; break;
        default:
            if (c < 0x20 || c >= 0x7f) { char buf[8]; snprintf(buf, sizeof buf, "\\u%04x", c); os << buf; }
            else os << c;
        }
    }
    os << '"';
}

inline void write(std::ostream& os, const Value& v) {
    switch (v.t) {
    case Value::Null: os << "null"; break;
    case Value::Bool: os << (v.b ? "true" : "false"); break;
    case Value::Int: os << v.i; break;
    case Value::Dbl: { char buf[40]; snprintf(buf, sizeof buf, "%.6g", v.d); os << buf; break; }
    case Value::Str: escape(os, v.s); break;
    case Value::Arr:
        os << '[';
        for (size_t k = 0; k < v.a.size(); k++) { if (k) os << ','; write(os, v.a[k]); }
        os << ']';
        break;
    case Value::Obj:
        os << '{';
        for (size_t k = 0; k < v.o.size(); k++) { if (k) os << ','; escape(os, v.o[k].first); os << ':'; write(os, v.o[k].second); }
        os << '}';
        break;
    }
}
inline std::string dump(const Value& v) { std::ostringstream os; write(os, v); return os.str(); }

struct Parser {
    const std::string& s; size_t i = 0;
    explicit Parser(const std::string& str) : s(str) {}
    void ws() { while (i < s.size() && (s[i] == ' ' || s[i] == '\n' || s[i] == '\t' || s[i] == '\r')) i++; }
    [[noreturn]] void fail(const char* m) { throw std::runtime_error(std::string("json parse: ") + m + " at " + std::to_string(i)); }
    Value parse() {
        ws();
        if (i >= s.size()) fail("eof");
        char c = s[i];
        if (c == '{') {
            Value v = Value::object(); i++; ws();
            if (i < s.size() && s[i] == '}') { i++; return v; }
            for (;;) {
                ws(); Value k = parse(); if (k.t != Value::Str) fail("key");
                ws(); if (i >= s.size() || s[i] != ':') fail(":"); i++;
                Value e = parse(); v.o.emplace_back(k.s, e); ws();
                if (i < s.size() && s[i] == ',') { i++; continue; }
                if (i < s.size() && s[i] == '}') { i++; return v; }
                fail("obj");
            }
        }
        if (c == '[') {
            Value v = Value::array(); i++; ws();
            if (i < s.size() && s[i] == ']') { i++; return v; }
            for (;;) {
                v.a.push_back(parse()); ws();
                if (i < s.size() && s[i] == ',') { i++; continue; }
                if (i < s.size() && s[i] == ']') { i++; return v; }
                fail("arr");
            }
        }
        if (c == '"') {
            Value v; v.t = Value::Str; i++;
            while (i < s.size() && s[i] != '"') {
                if (s[i] == '\\') {
                    i++; if (i >= s.size()) fail("esc");
                    char e = s[i++];
                    switch (e) {
                    case 'n': v.s += '\n'; break; case 't': v.s += '\t'; break; case 'r': v.s += '\r'; break;
                    case 'b': v.s += '\b'; break; case 'f': v.s += '\f'; break;
                    case 'u': { if (i + 4 > s.size()) fail("u"); unsigned cp = (unsigned)strtoul(s.substr(i, 4).c_str(), 0, 16); i += 4;
                                if (cp < 0x100) v.s += (char)cp; else { v.s += '?'; } break; }
                    default: v.s += e;
                    }
                } else v.s += s[i++];
            }
            if (i >= s.size()) fail("str"); i++;
            return v;
        }
        if (!s.compare(i, 4, "true")) { i += 4; return Value(true); }
        if (!s.compare(i, 5, "false")) { i += 5; return Value(false); }
        if (!s.compare(i, 4, "null")) { i += 4; return Value(); }
        size_t j = i; bool dbl = false;
        while (j < s.size() && (isdigit((unsigned char)s[j]) || s[j] == '-' || s[j] == '+' || s[j] == '.' || s[j] == 'e' || s[j] == 'E')) { if (s[j] == '.' || s[j] == 'e' || s[j] == 'E') dbl = true; j++; }
        if (j == i) fail("value");
        std::string n = s.substr(i, j - i); i = j;
        if (dbl) return Value(atof(n.c_str()));
        return Value((long long)strtoll(n.c_str(), 0, 10));
    }
};
inline Value parse(const std::string& s) { Parser p(s); return p.parse(); }
inline Value parseFile(const std::string& fn) {
    std::ifstream is(fn); if (!is) throw std::runtime_error("cannot open " + fn);
    std::stringstream ss; ss << is.rdbuf(); return parse(ss.str());
}
inline void writeFile(const std::string& fn, const Value& v) {
    std::ofstream os(fn); write(os, v); os << "\n";
}

} // namespace vj
