// refchess: a deliberately naive, independent implementation of the rules of
// chess (mailbox board, ray walking, legality by make-and-test).  It shares no
// code or table with texel and is the oracle for the move-level properties.
// It is validated against published perft numbers by `refperft` at setup and
// at the start of every quick run.
#pragma once
#include <algorithm>
#include <cstdint>
#include <cstdlib>
#include <cstring>
#include <map>
#include <set>
#include <string>
#include <vector>

namespace ref {

// squares: a1 = 0, b1 = 1, ..., h1 = 7, a2 = 8, ..., h8 = 63
inline int SQ(int x, int y) { return y * 8 + x; }
inline int X(int s) { return s & 7; }
inline int Y(int s) { return s >> 3; }
inline bool onBoard(int x, int y) { return x >= 0 && x < 8 && y >= 0 && y < 8; }
inline std::string sqName(int s) { std::string r; r += char('a' + X(s)); r += char('1' + Y(s)); return r; }
inline int sqFromName(const std::string& s, size_t i = 0) {
    if (s.size() < i + 2) return -1;
    int x = s[i] - 'a', y = s[i + 1] - '1';
    return onBoard(x, y) ? SQ(x, y) : -1;
}

inline bool isWhite(char p) { return p >= 'A' && p <= 'Z'; }
inline bool isBlack(char p) { return p >= 'a' && p <= 'z'; }
inline bool isPiece(char p) { return p != '.'; }
inline char lower(char p) { return isWhite(p) ? char(p - 'A' + 'a') : p; }
inline char upper(char p) { return isBlack(p) ? char(p - 'a' + 'A') : p; }
inline bool ownPiece(char p, bool white) { return white ? isWhite(p) : isBlack(p); }

struct Move {
    int from = -1, to = -1;
    char promo = 0; // 'q','r','b','n' (lower case) or 0
    bool operator==(const Move& o) const { return from == o.from && to == o.to && promo == o.promo; }
    bool operator!=(const Move& o) const { return !(*this == o); }
    bool operator<(const Move& o) const {
        if (from != o.from) return from < o.from;
        if (to != o.to) return to < o.to;
        return promo < o.promo;
    }
    bool valid() const { return from >= 0; }
    std::string uci() const {
        if (from < 0) return "0000";
        std::string r = sqName(from) + sqName(to);
        if (promo) r += promo;
        return r;
    }
    static Move fromUci(const std::string& s) {
        Move m;
        if (s.size() < 4 || s.size() > 5) return m;
        int f = sqFromName(s, 0), t = sqFromName(s, 2);
        if (f < 0 || t < 0) return m;
        m.from = f; m.to = t;
        if (s.size() == 5) m.promo = s[4];
        return m;
    }
};

struct Pos {
    char b[64];
    bool wtm = true;
    bool cK = false, cQ = false, ck = false, cq = false; // castling rights
    int ep = -1;   // en-passant target square as *recorded* (see epMode)
    int hmc = 0;   // half-move clock
    int fmc = 1;   // full-move counter
    Pos() { memset(b, '.', 64); }

    int kingSq(bool white) const {
        char k = white ? 'K' : 'k';
        for (int s = 0; s < 64; s++) if (b[s] == k) return s;
        return -1;
    }
    int count(char p) const { int n = 0; for (int s = 0; s < 64; s++) n += b[s] == p; return n; }
    int men() const { int n = 0; for (int s = 0; s < 64; s++) n += b[s] != '.'; return n; }
    bool sameBoard(const Pos& o) const { return memcmp(b, o.b, 64) == 0; }
};

// Is square s attacked by a piece of colour byWhite?
inline bool attacked(const Pos& p, int s, bool byWhite) {
    int x = X(s), y = Y(s);
    // pawns
    {
        int dy = byWhite ? -1 : 1; // attacker stands one rank "behind" from its own view
        char pw = byWhite ? 'P' : 'p';
        for (int dx = -1; dx <= 1; dx += 2)
            if (onBoard(x + dx, y + dy) && p.b[SQ(x + dx, y + dy)] == pw) return true;
    }
    static const int kn[8][2] = {{1,2},{2,1},{2,-1},{1,-2},{-1,-2},{-2,-1},{-2,1},{-1,2}};
    char n = byWhite ? 'N' : 'n';
    for (auto& d : kn)
        if (onBoard(x + d[0], y + d[1]) && p.b[SQ(x + d[0], y + d[1])] == n) return true;
    char k = byWhite ? 'K' : 'k';
    for (int dx = -1; dx <= 1; dx++)
        for (int dy = -1; dy <= 1; dy++)
            if ((dx || dy) && onBoard(x + dx, y + dy) && p.b[SQ(x + dx, y + dy)] == k) return true;
    char q = byWhite ? 'Q' : 'q', r = byWhite ? 'R' : 'r', bi = byWhite ? 'B' : 'b';
    for (int dx = -1; dx <= 1; dx++)
        for (int dy = -1; dy <= 1; dy++) {
            if (!dx && !dy) continue;
            bool diag = dx && dy;
            int cx = x + dx, cy = y + dy;
            while (onBoard(cx, cy)) {
                char c = p.b[SQ(cx, cy)];
                if (c != '.') {
                    if (c == q || c == (diag ? bi : r)) return true;
                    break;
                }
                cx += dx; cy += dy;
            }
        }
    return false;
}

inline bool inCheck(const Pos& p, bool white) { int k = p.kingSq(white); return k >= 0 && attacked(p, k, !white); }
inline bool inCheck(const Pos& p) { return inCheck(p, p.wtm); }

// En-passant bookkeeping after a double push.  texel records the target
// square iff an enemy pawn stands beside the pushed pawn (representational
// notion, "pseudo" e.p.); FIDE position identity needs the *legal* notion.
// make() records the pseudo notion; legalEp() answers the legal one.

// Play m (assumed pseudo-legal) and return the new position.
inline Pos make(const Pos& p, const Move& m) {
    Pos n = p;
    char pc = p.b[m.from];
    char cap = p.b[m.to];
    bool white = p.wtm;
    n.ep = -1;
    bool pawn = lower(pc) == 'p';
    if (pawn || cap != '.') n.hmc = 0; else n.hmc = p.hmc + 1;
    n.b[m.from] = '.';
    if (pawn) {
        if (m.to == p.ep && p.ep >= 0 && X(m.from) != X(m.to) && cap == '.') {
            n.b[SQ(X(m.to), Y(m.from))] = '.'; // en passant capture
        }
        if (abs(Y(m.to) - Y(m.from)) == 2) {
            int x = X(m.to), y = Y(m.to);
            char enemy = white ? 'p' : 'P';
            bool beside = (x > 0 && p.b[SQ(x - 1, y)] == enemy) || (x < 7 && p.b[SQ(x + 1, y)] == enemy);
            if (beside) n.ep = SQ(x, (Y(m.from) + Y(m.to)) / 2);
        }
        n.b[m.to] = m.promo ? (white ? upper(m.promo) : m.promo) : pc;
    } else {
        n.b[m.to] = pc;
        if (lower(pc) == 'k' && abs(X(m.to) - X(m.from)) == 2) {
            int y = Y(m.from);
            if (X(m.to) == 6) { n.b[SQ(7, y)] = '.'; n.b[SQ(5, y)] = white ? 'R' : 'r'; }
            else              { n.b[SQ(0, y)] = '.'; n.b[SQ(3, y)] = white ? 'R' : 'r'; }
        }
    }
    // castling rights: lost when king or rook leaves, or rook square is captured on
    auto touch = [&](int s) {
        if (s == SQ(4, 0)) n.cK = n.cQ = false;
        if (s == SQ(7, 0)) n.cK = false;
        if (s == SQ(0, 0)) n.cQ = false;
        if (s == SQ(4, 7)) n.ck = n.cq = false;
        if (s == SQ(7, 7)) n.ck = false;
        if (s == SQ(0, 7)) n.cq = false;
    };
    touch(m.from); touch(m.to);
    if (!white) n.fmc = p.fmc + 1;
    n.wtm = !white;
    return n;
}

inline void pseudoMoves(const Pos& p, std::vector<Move>& out) {
    bool w = p.wtm;
    auto add = [&](int f, int t, char pr = 0) { Move m; m.from = f; m.to = t; m.promo = pr; out.push_back(m); };
    for (int s = 0; s < 64; s++) {
        char pc = p.b[s];
        if (!ownPiece(pc, w)) continue;
        int x = X(s), y = Y(s);
        char t = lower(pc);
        if (t == 'p') {
            int dy = w ? 1 : -1, start = w ? 1 : 6, last = w ? 7 : 0;
            auto addP = [&](int to) {
                if (Y(to) == last) { add(s, to, 'q'); add(s, to, 'r'); add(s, to, 'b'); add(s, to, 'n'); }
                else add(s, to);
            };
            if (onBoard(x, y + dy) && p.b[SQ(x, y + dy)] == '.') {
                addP(SQ(x, y + dy));
                if (y == start && p.b[SQ(x, y + 2 * dy)] == '.') add(s, SQ(x, y + 2 * dy));
            }
            for (int dx = -1; dx <= 1; dx += 2) {
                if (!onBoard(x + dx, y + dy)) continue;
                int to = SQ(x + dx, y + dy);
                char c = p.b[to];
                if (c != '.' && !ownPiece(c, w)) addP(to);
                else if (c == '.' && to == p.ep) {
                    // the captured pawn must really be there
                    char victim = w ? 'p' : 'P';
                    if (p.b[SQ(x + dx, y)] == victim && y == (w ? 4 : 3)) add(s, to);
                }
            }
        } else if (t == 'n') {
            static const int kn[8][2] = {{1,2},{2,1},{2,-1},{1,-2},{-1,-2},{-2,-1},{-2,1},{-1,2}};
            for (auto& d : kn) {
                if (!onBoard(x + d[0], y + d[1])) continue;
                int to = SQ(x + d[0], y + d[1]);
                if (!ownPiece(p.b[to], w)) add(s, to);
            }
        } else if (t == 'k') {
            for (int dx = -1; dx <= 1; dx++)
                for (int dy = -1; dy <= 1; dy++) {
                    if ((!dx && !dy) || !onBoard(x + dx, y + dy)) continue;
                    int to = SQ(x + dx, y + dy);
                    if (!ownPiece(p.b[to], w)) add(s, to);
                }
            int hy = w ? 0 : 7;
            if (s == SQ(4, hy) && !attacked(p, s, !w)) {
                bool ks = w ? p.cK : p.ck, qs = w ? p.cQ : p.cq;
                char rook = w ? 'R' : 'r';
                if (ks && p.b[SQ(7, hy)] == rook && p.b[SQ(5, hy)] == '.' && p.b[SQ(6, hy)] == '.' &&
                    !attacked(p, SQ(5, hy), !w) && !attacked(p, SQ(6, hy), !w))
                    add(s, SQ(6, hy));
                if (qs && p.b[SQ(0, hy)] == rook && p.b[SQ(1, hy)] == '.' && p.b[SQ(2, hy)] == '.' &&
                    p.b[SQ(3, hy)] == '.' && !attacked(p, SQ(3, hy), !w) && !attacked(p, SQ(2, hy), !w))
                    add(s, SQ(2, hy));
            }
        } else {
            for (int dx = -1; dx <= 1; dx++)
                for (int dy = -1; dy <= 1; dy++) {
                    if (!dx && !dy) continue;
                    bool diag = dx && dy;
                    if (t == 'r' && diag) continue;
                    if (t == 'b' && !diag) continue;
                    int cx = x + dx, cy = y + dy;
                    while (onBoard(cx, cy)) {
                        int to = SQ(cx, cy);
                        char c = p.b[to];
                        if (c == '.') add(s, to);
                        else { if (!ownPiece(c, w)) add(s, to); break; }
                        cx += dx; cy += dy;
                    }
                }
        }
    }
}

inline std::vector<Move> legalMoves(const Pos& p) {
    std::vector<Move> ps, out;
    pseudoMoves(p, ps);
    for (const Move& m : ps) {
        Pos n = make(p, m);
        if (!inCheck(n, p.wtm)) out.push_back(m);
    }
    return out;
}

inline bool isLegal(const Pos& p, const Move& m) {
    for (const Move& l : legalMoves(p)) if (l == m) return true;
    return false;
}

// The legal en-passant notion: recorded target square and some legal e.p. capture exists.
inline bool legalEp(const Pos& p) {
    if (p.ep < 0) return false;
    for (const Move& m : legalMoves(p))
        if (m.to == p.ep && lower(p.b[m.from]) == 'p' && X(m.from) != X(m.to)) return true;
    return false;
}
// Same normalisation as texel's documented fixupEPSquare: drop a target square
// that no legal capture can use.
inline void normalizeEp(Pos& p) { if (p.ep >= 0 && !legalEp(p)) p.ep = -1; }

inline bool isMate(const Pos& p) { return inCheck(p) && legalMoves(p).empty(); }
inline bool isStalemate(const Pos& p) { return !inCheck(p) && legalMoves(p).empty(); }

inline bool isCapture(const Pos& p, const Move& m) {
    if (p.b[m.to] != '.') return true;
    return lower(p.b[m.from]) == 'p' && X(m.from) != X(m.to);
}
inline bool isEp(const Pos& p, const Move& m) {
    return lower(p.b[m.from]) == 'p' && X(m.from) != X(m.to) && p.b[m.to] == '.';
}
inline bool isCastle(const Pos& p, const Move& m) {
    return lower(p.b[m.from]) == 'k' && abs(X(m.to) - X(m.from)) == 2;
}
inline bool givesCheck(const Pos& p, const Move& m) { Pos n = make(p, m); return inCheck(n, n.wtm); }

// ---- FEN ------------------------------------------------------------------
inline std::string castleStr(const Pos& p) {
    std::string c;
    if (p.cK) c += 'K'; if (p.cQ) c += 'Q'; if (p.ck) c += 'k'; if (p.cq) c += 'q';
    return c.empty() ? "-" : c;
}
inline std::string boardStr(const Pos& p) {
    std::string r;
    for (int y = 7; y >= 0; y--) {
        int e = 0;
        for (int x = 0; x < 8; x++) {
            char c = p.b[SQ(x, y)];
            if (c == '.') e++;
            else { if (e) r += char('0' + e); e = 0; r += c; }
        }
        if (e) r += char('0' + e);
        if (y) r += '/';
    }
    return r;
}
inline std::string toFEN(const Pos& p) {
    return boardStr(p) + (p.wtm ? " w " : " b ") + castleStr(p) + " " + (p.ep >= 0 ? sqName(p.ep) : "-") +
           " " + std::to_string(p.hmc) + " " + std::to_string(p.fmc);
}
// FIDE 9.2 identity: same placement, side, castling rights and *legal* e.p. possibilities
inline std::string repKey(const Pos& p) {
    return boardStr(p) + (p.wtm ? " w " : " b ") + castleStr(p) + " " + (legalEp(p) ? sqName(p.ep) : "-");
}

// Strict-ish FEN parser for harness-generated FENs.  Returns false on syntax errors.
inline bool fromFEN(const std::string& fen, Pos& p) {
    p = Pos();
    size_t i = 0;
    int x = 0, y = 7;
    for (; i < fen.size() && fen[i] != ' '; i++) {
        char c = fen[i];
        if (c == '/') { y--; x = 0; if (y < 0) return false; }
        else if (c >= '1' && c <= '8') x += c - '0';
        else if (strchr("KQRBNPkqrbnp", c)) { if (!onBoard(x, y)) return false; p.b[SQ(x, y)] = c; x++; }
        else return false;
    }
    auto skip = [&]() { while (i < fen.size() && fen[i] == ' ') i++; };
    skip();
    if (i >= fen.size()) return false;
    p.wtm = fen[i++] == 'w';
    skip();
    for (; i < fen.size() && fen[i] != ' '; i++) {
        switch (fen[i]) {
        case 'K': p.cK = true; break; case 'Q': p.cQ = true; break;
        case 'k': p.ck = true; break; case 'q': p.cq = true; break;
        case '-': break; default: return false;
        }
    }
    if (p.b[4] != 'K' || p.b[7] != 'R') p.cK = false;
    if (p.b[4] != 'K' || p.b[0] != 'R') p.cQ = false;
    if (p.b[60] != 'k' || p.b[63] != 'r') p.ck = false;
    if (p.b[60] != 'k' || p.b[56] != 'r') p.cq = false;
    skip();
    if (i < fen.size()) {
        if (fen[i] != '-') {
            int e = sqFromName(fen, i);
            if (e >= 0) {
                bool ok = p.b[e] == '.' &&
                          (p.wtm ? (Y(e) == 5 && p.b[e - 8] == 'p') : (Y(e) == 2 && p.b[e + 8] == 'P'));
                if (ok) p.ep = e;
            }
        }
        while (i < fen.size() && fen[i] != ' ') i++;
    }
    skip();
    if (i < fen.size()) { p.hmc = atoi(fen.c_str() + i); while (i < fen.size() && fen[i] != ' ') i++; }
    skip();
    if (i < fen.size()) p.fmc = atoi(fen.c_str() + i);
    return true;
}

// A position any chess interface accepts: one king each, no pawns on back ranks,
// the side not to move is not in check.
inline bool sane(const Pos& p) {
    if (p.count('K') != 1 || p.count('k') != 1) return false;
    for (int x = 0; x < 8; x++)
        for (int y = 0; y < 8; y += 7)
            if (lower(p.b[SQ(x, y)]) == 'p') return false;
    if (inCheck(p, !p.wtm)) return false;
    return true;
}

inline Pos startPos() { Pos p; fromFEN("rnbqkbnr/pppppppp/8/8/8/8/PPPPPPPP/RNBQKBNR w KQkq - 0 1", p); return p; }

// ---- SAN (written from the PGN standard, section 8.2.3) ---------------------
inline std::string san(const Pos& p, const Move& m, bool suffix = true) {
    std::string r;
    char pc = lower(p.b[m.from]);
    if (isCastle(p, m)) r = X(m.to) == 6 ? "O-O" : "O-O-O";
    else {
        bool cap = isCapture(p, m);
        if (pc == 'p') {
            if (cap) { r += char('a' + X(m.from)); r += 'x'; }
            r += sqName(m.to);
            if (m.promo) { r += '='; r += upper(m.promo); }
        } else {
            r += upper(pc);
            bool other = false, sameFile = false, sameRank = false;
            for (const Move& o : legalMoves(p)) {
                if (o.to == m.to && o.from != m.from && p.b[o.from] == p.b[m.from]) {
                    other = true;
                    if (X(o.from) == X(m.from)) sameFile = true;
                    if (Y(o.from) == Y(m.from)) sameRank = true;
                }
            }
            if (other) {
                if (!sameFile) r += char('a' + X(m.from));
                else if (!sameRank) r += char('1' + Y(m.from));
                else r += sqName(m.from);
            }
            if (cap) r += 'x';
            r += sqName(m.to);
        }
    }
    if (suffix) {
        Pos n = make(p, m);
        if (inCheck(n, n.wtm)) r += legalMoves(n).empty() ? '#' : '+';
    }
    return r;
}

// Dead position by material only (the cases every interface agrees on):
// K v K, K+minor v K, and K+bishops v K+bishops with all bishops on one colour.
inline bool insufficientMaterial(const Pos& p) {
    int minors = 0; bool other = false; int bl = 0, bd = 0, kn = 0;
    for (int s = 0; s < 64; s++) {
        char c = lower(p.b[s]);
        if (c == '.' || c == 'k') continue;
        if (c == 'n') { kn++; minors++; }
        else if (c == 'b') { minors++; ((X(s) + Y(s)) & 1) ? bl++ : bd++; }
        else other = true;
    }
    if (other) return false;
    if (minors <= 1) return true;
    if (kn == 0 && (bl == 0 || bd == 0)) return true;
    return false;
}

inline uint64_t perft(const Pos& p, int d) {
    if (d == 0) return 1;
    uint64_t n = 0;
    for (const Move& m : legalMoves(p)) n += d == 1 ? 1 : perft(make(p, m), d - 1);
    return n;
}

// ---- mate solver -------------------------------------------------------------
// canMateIn(p, n, budget): can the side to move force mate within n of its own
// moves?  Exhaustive AND/OR search, checking moves first.  budget counts nodes;
// when it runs out the answer is "unknown" (returns -1).  1 = yes, 0 = no.
inline int canMateIn(const Pos& p, int n, long& budget);
inline int defends(const Pos& p, int n, long& budget) { // side to move is the defender; 1 = attacker still mates for every defence
    std::vector<Move> lm = legalMoves(p);
    if (lm.empty()) return inCheck(p) ? 1 : 0;
    if (n == 0) return 0;
    for (const Move& m : lm) {
        if (--budget < 0) return -1;
        int r = canMateIn(make(p, m), n, budget);
        if (r != 1) return r;
    }
    return 1;
}
inline int canMateIn(const Pos& p, int n, long& budget) {
    if (n <= 0) return 0;
    std::vector<Move> lm = legalMoves(p);
    if (p.hmc >= 100) {} // 50-move claims are not automatic; ignored here (callers keep hmc small)
    std::stable_sort(lm.begin(), lm.end(), [&](const Move& a, const Move& b) { return givesCheck(p, a) > givesCheck(p, b); });
    bool unknown = false;
    for (const Move& m : lm) {
        if (--budget < 0) return -1;
        Pos c = make(p, m);
        if (n == 1 && !inCheck(c, c.wtm)) continue;
        int r = defends(c, n - 1, budget);
        if (r == 1) return 1;
        if (r < 0) unknown = true;
    }
    return unknown ? -1 : 0;
}

} // namespace ref
