// C07 libFuzzer target: symmetry of the static evaluation on small material.
// The hand-written end-game rules (EndGameEval) are full of geometric special cases that a
// uniform position generator reaches a few times per million cases; coverage guidance walks
// into them.  Input format (structure-aware decode, every byte string decodes to something):
//   byte 0        bit 0 = white to move, bits 1..7 = half-move clock (clamped to 100)
//   byte 1, 2     squares of the white and the black king (& 63)
//   then up to 7 pairs (kind, square): kind % 10 = Q R B N P q r b n p, square & 63; a man
//   that would land on an occupied square, or a pawn on a back rank, is dropped.
// Positions that are not legal (kings adjacent, side not to move in check) are rejected.
// Oracle (contempt 0, no castling rights, no e.p. square):
//   eval(P) == eval(flip colours(P)) == eval(mirror left-right(P)) == eval(flip(mirror(P)))
// where eval is Evaluate::evalPos (score from the side to move's point of view).
#include "harness/c17_fuzz.hpp"
#include "common/tx.hpp"
#include "evaluate.hpp"
#include "endGameEval.hpp"
#include "computerPlayer.hpp"
#include "parameters.hpp"
#include <memory>

extern unsigned gNNDataSize;
extern unsigned char gNNDataData[];

namespace {

char swapCase(char c) { return ref::isWhite(c) ? ref::lower(c) : ref::isBlack(c) ? ref::upper(c) : c; }
ref::Pos flipColors(const ref::Pos& p) {
    ref::Pos q;
    for (int s = 0; s < 64; s++) q.b[ref::SQ(ref::X(s), 7 - ref::Y(s))] = swapCase(p.b[s]);
    q.wtm = !p.wtm;
    q.hmc = p.hmc; q.fmc = p.fmc;
    return q;
}
ref::Pos mirrorLR(const ref::Pos& p) {
    ref::Pos q;
    for (int s = 0; s < 64; s++) q.b[ref::SQ(7 - ref::X(s), ref::Y(s))] = p.b[s];
    q.wtm = p.wtm;
    q.hmc = p.hmc; q.fmc = p.fmc;
    return q;
}

struct Ev {
    std::unique_ptr<Evaluate::EvalHashTables> et;
    std::unique_ptr<Evaluate> ev;
    std::unique_ptr<Position> scratch;
    Ev() : et(Evaluate::getEvalHashTables()), ev(new Evaluate(*et)), scratch(new Position()) { ev->connectPosition(*scratch); ev->setWhiteContempt(0); }
    int value(const Position& p) { *scratch = p; return ev->evalPos(); }
};
Ev& evaluator() { static Ev* e = new Ev(); return *e; }

std::string label(const ref::Pos& p) {
    static const char order[5] = {'q', 'r', 'b', 'n', 'p'};
    std::string w = "K", b = "K";
    for (char c : order) { for (int i = 0; i < p.count(ref::upper(c)); i++) w += ref::upper(c); for (int i = 0; i < p.count(c); i++) b += ref::upper(c); }
    return w < b ? b + "-" + w : w + "-" + b;
}

} // namespace

extern "C" int LLVMFuzzerInitialize(int* argc, char*** argv) {
    fz::rewriteArgs(argc, argv);
    ComputerPlayer::initEngine();
    if (gNNDataSize == 0) {
        char exe[4096];
        ssize_t k = readlink("/proc/self/exe", exe, sizeof exe - 1);
        std::string fn;
        if (k > 0) { exe[k] = 0; fn = exe; for (int i = 0; i < 3; i++) fn = fn.substr(0, fn.rfind('/')); fn += "/nets/material-1.net"; }
        FILE* f = fn.empty() ? nullptr : fopen(fn.c_str(), "rb");
        if (f) { gNNDataSize = (unsigned)fread(gNNDataData, 1, 24u << 20, f); fclose(f); }
        if (gNNDataSize == 0) { fprintf(stderr, "c07_egsym: no network (set TEXEL_VERIF_NET)\n"); _exit(3); }
    }
    evaluator();
    fz::runPendingReplay();
    return 0;
}

extern "C" int LLVMFuzzerTestOneInput(const uint8_t* data, size_t size) {
    fz::tick();
    if (size < 3 || size > 3 + 2 * 7) { fz::rejected(); return 0; }
    ref::Pos p;
    p.wtm = data[0] & 1;
    p.hmc = std::min(100, data[0] >> 1);
    p.fmc = 1 + p.hmc / 2;
    int wk = data[1] & 63, bk = data[2] & 63;
    if (wk == bk) { fz::rejected(); return 0; }
    p.b[wk] = 'K'; p.b[bk] = 'k';
    static const char kinds[10] = {'Q', 'R', 'B', 'N', 'P', 'q', 'r', 'b', 'n', 'p'};
    for (size_t i = 3; i + 1 < size; i += 2) {
        char pc = kinds[data[i] % 10];
        int sq = data[i + 1] & 63;
        if (p.b[sq] != '.') continue;
        if (ref::lower(pc) == 'p' && (ref::Y(sq) == 0 || ref::Y(sq) == 7)) continue;
        p.b[sq] = pc;
    }
    if (!ref::sane(p)) { fz::rejected(); return 0; }
    fz::accepted(data, size);
    Ev& e = evaluator();
    Position tp = tx::toTexel(p);
    const bool eg = EndGameEval::endGameEval<false>(tp, 0) != 0;
    int a = e.value(tp);
    ref::Pos fp = flipColors(p), mp = mirrorLR(p), fmp = flipColors(mp);
    int b = e.value(tx::toTexel(fp)), m = e.value(tx::toTexel(mp)), fm = e.value(tx::toTexel(fmp));
    if (a != b) fz::oracleFail("eval(P) = " + std::to_string(a) + " but eval(flip(P)) = " + std::to_string(b) + "  [P = " + ref::toFEN(p) + ", flip(P) = " + ref::toFEN(fp) + "]", data, size);
    if (a != m) fz::oracleFail("eval(P) = " + std::to_string(a) + " but eval(mirrorLR(P)) = " + std::to_string(m) + "  [P = " + ref::toFEN(p) + ", mirrorLR(P) = " + ref::toFEN(mp) + "]", data, size);
    if (a != fm) fz::oracleFail("eval(P) = " + std::to_string(a) + " but eval(flip(mirrorLR(P))) = " + std::to_string(fm) + "  [P = " + ref::toFEN(p) + ", image = " + ref::toFEN(fmp) + "]", data, size);
    if (eg) {
        fz::cls("symmetry on end-game-rule material");
        if (p.men() <= 5) fz::cls("eg:" + label(p), data, size);
    } else fz::cls("symmetry on ordinary small material");
    return 0;
}
