// C17 libFuzzer target: TextIO::readFEN on arbitrary bytes.
// Oracle (no state between iterations):
//  * the only exception type is ChessParseError (anything else is "suspect" => trap);
//  * accept/reject decision and the resulting position equal an independent
//    model of the FEN grammar (fenModel below, built on refchess);
//  * accepted => toFEN/readFEN fix-point, equal Position, and every redundant
//    attribute (hash keys, pawn hash, material id and sums, bitboards, king
//    squares) equals its from-scratch value.
#include "harness/c17_fuzz.hpp"
#include "common/tx.hpp"
#include "computerPlayer.hpp"
#include "parameters.hpp"
#include <cerrno>
#include <climits>

namespace {

bool parseInt(const std::string& tok, int& out) { // what std::stoi accepts
    const char* s = tok.c_str();
    char* end = nullptr;
    errno = 0;
    long v = strtol(s, &end, 10);
    if (end == s) return false;
    if (errno == ERANGE || v < INT_MIN || v > INT_MAX) return false;
    out = (int)v;
    return true;
}

// Independent reading of the FEN dialect texel documents/tests: six fields of which
// only placement and side are mandatory, trailing garbage allowed, an e.p. field
// that is not a square is ignored, an e.p. square that cannot be one is dropped.
bool fenModel(const std::string& fen, ref::Pos& p, std::string& why) {
    p = ref::Pos();
    size_t i = 0, n = fen.size();
    int x = 0, y = 7;
    for (; i < n && fen[i] != ' '; i++) {
        char c = fen[i];
        if (c >= '1' && c <= '8') { x += c - '0'; continue; }
        if (c == '/') { y--; x = 0; if (y < 0) { why = "rows"; return false; } continue; }
        if (!c || !strchr("PNBRQKpnbrqk", c)) { why = "piece"; return false; }
        if (x > 7) { why = "columns"; return false; }
        if ((c == 'P' || c == 'p') && (y == 0 || y == 7)) { why = "pawn rank"; return false; }
        p.b[ref::SQ(x, y)] = c;
        x++;
    }
    auto skip = [&]() { while (i < n && fen[i] == ' ') i++; };
    skip();
    if (i >= n) { why = "side"; return false; }
    p.wtm = fen[i++] == 'w';
    skip();
    bool K = false, Q = false, k = false, q = false;
    for (; i < n && fen[i] != ' '; i++) {
        switch (fen[i]) {
        case 'K': K = true; break; case 'Q': Q = true; break;
        case 'k': k = true; break; case 'q': q = true; break;
        case '-': break;
        default: why = "castling"; return false;
        }
    }
    p.cK = K && p.b[4] == 'K' && p.b[7] == 'R';
    p.cQ = Q && p.b[4] == 'K' && p.b[0] == 'R';
    p.ck = k && p.b[60] == 'k' && p.b[63] == 'r';
    p.cq = q && p.b[60] == 'k' && p.b[56] == 'r';
    skip();
    if (i < n) {
        if (fen[i] != '-') {
            if (i + 1 >= n) { why = "ep"; return false; }
            int fx = fen[i] - 'a', fy = fen[i + 1] - '1';
            if (fx >= 0 && fx < 8 && fy >= 0 && fy < 8) {
                int e = ref::SQ(fx, fy);
                bool ok = p.b[e] == '.' && (p.wtm ? (fy == 5 && p.b[e - 8] == 'p') : (fy == 2 && p.b[e + 8] == 'P'));
                if (ok) p.ep = e;
            }
        }
        while (i < n && fen[i] != ' ') i++;
    }
    skip();
    p.hmc = 0; p.fmc = 1;
    if (i < n) { size_t i0 = i; while (i < n && fen[i] != ' ') i++; int v; if (parseInt(fen.substr(i0, i - i0), v)) p.hmc = v; }
    skip();
    if (i < n) { size_t i0 = i; while (i < n && fen[i] != ' ') i++; int v; if (parseInt(fen.substr(i0, i - i0), v)) p.fmc = v; }
    if (p.count('K') != 1) { why = "white king"; return false; }
    if (p.count('k') != 1) { why = "black king"; return false; }
    if (ref::inCheck(p, !p.wtm)) { why = "king capture"; return false; }
    if (p.ep >= 0) { ref::Pos q = p; q.hmc = 0; q.fmc = 1; if (!ref::legalEp(q)) p.ep = -1; } // (refchess's own counters must not overflow)
    return true;
}

std::string scratchInvariants(const Position& pos) {
    Position c(pos);
    U64 h = pos.zobristHash(), ph = pos.pawnZobristHash();
    int mid = pos.materialId();
    c.computeZobristHash();
    if (c.zobristHash() != h) return "hash key differs from the from-scratch value";
    if (c.pawnZobristHash() != ph) return "pawn hash key differs from the from-scratch value";
    if (c.materialId() != mid) return "material id differs from the from-scratch value";
    U64 bb[Piece::nPieceTypes] = {0}, w = 0, b = 0;
    int wM = -::pieceValue[Piece::WKING], bM = -::pieceValue[Piece::BKING], wP = 0, bP = 0; // sums exclude the king
    for (int s = 0; s < 64; s++) {
        int p = pos.getPiece(Square(s));
        if (p < 0 || p >= Piece::nPieceTypes) return "piece code out of range";
        bb[p] |= 1ULL << s;
        if (p == Piece::EMPTY) continue;
        if (Piece::isWhite(p)) { w |= 1ULL << s; wM += ::pieceValue[p]; if (p == Piece::WPAWN) wP += ::pieceValue[p]; }
        else { b |= 1ULL << s; bM += ::pieceValue[p]; if (p == Piece::BPAWN) bP += ::pieceValue[p]; }
    }
    for (int p = Piece::WKING; p < Piece::nPieceTypes; p++)
        if (pos.pieceTypeBB((Piece::Type)p) != bb[p]) return "piece bitboard " + std::to_string(p) + " differs from the board";
    if (pos.whiteBB() != w || pos.blackBB() != b) return "colour bitboards differ from the board";
    if (pos.occupiedBB() != (w | b)) return "occupied bitboard";
    if (pos.wMtrl() != wM || pos.bMtrl() != bM) return "material sums: " + std::to_string(pos.wMtrl()) + "/" + std::to_string(pos.bMtrl()) + " vs " + std::to_string(wM) + "/" + std::to_string(bM);
    if (pos.wMtrlPawns() != wP || pos.bMtrlPawns() != bP) return "pawn material sums";
    if (pos.getPiece(pos.wKingSq()) != Piece::WKING || pos.getPiece(pos.bKingSq()) != Piece::BKING) return "king squares";
    if (pos.getKingSq(true) != pos.wKingSq() || pos.getKingSq(false) != pos.bKingSq()) return "getKingSq";
    int n = 0;
    for (int s = 0; s < 64; s++) n += pos.getPiece(Square(s)) != Piece::EMPTY;
    if (pos.nPieces() != n) return "nPieces";
    // the compact form keeps 8 bits of the half-move clock and 16 bits of the move number
    if (pos.getHalfMoveClock() >= 0 && pos.getHalfMoveClock() <= 255 && pos.getFullMoveCounter() >= 0 && pos.getFullMoveCounter() <= 65535) {
        Position::SerializeData sd;
        pos.serialize(sd);
        Position d;
        d.deSerialize(sd);
        if (!(d == pos)) return "serialize/deSerialize does not reproduce the position";
    }
    return "";
}

} // namespace

extern "C" int LLVMFuzzerInitialize(int* argc, char*** argv) {
    fz::rewriteArgs(argc, argv);
    ComputerPlayer::initEngine(); // what texel's main() does first (piece values, TB listeners)
    fz::runPendingReplay();
    return 0;
}

extern "C" int LLVMFuzzerTestOneInput(const uint8_t* data, size_t size) {
    fz::tick();
    if (size > 4096) return 0;
    std::string fen((const char*)data, size);
    ref::Pos model;
    std::string why;
    bool expect = fenModel(fen, model, why);
    bool got = false;
    Position pos;
    try {
        pos = TextIO::readFEN(fen);
        got = true;
    } catch (const ChessParseError&) {
    } catch (const std::exception& e) {
        fz::oracleFail(std::string("readFEN threw an undocumented exception type: ") + e.what(), data, size);
    } catch (...) {
        fz::oracleFail("readFEN threw an undocumented exception type", data, size);
    }
    if (got != expect)
        fz::oracleFail(got ? "readFEN accepts a string the FEN grammar rejects (" + why + ")"
                           : std::string("readFEN rejects a string the FEN grammar accepts"), data, size);
    if (!got) { fz::rejected(); fz::cls("rejected: " + why); return 0; }
    fz::accepted(data, size);
    if (!fz::clocksSane(model.hmc, model.fmc)) { // absurd counters: a reader may keep, ignore or clamp them
        fz::cls("accepted: absurd move counters (not compared)", data, size);
        model.hmc = pos.getHalfMoveClock(); model.fmc = pos.getFullMoveCounter();
    }
    std::string d = tx::diff(pos, model, 0);
    if (!d.empty()) fz::oracleFail("readFEN result differs from the model: " + d, data, size);
    std::string inv = scratchInvariants(pos);
    if (!inv.empty()) fz::oracleFail("accepted position violates an invariant: " + inv, data, size);
    std::string f1 = TextIO::toFEN(pos);
    if (f1 != ref::toFEN(model)) fz::oracleFail("toFEN writes '" + f1 + "', expected '" + ref::toFEN(model) + "'", data, size);
    Position p2;
    try {
        p2 = TextIO::readFEN(f1);
    } catch (...) {
        fz::oracleFail("readFEN rejects toFEN's own output '" + f1 + "'", data, size);
    }
    if (!(p2 == pos)) fz::oracleFail("readFEN(toFEN(pos)) != pos for '" + f1 + "'", data, size);
    if (TextIO::toFEN(p2) != f1) fz::oracleFail("toFEN/readFEN is not a fix-point for '" + f1 + "'", data, size);
    // classes
    fz::cls("accepted", data, size);
    if (model.ep >= 0) fz::cls("accepted: legal e.p. square kept", data, size);
    if (fz::plausibleMaterial(model)) fz::cls("accepted: material legal play can produce", data, size);
    if (model.cK || model.cQ || model.ck || model.cq) fz::cls("accepted: castling rights", data, size);
    if (model.hmc != 0 || model.fmc != 1) fz::cls("accepted: move counters given", data, size);
    if (model.hmc < 0 || model.fmc < 1) fz::cls("accepted: negative/zero move counter", data, size);
    return 0;
}
