// VERIF-TARGET: app
// C17 libFuzzer target: UCI command lines through the real UCIProtocol, in
// process, with std::cin/std::cout redirected to memory (UCIProtocol::main).
//
// Scope (DESIGN.md §3 C17): tokenizer, dispatcher, option name/value parsing and
// `position` parsing see arbitrary bytes.  Rewrites applied to the fuzzed text
// before it reaches texel (all counted):
//  * `go ...` becomes `go depth 1|2 [searchmoves ...]` and is forwarded only
//    while the last `position` texel accepted replays legally in refchess from a
//    position with material legal play can produce (UCI makes the GUI
//    responsible for legal move lists; texel does not re-validate them);
//  * resource guards: Hash > 64 -> 64, Threads > 8 -> 8, GaviotaTbCache > 16 -> 16,
//    0 < MaxNPS < 10000 -> 10000 (a throttled search sleeps), path-valued options
//    (BookFile, GaviotaTbPath, SyzygyPath, ContemptFile) point below a
//    non-existent directory;
//  * with C17_UCI_NO_EARLY_PONDERHIT=1 a `ponderhit` that arrives before any
//    command that creates the engine is dropped (defect D2, fixed in /repo
//    since; the switch is off by default).
// Oracle: no crash/sanitizer report/uncaught exception (std::terminate), the
// session ends (EOF => engine stops), every forwarded `go` gets one `bestmove`
// whose move is legal per refchess in the position of that `go` (or 0000).
// Every UCI parameter is put back to its default before each input (Hash: 1 MB).
#include "harness/c17_fuzz.hpp"
#include "common/tx.hpp"
#include "computerPlayer.hpp"
#include "uciprotocol.hpp"
#include "parameters.hpp"
#include <iostream>
#include <sstream>

extern "C" {
extern unsigned char gNNDataData[];
extern unsigned int gNNDataSize;
}

namespace {

bool noEarlyPonderhit = false;

std::vector<std::string> split(const std::string& s) {
    std::vector<std::string> t;
    std::string w;
    for (char c : s) {
        if (isspace((unsigned char)c)) { if (!w.empty()) { t.push_back(w); w.clear(); } }
        else w += c;
    }
    if (!w.empty()) t.push_back(w);
    return t;
}
std::string lower(std::string s) { for (auto& c : s) c = (char)tolower((unsigned char)c); return s; }

bool stoiOk(const std::string& s, int& v) { try { v = std::stoi(s); return true; } catch (...) { return false; } }

void resetParams() {
    Parameters& P = Parameters::instance();
    std::vector<std::string> names;
    P.getParamNames(names);
    for (auto& n : names) {
        std::shared_ptr<Parameters::ParamBase> p = P.getParam(n);
        if (!p) continue;
        switch (p->getType()) {
        case Parameters::CHECK: {
            auto c = std::dynamic_pointer_cast<Parameters::CheckParam>(p);
            if (c && c->getBoolPar() != c->getDefaultValue()) c->set(c->getDefaultValue() ? "true" : "false");
            break;
        }
        case Parameters::SPIN: {
            auto c = std::dynamic_pointer_cast<Parameters::SpinParam>(p);
            int def = c ? c->getDefaultValue() : 0;
            if (c && lower(n) == "hash") def = 1;
            if (c && c->getIntPar() != def) c->set(std::to_string(def));
            break;
        }
        case Parameters::COMBO: {
            auto c = std::dynamic_pointer_cast<Parameters::ComboParam>(p);
            if (c && c->getStringPar() != c->getDefaultValue()) c->set(c->getDefaultValue());
            break;
        }
        case Parameters::STRING: {
            auto c = std::dynamic_pointer_cast<Parameters::StringParam>(p);
            if (c && c->getStringPar() != c->getDefaultValue()) c->set(c->getDefaultValue());
            break;
        }
        default: break;
        }
    }
}

struct Model {
    ref::Pos pos = ref::startPos(); // position after the move list
    bool legal = true;              // move list replays legally and material is plausible
};

// What texel will hold after this `position` line (same parse as handleCommand).
void modelPosition(const std::vector<std::string>& tok, Model& m) {
    size_t n = tok.size(), idx = 1;
    if (n < 2) return;
    std::string fen;
    if (tok[idx] == "startpos") { idx++; fen = TextIO::startPosFEN; }
    else if (tok[idx] == "fen") {
        idx++;
        while (idx < n && tok[idx] != "moves") { if (!fen.empty()) fen += ' '; fen += tok[idx++]; }
    }
    if (fen.empty()) return;
    Position p;
    try { p = TextIO::readFEN(fen); } catch (const ChessParseError&) { return; }
    ref::Pos r;
    m.legal = ref::fromFEN(TextIO::toFEN(p), r) && fz::plausibleMaterial(r);
    if (fz::excludeClocks() && !fz::clocksSane(p.getHalfMoveClock(), p.getFullMoveCounter())) m.legal = false;
    r.hmc = 0; r.fmc = 1; // only legality is asked of refchess here
    if (idx < n && tok[idx++] == "moves") {
        for (size_t i = idx; i < n; i++) {
            Move mv = TextIO::uciStringToMove(tok[i]);
            if (mv.isEmpty()) break;
            if (m.legal) {
                ref::Move rm = tx::toRef(mv);
                if (ref::isLegal(r, rm)) r = ref::make(r, rm);
                else m.legal = false;
            }
        }
    }
    m.pos = r;
}

const char* pathOptions[] = {"bookfile", "gaviotatbpath", "syzygypath", "contemptfile"};

// returns the line to forward ("" = drop)
std::string rewriteSetoption(const std::vector<std::string>& tok, const std::string& line) {
    size_t n = tok.size();
    if (n < 3 || tok[1] != "name") return line;
    size_t idx = 2;
    std::string name;
    while (idx < n && tok[idx] != "value") { if (!name.empty()) name += ' '; name += lower(tok[idx++]); }
    if (idx >= n) return line;
    idx++;
    std::string value;
    while (idx < n) { if (!value.empty()) value += ' '; value += tok[idx++]; }
    std::string nv = value;
    int v;
    auto clip = [&](int lo, int hi, int to) { if (stoiOk(value, v) && v >= lo && v <= hi) nv = std::to_string(to); };
    if (name == "hash") clip(65, INT32_MAX, 64);
    else if (name == "threads") clip(9, INT32_MAX, 8);
    else if (name == "gaviotatbcache") clip(17, INT32_MAX, 16);
    else if (name == "maxnps") clip(1, 9999, 10000);
    else for (const char* po : pathOptions) if (name == po && !value.empty() && value != "<empty>") {
        std::string s;
        for (char c : value) if (isalnum((unsigned char)c)) s += c;
        nv = "/nonexistent-verif-dir/" + s.substr(0, 32);
    }
    if (nv == value) return line;
    fz::cls("setoption value rewritten (resource guard)");
    std::string out = "setoption name";
    for (size_t i = 2; i < n && tok[i] != "value"; i++) out += " " + tok[i];
    return out + " value " + nv;
}

} // namespace

extern "C" int LLVMFuzzerInitialize(int* argc, char*** argv) {
    fz::rewriteArgs(argc, argv);
    ComputerPlayer::initEngine(); // what texel's main() does first (piece values, TB listeners)
    const char* sw = getenv("C17_UCI_NO_EARLY_PONDERHIT");
    noEarlyPonderhit = sw && *sw && strcmp(sw, "0");
    if (gNNDataSize == 0) {
        // TEXEL_VERIF_NET not set: fall back to <build>/nets/material-1.net next to this binary
        char exe[4096];
        ssize_t k = readlink("/proc/self/exe", exe, sizeof exe - 1);
        std::string fn;
        if (k > 0) { exe[k] = 0; fn = exe; for (int i = 0; i < 3; i++) fn = fn.substr(0, fn.rfind('/')); fn += "/nets/material-1.net"; }
        FILE* f = fn.empty() ? nullptr : fopen(fn.c_str(), "rb");
        if (f) { gNNDataSize = (unsigned)fread(gNNDataData, 1, 24u << 20, f); fclose(f); }
        if (gNNDataSize == 0) { fprintf(stderr, "c17_uci: no network (set TEXEL_VERIF_NET)\n"); _exit(3); }
    }
    fz::runPendingReplay();
    return 0;
}

extern "C" int LLVMFuzzerTestOneInput(const uint8_t* data, size_t size) {
    fz::tick();
    if (size > 4096) return 0;
    resetParams();
    std::string in((const char*)data, size);
    std::string script;
    Model model;
    std::vector<ref::Pos> goPos;
    bool engineMade = false, sawPosition = false, sawSetoption = false, sawOther = false;
    size_t wantReadyok = 0, wantUciok = 0;
    size_t start = 0;
    int lines = 0;
    while (start <= in.size() && lines < 400) {
        size_t nl = in.find('\n', start);
        std::string line = in.substr(start, nl == std::string::npos ? std::string::npos : nl - start);
        start = nl == std::string::npos ? in.size() + 1 : nl + 1;
        lines++;
        std::vector<std::string> tok = split(line);
        if (tok.empty()) { script += line + "\n"; continue; }
        const std::string& cmd = tok[0];
        if (cmd == "go") {
            if (!model.legal) { fz::cls("go dropped: position/move list not legal per refchess"); continue; }
            std::string g = std::string("go depth ") + ((fz::fnv((const uint8_t*)line.data(), line.size()) & 1) ? "2" : "1");
            for (size_t i = 1; i < tok.size(); i++)
                if (tok[i] == "searchmoves") {
                    g += " searchmoves";
                    for (size_t j = i + 1; j < tok.size() && !TextIO::uciStringToMove(tok[j]).isEmpty(); j++) g += " " + tok[j];
                    break;
                }
            script += g + "\n";
            goPos.push_back(model.pos);
            engineMade = true;
            continue;
        }
        if (cmd == "position") { modelPosition(tok, model); sawPosition = true; script += line + "\n"; continue; }
        if (cmd == "setoption") { script += rewriteSetoption(tok, line) + "\n"; engineMade = true; sawSetoption = true; continue; }
        if (cmd == "isready") { engineMade = true; wantReadyok++; }
        if (cmd == "uci") wantUciok++;
        if (cmd == "ponderhit" && noEarlyPonderhit && !engineMade) { fz::cls("early ponderhit dropped (switch)"); continue; }
        if (cmd != "uci" && cmd != "isready" && cmd != "ucinewgame" && cmd != "stop" && cmd != "ponderhit" && cmd != "quit") sawOther = true;
        script += line + "\n";
        if (cmd == "quit") break;
    }
    // run the session
    std::istringstream iss(script);
    std::ostringstream oss;
    std::streambuf* oldIn = std::cin.rdbuf(iss.rdbuf());
    std::streambuf* oldOut = std::cout.rdbuf(oss.rdbuf());
    std::cin.clear();
    UCIProtocol::main(false);
    std::cin.rdbuf(oldIn);
    std::cout.rdbuf(oldOut);
    std::cin.clear();
    // judge the output
    std::vector<std::string> best;
    size_t gotReadyok = 0, gotUciok = 0;
    {
        std::istringstream os(oss.str());
        std::string l;
        while (std::getline(os, l)) {
            std::vector<std::string> t = split(l);
            if (!t.empty() && t[0] == "bestmove") best.push_back(t.size() > 1 ? t[1] : "");
            if (l == "readyok") gotReadyok++;
            if (l == "uciok") gotUciok++;
        }
    }
    // the tokenizer splits at white space: every line whose first word is isready/uci is answered once
    if (gotReadyok != wantReadyok)
        fz::oracleFail(std::to_string(wantReadyok) + " isready line(s) but " + std::to_string(gotReadyok) + " readyok; script:\n" + script, data, size);
    if (gotUciok != wantUciok)
        fz::oracleFail(std::to_string(wantUciok) + " uci line(s) but " + std::to_string(gotUciok) + " uciok; script:\n" + script, data, size);
    if (best.size() != goPos.size()) {
        fz::oracleFail("forwarded " + std::to_string(goPos.size()) + " go command(s) but saw " + std::to_string(best.size()) + " bestmove line(s); script:\n" + script, data, size);
    }
    for (size_t i = 0; i < best.size(); i++) {
        if (best[i] == "0000") { fz::cls("bestmove 0000"); continue; }
        ref::Move m = ref::Move::fromUci(best[i]);
        if (!m.valid() || !ref::isLegal(goPos[i], m))
            fz::oracleFail("bestmove " + best[i] + " is illegal in " + ref::toFEN(goPos[i]) + "; script:\n" + script, data, size);
    }
    bool nt = !goPos.empty() || sawPosition || sawSetoption || engineMade;
    if (nt) {
        fz::accepted(data, size);
        if (!goPos.empty()) fz::cls("session with a search", data, size);
        if (sawPosition) fz::cls("session with position", data, size);
        if (sawSetoption) fz::cls("session with setoption", data, size);
        if (sawOther) fz::cls("session with unknown words", data, size);
    } else {
        fz::rejected();
        fz::cls("rejected: nothing dispatched beyond uci/stop/quit/unknown");
    }
    return 0;
}
