// C18 libFuzzer target: arbitrary bytes offered as a polyglot book file.
// Input: byte 0 selects the probe position (table in harness/c18_common.hpp),
// byte 1 is reserved, the rest is the file content.  Oracle: Book::getBookMove
// (three draws) never throws, leaves the position unchanged and returns the empty
// move or a move legal per refchess.  "Accepted" = a move was returned.
#include "harness/c17_fuzz.hpp"
#include "harness/c18_common.hpp"
#include "common/tx.hpp"
#include "book.hpp"
#include "parameters.hpp"
#include "computerPlayer.hpp"
#include "verifhook.hpp"

namespace {
long long fakeClock() { return 1234567890123LL; }
struct Probe { Position pos; ref::Pos r; std::set<ref::Move> legal; };
std::vector<Probe>& probes() {
    static std::vector<Probe> v = [] {
        std::vector<Probe> t;
        for (auto& f : pg::fuzzPositions()) {
            Probe p; p.pos = TextIO::readFEN(f); ref::fromFEN(f, p.r);
            for (auto& m : ref::legalMoves(p.r)) p.legal.insert(m);
            t.push_back(p);
        }
        return t;
    }();
    return v;
}
}

extern "C" int LLVMFuzzerInitialize(int* argc, char*** argv) {
    fz::rewriteArgs(argc, argv);
    ComputerPlayer::initEngine();
    verif::clockNanosHook = fakeClock;
    fz::runPendingReplay();
    return 0;
}

extern "C" int LLVMFuzzerTestOneInput(const uint8_t* data, size_t size) {
    fz::tick();
    if (size < 2 || size > 4098) { fz::rejected(); return 0; }
    const Probe& p = probes()[data[0] % probes().size()];
    static const std::string path = pg::scratch() + "/fuzz.bin";
    pg::writeFile(path, std::string((const char*)data + 2, size - 2));
    UciParams::bookFile->set(path);
    Book book(false);
    bool any = false;
    for (int d = 0; d < 3; d++) {
        Position work(p.pos);
        Move m;
        try {
            book.getBookMove(work, m);
        } catch (...) {
            fz::oracleFail("getBookMove threw", data, size);
        }
        if (!(work == p.pos)) fz::oracleFail("getBookMove modified the position", data, size);
        if (m.isEmpty()) continue;
        if (!p.legal.count(tx::toRef(m))) fz::oracleFail("book move " + tx::toRef(m).uci() + " is illegal in " + ref::toFEN(p.r), data, size);
        any = true;
    }
    UciParams::bookFile->set("");
    if (any) { fz::accepted(data, size); fz::cls("book move returned", data, size); }
    else { fz::rejected(); fz::cls((size - 2) % 16 ? "no move; file length not a multiple of 16" : "no move; whole entries"); }
    return 0;
}
