// C17 libFuzzer target: TextIO::stringToMove / uciStringToMove on a fuzzed
// position + move string.  Input layout: "<FEN>\n<move text>".
// Oracle: no exception from the move parsers; stringToMove leaves the position
// unchanged; a returned move is legal per refchess, and its own short and long
// text forms parse back to it; a string uciStringToMove accepts is exactly the
// canonical UCI form of the returned move.
#include "harness/c17_fuzz.hpp"
#include "common/tx.hpp"
#include "computerPlayer.hpp"

extern "C" int LLVMFuzzerInitialize(int* argc, char*** argv) {
    fz::rewriteArgs(argc, argv);
    ComputerPlayer::initEngine(); // what texel's main() does first (piece values, TB listeners)
    fz::runPendingReplay();
    return 0;
}

extern "C" int LLVMFuzzerTestOneInput(const uint8_t* data, size_t size) {
    fz::tick();
    if (size > 4096) return 0;
    std::string in((const char*)data, size);
    size_t nl = in.find('\n');
    if (nl == std::string::npos) { fz::rejected(); fz::cls("rejected: no move line"); return 0; }
    std::string fen = in.substr(0, nl), mv = in.substr(nl + 1);
    Position pos;
    try {
        pos = TextIO::readFEN(fen);
    } catch (const ChessParseError&) {
        fz::rejected(); fz::cls("rejected: FEN");
        return 0;
    }
    if (fz::excludeClocks() && !fz::clocksSane(pos.getHalfMoveClock(), pos.getFullMoveCounter())) { fz::rejected(); fz::cls("excluded: absurd move counters (switch)"); return 0; }
    ref::Pos r;
    std::string f1 = TextIO::toFEN(pos);
    if (!ref::fromFEN(f1, r)) fz::oracleFail("toFEN output is not a FEN: " + f1, data, size);
    r.hmc = 0; r.fmc = 1; // only legality is asked of refchess here
    // UCI form (position independent)
    bool any = false;
    {
        Move u;
        try {
            u = TextIO::uciStringToMove(mv);
        } catch (...) {
            fz::oracleFail("uciStringToMove threw", data, size);
        }
        if (!u.isEmpty()) {
            any = true;
            std::string back = TextIO::moveToUCIString(u);
            // (a fifth character ' ' is read as "no promotion": a harmless leniency, not reachable through the UCI tokenizer)
            bool blank5 = mv.size() == 5 && mv[4] == ' ' && back == mv.substr(0, 4);
            if (blank5) fz::cls("accepted: UCI text with a blank fifth character", data, size);
            if (back != mv && !blank5) fz::oracleFail("uciStringToMove accepts '" + fz::printable((const uint8_t*)mv.data(), mv.size()) + "' which is not the canonical form '" + back + "' of the move it returns", data, size);
            if (!u.from().isValid() || !u.to().isValid()) fz::oracleFail("uciStringToMove returns a move with an invalid square", data, size);
            if (ref::isLegal(r, tx::toRef(u))) fz::cls("accepted: UCI text of a legal move", data, size);
            else fz::cls("accepted: UCI syntax only", data, size);
        }
    }
    // SAN / LAN / free form
    Position before(pos);
    Move m;
    try {
        m = TextIO::stringToMove(pos, mv);
    } catch (...) {
        fz::oracleFail("stringToMove threw", data, size);
    }
    if (!(pos == before)) fz::oracleFail("stringToMove modified the position", data, size);
    if (!m.isEmpty()) {
        any = true;
        ref::Move rm = tx::toRef(m);
        if (!ref::isLegal(r, rm)) fz::oracleFail("stringToMove returns " + rm.uci() + ", illegal in " + f1, data, size);
        std::string s = TextIO::moveToString(pos, m, false), l = TextIO::moveToString(pos, m, true);
        Move bs = TextIO::stringToMove(pos, s), bl = TextIO::stringToMove(pos, l);
        if (!(bs == m)) fz::oracleFail("short form '" + s + "' of " + rm.uci() + " does not parse back in " + f1, data, size);
        if (!(bl == m)) fz::oracleFail("long form '" + l + "' of " + rm.uci() + " does not parse back in " + f1, data, size);
        fz::cls("accepted: stringToMove found a move", data, size);
        if (mv != s && mv != l) fz::cls("accepted: non-canonical move text", data, size);
    }
    if (any) fz::accepted(data, size);
    else { fz::rejected(); fz::cls("rejected: move text"); }
    return 0;
}
