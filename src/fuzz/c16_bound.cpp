// C16 libFuzzer target: the proof-game distance bound along legal games.
// Input: one byte per ply of a game from the initial position: byte % (number of legal moves) indexes
// refchess' legal-move list, filtered so that at most 6 captures are made (>= 26 men remain: the domain
// the property states).  At most 150 plies.  Oracle, for the final position F as goal and every prefix
// position P_i of the game (the game itself is a witness that F is reachable from P_i in n - i plies):
//   * ProofGame's constructor accepts F;
//   * computeBlocked(P_i) succeeds and does not mark a square the game's next move uses;
//   * distLowerBound(P_i) is neither negative nor INT_MAX nor larger than n - i, and 0 for P_n.
// Coverage feedback steers the games into the capture / promotion / castling / e.p. bookkeeping of the
// bound that random legal games reach a few times per million.
#include "harness/c17_fuzz.hpp"
#include "common/tx.hpp"
#include "chessError.hpp"
#include "proofgame.hpp"
#include "computerPlayer.hpp"
#include <climits>
#include <iostream>
#include <memory>

// Declared friend of ProofGame in the repository.
class ProofGameTest {
public:
    static int bound(ProofGame& pg, const Position& p) { return pg.distLowerBound(p); }
};

namespace {
const char* START = "rnbqkbnr/pppppppp/8/8/8/8/PPPPPPPP/RNBQKBNR w KQkq - 0 1";
const int MAX_CAPTURES = 6;
std::ostream& nullLog() { static std::ostream os(nullptr); return os; }
}

extern "C" int LLVMFuzzerInitialize(int* argc, char*** argv) {
    fz::rewriteArgs(argc, argv);
    ComputerPlayer::initEngine();
    fz::runPendingReplay();
    return 0;
}

extern "C" int LLVMFuzzerTestOneInput(const uint8_t* data, size_t size) {
    fz::tick();
    if (size < 1 || size > 150) { fz::rejected(); return 0; }
    std::vector<ref::Pos> pos{ref::startPos()};
    std::vector<ref::Move> moves;
    int captures = 0, castles = 0, promos = 0, eps = 0;
    for (size_t i = 0; i < size; i++) {
        const ref::Pos& p = pos.back();
        std::vector<ref::Move> lm;
        for (auto& m : ref::legalMoves(p)) if (captures < MAX_CAPTURES || !ref::isCapture(p, m)) lm.push_back(m);
        if (lm.empty()) break;
        const ref::Move m = lm[data[i] % lm.size()];
        if (ref::isCapture(p, m)) captures++;
        if (ref::isCastle(p, m)) castles++;
        if (ref::isEp(p, m)) eps++;
        if (m.promo) promos++;
        moves.push_back(m);
        pos.push_back(ref::make(p, m));
    }
    const size_t n = moves.size();
    const ref::Pos& fin = pos.back();
    if (n == 0 || (fin.ep >= 0 && !ref::legalEp(fin))) { fz::rejected(); return 0; } // a final double push that leaves a non-capturable e.p. square is not texel's goal position
    ref::Pos goal = fin;
    ref::normalizeEp(goal);
    const std::string goalFen = ref::toFEN(goal);
    auto where = [&](size_t i) {
        std::string s = "  [moves";
        for (auto& m : moves) s += " " + m.uci();
        return s + "; prefix " + std::to_string(i) + " = " + ref::toFEN(pos[i]) + " -> goal " + goalFen + "]";
    };
    std::unique_ptr<ProofGame> pg;
    try {
        pg.reset(new ProofGame(START, goalFen, false, {}, false, nullLog()));
    } catch (const std::exception& e) {
        fz::oracleFail(std::string("ProofGame constructor rejects a reachable goal: ") + e.what() + where(n), data, size);
    }
    fz::accepted(data, size);
    Position chain = TextIO::readFEN(START);
    for (size_t i = 0; i <= n; i++) {
        const int rem = (int)(n - i);
        U64 blocked = 0;
        if (!pg->computeBlocked(chain, blocked)) fz::oracleFail("computeBlocked returns false (goal unreachable) " + std::to_string(rem) + " plies before the goal" + where(i), data, size);
        if (i < n) {
            const ref::Move& m = moves[i];
            U64 touched = (1ULL << m.from) | (1ULL << m.to);
            if (ref::isCastle(pos[i], m)) touched |= 1ULL << (ref::X(m.to) == 6 ? m.from + 3 : m.from - 4);
            if (touched & blocked) fz::oracleFail("computeBlocked marks a square of the move " + m.uci() + " as blocked although the game reaches the goal through it" + where(i), data, size);
        }
        int b = ProofGameTest::bound(*pg, chain);
        if (b == INT_MAX) fz::oracleFail("distLowerBound = INT_MAX (unreachable) " + std::to_string(rem) + " plies before the goal" + where(i), data, size);
        if (b < 0) fz::oracleFail("distLowerBound is negative" + where(i), data, size);
        if (b > rem) fz::oracleFail("distLowerBound = " + std::to_string(b) + " > " + std::to_string(rem) + " remaining plies" + where(i), data, size);
        if (i == n && b != 0) fz::oracleFail("distLowerBound(goal) = " + std::to_string(b) + where(i), data, size);
        if (i < n) { UndoInfo ui; chain.makeMove(tx::toTexel(moves[i], pos[i].wtm), ui); }
    }
    fz::cls(n >= 40 ? "game of >= 40 plies" : n >= 10 ? "game of 10..39 plies" : "game of < 10 plies");
    if (castles) fz::cls("game with castling", data, size);
    if (promos) fz::cls("game with a promotion", data, size);
    if (eps) fz::cls("game with an e.p. capture", data, size);
    if (captures >= 4) fz::cls("game with >= 4 captures");
    return 0;
}
