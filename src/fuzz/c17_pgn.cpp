// C17 libFuzzer target: PgnReader on arbitrary bytes (<= 4 KiB).
// Oracle: only ChessParseError may escape; every accepted game is a tree whose
// moves are all legal per refchess from the start position texel reports, the
// positions texel's GameNode walks through equal refchess's, and the tree
// written by getGameTreeString parses back to the same move tree.
#include "harness/c17_fuzz.hpp"
#include "common/tx.hpp"
#include "computerPlayer.hpp"
#include "gametree.hpp"
#include <iostream>
#include <sstream>

namespace {

struct Shape { std::vector<std::string> moves; int nodes = 0, maxDepth = 0, variations = 0, comments = 0, nags = 0; };

const uint8_t* gData; size_t gSize;
bool gSane = true; // move counters of the current game's start position are in the compared range

// Walk the tree below `gn` (texel side) in parallel with refchess.  Appends a
// canonical pre-order description (move + child index structure) to out.
void walk(GameNode& gn, const ref::Pos& r, int depth, std::string& out, Shape& sh) {
    sh.maxDepth = std::max(sh.maxDepth, depth);
    int n = gn.nChildren();
    if (n > 1) sh.variations += n - 1;
    for (int i = 0; i < n; i++) {
        gn.goForward(i);
        ref::Move m = tx::toRef(gn.getMove());
        if (!ref::isLegal(r, m)) fz::oracleFail("game tree contains " + m.uci() + ", illegal in " + ref::toFEN(r), gData, gSize);
        ref::Pos r0 = r;
        if (!gSane) { r0.hmc = 0; r0.fmc = 1; } // absurd counters from a FEN tag: keep refchess's own arithmetic defined
        ref::Pos rn = ref::make(r0, m);
        if (!gSane) { rn.hmc = gn.getPos().getHalfMoveClock(); rn.fmc = gn.getPos().getFullMoveCounter(); }
        std::string d = tx::diff(gn.getPos(), rn, 0);
        if (!d.empty()) fz::oracleFail("position after " + m.uci() + " from " + ref::toFEN(r) + ": " + d, gData, gSize);
        sh.nodes++;
        if (!gn.getNode()->getPreComment().empty() || !gn.getNode()->getPostComment().empty()) sh.comments++;
        if (gn.getNode()->getNag() != 0) sh.nags++;
        out += '(' + m.uci();
        walk(gn, rn, depth + 1, out, sh);
        out += ')';
        gn.goBack();
    }
}

} // namespace

extern "C" int LLVMFuzzerInitialize(int* argc, char*** argv) {
    fz::rewriteArgs(argc, argv);
    ComputerPlayer::initEngine(); // what texel's main() does first (piece values, TB listeners)
    std::cerr.rdbuf(nullptr); // parsePgn prints a board for every invalid move
    fz::runPendingReplay();
    return 0;
}

extern "C" int LLVMFuzzerTestOneInput(const uint8_t* data, size_t size) {
    fz::tick();
    if (size > 4096) return 0;
    gData = data; gSize = size;
    if (fz::excludeClocks()) { // approximate pre-scan, only used with the off-by-default switch
        std::string in((const char*)data, size);
        for (size_t p = in.find("FEN"); p != std::string::npos; p = in.find("FEN", p + 1)) {
            size_t q = in.find('"', p), e = q == std::string::npos ? q : in.find('"', q + 1);
            if (e == std::string::npos) break;
            try {
                Position t = TextIO::readFEN(in.substr(q + 1, e - q - 1));
                if (!fz::clocksSane(t.getHalfMoveClock(), t.getFullMoveCounter())) { fz::rejected(); fz::cls("excluded: absurd move counters (switch)"); return 0; }
            } catch (...) {}
        }
    }
    std::istringstream is(std::string((const char*)data, size));
    PgnReader reader(is);
    int games = 0, errors = 0;
    bool nt = false;
    for (int iter = 0; iter < 64; iter++) {
        GameTree gt;
        bool ok = false;
        try {
            ok = reader.readPGN(gt);
        } catch (const ChessParseError&) {
            errors++;
            continue; // a reader may go on with the next game
        } catch (const std::exception& e) {
            fz::oracleFail(std::string("readPGN threw an undocumented exception type: ") + e.what(), data, size);
        } catch (...) {
            fz::oracleFail("readPGN threw an undocumented exception type", data, size);
        }
        if (!ok) break;
        games++;
        GameNode root = gt.getRootNode();
        std::string startFen = TextIO::toFEN(root.getPos());
        ref::Pos r;
        if (!ref::fromFEN(startFen, r)) fz::oracleFail("start position FEN unreadable: " + startFen, data, size);
        gSane = fz::clocksSane(r.hmc, r.fmc);
        std::string d0 = tx::diff(root.getPos(), r, 0);
        if (!d0.empty()) fz::oracleFail("start position: " + d0, data, size);
        std::string t1;
        Shape sh;
        walk(root, r, 0, t1, sh);
        std::map<std::string, std::string> hdr;
        gt.getHeaders(hdr);
        // write / re-read
        std::string str;
        std::set<GameTree::RangeToNode> ranges;
        gt.getGameTreeString(str, ranges);
        if ((int)ranges.size() != sh.nodes) fz::oracleFail("getGameTreeString maps " + std::to_string(ranges.size()) + " ranges for " + std::to_string(sh.nodes) + " nodes", data, size);
        if (sh.nodes > 0) {
            std::istringstream is2("[FEN \"" + startFen + "\"]\n" + str + "\n");
            PgnReader r2(is2);
            GameTree gt2;
            bool ok2 = false;
            try {
                ok2 = r2.readPGN(gt2);
            } catch (...) {
                fz::oracleFail("the reader rejects getGameTreeString's own output: " + str, data, size);
            }
            if (!ok2) fz::oracleFail("the reader finds no game in getGameTreeString's own output: " + str, data, size);
            GameNode root2 = gt2.getRootNode();
            std::string t2;
            Shape sh2;
            walk(root2, r, 0, t2, sh2);
            if (t1 != t2) fz::oracleFail("tree written by getGameTreeString reads back differently: '" + str + "' gives " + t2 + " instead of " + t1, data, size);
            nt = true;
            fz::cls("game with moves", data, size);
            if (sh.variations) fz::cls("game with variations", data, size);
            if (sh.comments) fz::cls("game with comments", data, size);
            if (sh.nags) fz::cls("game with NAGs", data, size);
            if (startFen != TextIO::startPosFEN) fz::cls("game with FEN tag", data, size);
        } else {
            fz::cls("game with tags only", data, size);
        }
    }
    if (games > 1) fz::cls("several games in one stream", data, size);
    if (nt) fz::accepted(data, size);
    else { fz::rejected(); fz::cls(errors ? "rejected: ChessParseError" : "rejected: no game with moves"); }
    return 0;
}
