// VERIF-TARGET: app
// C06  Time limits are honoured.
// Generated time controls and event injections on the in-process engine under
// the virtual clock of the cooperative scheduler (coop.hpp): time advances by
// ns-per-node at every stop test of the main search thread, so every run is
// deterministic.  Oracle: (1) the soft/hard limits handed to the search satisfy
// 1 <= soft <= hard <= budget; (2) a search cut by time delivers its bestmove no
// later than hard + one polling interval after `go`; (3) after an injected `stop`
// (or `ponderhit` with exhausted limits) bestmove follows within one polling
// interval.  See DESIGN.md §3 C06.
#include "common/vh.hpp"
#include "common/refchess.hpp"
#include "harness/coop.hpp"
#include "common/uci.hpp"

using vh::Value;
using vh::Choices;

namespace {

struct Case {
    int threads = 1, bufferTime = 1000, maxNps = 0;
    bool ponderOpt = false;
    std::string fen; int legalMoves = 20; bool whiteToMove = true;
    bool goPonder = false;
    long long wtime = 0, btime = 0, winc = 0, binc = 0, movestogo = 0, movetime = 0;
    int event = 0;            // 0 none (run to the time cut-off), 1 stop at node N, 2 ponderhit at node N (ponder), 3 ponderhit then stop
    long long eventNodes = 0, eventNodes2 = 0;
    long long nsPerNode = 1000;
    int strategy = 0; uint64_t schedSeed = 1;
    bool limitStrength = false; int elo = 1500;
    bool tbStop = false; long long clockCostNs = 0; long long stopSteps = 0; int hash = 4;
};

Value toJson(const Case& k) {
    Value v = Value::object();
    v["threads"] = k.threads; v["buffer_time"] = k.bufferTime; v["max_nps"] = k.maxNps; v["ponder_option"] = k.ponderOpt;
    v["fen"] = k.fen; v["legal_moves"] = k.legalMoves; v["white"] = k.whiteToMove; v["go_ponder"] = k.goPonder;
    v["wtime"] = k.wtime; v["btime"] = k.btime; v["winc"] = k.winc; v["binc"] = k.binc; v["movestogo"] = k.movestogo; v["movetime"] = k.movetime;
    v["event"] = k.event; v["event_nodes"] = k.eventNodes; v["event_nodes2"] = k.eventNodes2; v["ns_per_node"] = k.nsPerNode;
    v["strategy"] = k.strategy; v["sched_seed"] = (long long)k.schedSeed;
    v["limit_strength"] = k.limitStrength; v["elo"] = k.elo; v["tb_stop"] = k.tbStop; v["clock_cost_ns"] = k.clockCostNs; v["stop_steps"] = k.stopSteps; v["hash"] = k.hash;
    return v;
}
Case fromJson(const Value& v) {
    Case k;
    k.threads = (int)v.getInt("threads", 1); k.bufferTime = (int)v.getInt("buffer_time", 1000); k.maxNps = (int)v.getInt("max_nps", 0); k.ponderOpt = v.getBool("ponder_option", false);
    k.fen = v.getStr("fen"); k.legalMoves = (int)v.getInt("legal_moves", 20); k.whiteToMove = v.getBool("white", true); k.goPonder = v.getBool("go_ponder", false);
    k.wtime = v.getInt("wtime", 0); k.btime = v.getInt("btime", 0); k.winc = v.getInt("winc", 0); k.binc = v.getInt("binc", 0); k.movestogo = v.getInt("movestogo", 0); k.movetime = v.getInt("movetime", 0);
    k.event = (int)v.getInt("event", 0); k.eventNodes = v.getInt("event_nodes", 0); k.eventNodes2 = v.getInt("event_nodes2", 0); k.nsPerNode = v.getInt("ns_per_node", 1000);
    k.strategy = (int)v.getInt("strategy", 0); k.schedSeed = (uint64_t)v.getInt("sched_seed", 1);
    k.limitStrength = v.getBool("limit_strength", false); k.elo = (int)v.getInt("elo", 1500); k.tbStop = v.getBool("tb_stop", false);
    k.clockCostNs = v.getInt("clock_cost_ns", 0); k.stopSteps = v.getInt("stop_steps", 0); k.hash = (int)v.getInt("hash", 4);
    return k;
}

std::string goLine(const Case& k) {
    std::string s = "go";
    if (k.goPonder) s += " ponder";
    if (k.movetime > 0) s += " movetime " + std::to_string(k.movetime);
    else {
        s += " wtime " + std::to_string(k.wtime) + " btime " + std::to_string(k.btime);
        if (k.winc || k.binc) s += " winc " + std::to_string(k.winc) + " binc " + std::to_string(k.binc);
        if (k.movestogo > 0) s += " movestogo " + std::to_string(k.movestogo);
    }
    return s;
}

// The budget the property states: the fixed move time, or the mover's clock minus the safety buffer
// (BufferTime, but never more than 9/10 of the clock: "can't use negative time").
long long budgetOf(const Case& k) {
    if (k.movetime > 0) return k.movetime;
    long long time = k.whiteToMove ? k.wtime : k.btime;
    long long margin = std::min<long long>(k.bufferTime, time * 9 / 10);
    return time - margin;
}

const std::vector<std::pair<std::string, int>>& positions() {
    // (fen, number of legal moves); tame positions (short quiescence) so that the polling interval is well defined
    static const std::vector<std::pair<std::string, int>> v = {
        {"rnbqkbnr/pppppppp/8/8/8/8/PPPPPPPP/RNBQKBNR w KQkq - 0 1", 20},
        {"rnbqkbnr/pppp1ppp/8/4p3/4P3/8/PPPP1PPP/RNBQKBNR w KQkq - 0 2", 29},
        {"r1bqkb1r/pppp1ppp/2n2n2/4p3/4P3/2N2N2/PPPP1PPP/R1BQKB1R b KQkq - 4 3", 0},
        {"8/k7/3p4/p2P1p2/P2P1P2/8/8/K7 w - - 0 1", 0},
        {"7k/8/8/8/8/8/6q1/K7 w - - 0 1", 0},      // few legal moves
        {"k7/2Q5/8/8/8/8/8/K7 b - - 0 1", 0},      // single legal move
        {"6k1/5ppp/8/8/8/8/5PPP/R5K1 b - - 0 1", 0},
        {"4k3/8/8/8/8/8/4P3/4K3 b - - 0 1", 0},
    };
    return v;
}

Case genCase(Choices& c) {
    Case k;
    k.threads = c.chance(1, 2) ? 1 : c.range(2, 4);
    k.bufferTime = c.chance(1, 3) ? 1000 : c.of(std::vector<int>{1, 10, 100, 999, 3000, 10000, c.range(1, 10000)});
    k.maxNps = c.chance(1, 4) ? c.of(std::vector<int>{1000, 10000, 100000, 1000000}) : 0;
    k.ponderOpt = c.chance(1, 3);
    if (c.chance(1, 6)) { k.limitStrength = true; k.elo = c.of(std::vector<int>{-625, 800, 1349, 1350, 1800, 2099, 2100, 2600, 2900}); }
    auto& p = c.of(positions());
    k.fen = p.first;
    ref::Pos pos; ref::fromFEN(k.fen, pos);
    k.legalMoves = (int)ref::legalMoves(pos).size(); k.whiteToMove = pos.wtm;
    k.goPonder = c.chance(1, 4);
    if (c.chance(1, 3)) k.movetime = c.of(std::vector<long long>{1, 2, 10, 100, 1000, 100000, (long long)c.range(1, 100000)});
    else {
        auto clock = [&]() { int t = c.pick(6); return t == 0 ? (long long)c.range(1, 20) : t == 1 ? (long long)c.range(1, 2000) : t == 2 ? (long long)c.range(1, 100000) : t == 3 ? (long long)c.range(1, 10000000) : t == 4 ? 10000000LL : 1LL; };
        k.wtime = clock(); k.btime = clock();
        if (c.chance(1, 2)) { k.winc = c.of(std::vector<long long>{0, 1, 100, 5000, 100000, (long long)c.range(0, 100000)}); k.binc = c.of(std::vector<long long>{0, 1, 100, 5000, 100000, (long long)c.range(0, 100000)}); }
        if (c.chance(1, 2)) k.movestogo = c.of(std::vector<long long>{1, 2, 5, 40, 100, (long long)c.range(1, 100)});
    }
    k.nsPerNode = c.of(std::vector<long long>{200, 1000, 5000, 20000});
    // keep a run below ~2*10^5 main-thread nodes: large budgets get an injected stop (limits are still checked)
    long long budgetNodes = budgetOf(k) * 1000000LL / k.nsPerNode;
    if (k.goPonder) { k.event = c.chance(1, 2) ? 2 : 3; }
    else k.event = (budgetNodes > 150000 || c.chance(1, 3)) ? 1 : 0;
    k.eventNodes = c.of(std::vector<long long>{0, 1, 1500, 5000, (long long)c.range(0, 20000)});
    k.eventNodes2 = k.eventNodes + c.range(0, 8000);
    if (k.goPonder && k.event == 2 && budgetNodes > 150000) k.event = 3;
    if (k.goPonder && c.chance(1, 2)) { // ponderhit once the limits are already exhausted
        long long need = std::min<long long>(budgetNodes + 3000, 120000);
        k.eventNodes = std::max(k.eventNodes, need);
        k.eventNodes2 = k.eventNodes + c.range(1000, 8000);
    }
    k.strategy = c.of(std::vector<int>{0, 0, 1, 2});
    k.schedSeed = c.raw() + 1;
    return k;
}

// A search that starts by generating the on-demand tablebase (<= 4 men, no pawns, Hash >= 8, a budget of at least 3 s so
// that generation is attempted and polls the clock) is stopped after a generated number of scheduling steps, i.e. while
// the generator is between two of its clock reads.  Every clock read costs virtual time here, so "bestmove follows the
// stop within one polling interval" is observable for code that counts no nodes.
Case genTbStop(Choices& c) {
    Case k;
    static const std::vector<std::string> roots = {"8/8/3r4/4k3/8/8/Q7/1K6 w - - 0 1", "8/8/8/4k3/8/8/Q7/1KR5 w - - 0 1", "8/8/2n5/4k3/8/8/R7/1K6 b - - 0 1",
                                                   "8/8/3q4/4k3/8/8/Q7/1K6 w - - 0 1", "8/8/8/4k3/8/8/BN6/1K6 w - - 0 1", "8/8/8/4k3/8/8/Q7/1K6 w - - 0 1"};
    k.fen = c.of(roots);
    ref::Pos pos; ref::fromFEN(k.fen, pos);
    k.legalMoves = (int)ref::legalMoves(pos).size(); k.whiteToMove = pos.wtm;
    k.threads = c.chance(1, 2) ? 1 : c.range(2, 3);
    k.hash = c.of(std::vector<int>{8, 16});
    if (c.flip()) k.movetime = c.of(std::vector<long long>{3000, 5000, 30000, 100000});
    else { k.wtime = k.btime = c.of(std::vector<long long>{400000, 2000000, 10000000}); k.movestogo = c.of(std::vector<long long>{0, 1, 10}); k.bufferTime = 1000; }
    k.nsPerNode = c.of(std::vector<long long>{200, 1000, 5000});
    k.tbStop = true;
    k.clockCostNs = c.of(std::vector<long long>{20000, 100000, 500000});
    k.stopSteps = c.of(std::vector<long long>{1, 3, 8, 20, 45, 90, (long long)c.range(0, 300)});
    k.event = 1;
    k.strategy = c.of(std::vector<int>{0, 0, 1});
    k.schedSeed = c.raw() + 1;
    return k;
}

coop::RunSpec specOf(const Case& k) {
    coop::RunSpec s;
    auto add = [&](const std::string& t, int cond, long long arg) { coop::ScriptCmd c; c.text = t; c.cond = cond; c.arg = arg; s.script.push_back(c); };
    add("setoption name Threads value " + std::to_string(k.threads), coop::C_NOW, 0);
    add("setoption name BufferTime value " + std::to_string(k.bufferTime), coop::C_NOW, 0);
    add("setoption name MaxNPS value " + std::to_string(k.maxNps), coop::C_NOW, 0);
    add(std::string("setoption name Ponder value ") + (k.ponderOpt ? "true" : "false"), coop::C_NOW, 0);
    add("setoption name Hash value " + std::to_string(k.hash), coop::C_NOW, 0);
    add(std::string("setoption name UCI_LimitStrength value ") + (k.limitStrength ? "true" : "false"), coop::C_NOW, 0);
    add("setoption name UCI_Elo value " + std::to_string(k.elo), coop::C_NOW, 0);
    add("isready", coop::C_NOW, 0);
    add("position fen " + k.fen, coop::C_NOW, 0);
    add(goLine(k), coop::C_NOW, 0);
    if (k.tbStop) add("stop", coop::C_STEPS, k.stopSteps);
    else if (k.event == 1) add("stop", coop::C_NODES, k.eventNodes);
    if (k.event == 2) add("ponderhit", coop::C_NODES, k.eventNodes);
    if (k.event == 3) { add("ponderhit", coop::C_NODES, k.eventNodes); add("stop", coop::C_NODES, k.eventNodes2); }
    add("quit", coop::C_BESTMOVES, 1);
    s.nsPerNode = k.nsPerNode; s.strategy = k.strategy; s.schedSeed = k.schedSeed; s.pctDepth = 2; s.pctMaxSteps = 500;
    s.maxSteps = 2000000;
    s.clockReadCostNs = k.clockCostNs;
    return s;
}

long gSlackNodes = 1500; // nodes a search may run past a due stop test because quiescence nodes do not test (measured, see notes)

std::string judge(const Case& k, const coop::RunResult& r, bool& inconclusive, vh::Stats& st, bool stats) {
    inconclusive = false;
    if (r.status == "stuck" || r.status == "steps") { inconclusive = true; return ""; }
    if (r.status != "ok") return "run ended with status " + r.status + ": " + r.detail;
    // locate go / events / bestmove
    long long tGo = -1, tStop = -1, tHit = -1, tBest = -1; long sGo = -1;
    bool forcedEvent = false;
    for (auto& e : r.in) {
        if (e.text.rfind("go", 0) == 0) { tGo = e.vtimeNs; sGo = e.step; }
        if (e.text == "stop") { tStop = e.vtimeNs; if (e.forced) forcedEvent = true; }
        if (e.text == "ponderhit") { tHit = e.vtimeNs; if (e.forced) forcedEvent = true; }
    }
    for (auto& o : r.out) if (o.text.rfind("bestmove", 0) == 0) tBest = o.vtimeNs;
    if (tGo < 0 || tBest < 0) return "no go/bestmove in the run";
    const long long budget = budgetOf(k);
    const int nbtc = r.nodesBetweenTimeCheck > 0 ? r.nodesBetweenTimeCheck : 1000;
    // MaxNPS throttle: after each stop test the search sleeps until nodes/MaxNPS seconds have passed, i.e. one sleep
    // quantum = the nodes searched since the previous stop test divided by MaxNPS
    // UCI_LimitStrength throttles like MaxNPS (documented tiers of the engine: Elo < 1350: 10 000 n/s, < 2100: 100 000 n/s, else 750 000 n/s)
    long long effNps = k.maxNps > 0 ? k.maxNps : 0;
    if (k.limitStrength) { long long t = k.elo < 1350 ? 10000 : k.elo < 2100 ? 100000 : 750000; effNps = effNps > 0 ? std::min(effNps, t) : t; }
    const long long quantum = effNps > 0 ? (long long)(nbtc + gSlackNodes) * 1000000000LL / effNps + 1000000LL : 0;
    // tb-stop mode: every clock read of the engine costs virtual time.  A generator that honours the stop performs at most
    // 3 more reads; when generation had already finished, TBProbe::getSearchMoves probes the root and each legal root move
    // once, two clock reads per probe, before the first iteration starts (no stop poll there, none is promised).
    const long long costedReads = k.tbStop ? 3 + 2 * (1 + (long long)k.legalMoves) : 0;
    const long long P = (long long)(nbtc + gSlackNodes) * k.nsPerNode + quantum + 1000000LL + costedReads * k.clockCostNs; // + 1 ms clock granularity
    // (1) limits handed to the search for this go (first report after the go) and by ponderhit
    const coop::LimitEvent* first = nullptr; const coop::LimitEvent* atHit = nullptr;
    for (auto& l : r.limits) {
        if (l.step >= sGo && !first) first = &l;
        if (tHit >= 0 && l.vtimeNs >= tHit && l.minT != 0 && !atHit && l.step > sGo && &l != first) atHit = &l;
    }
    if (!first) return "no time limits were handed to the search";
    auto checkLimits = [&](const coop::LimitEvent& l, const char* what) -> std::string {
        if (!(1 <= l.minT && l.minT <= l.maxT && l.maxT <= budget))
            return std::string("limits ") + what + ": soft=" + std::to_string(l.minT) + " hard=" + std::to_string(l.maxT) + " violate 1 <= soft <= hard <= budget=" + std::to_string(budget);
        return "";
    };
    long long hard = -1;
    if (!k.goPonder) {
        std::string e = checkLimits(*first, "at go"); if (!e.empty()) return e;
        hard = first->maxT;
    } else {
        if (first->minT != -1 || first->maxT != -1) return "a ponder search was started with time limits (" + std::to_string(first->minT) + "," + std::to_string(first->maxT) + ")";
        if (atHit) { std::string e = checkLimits(*atHit, "at ponderhit"); if (!e.empty()) return e; hard = atHit->maxT; }
    }
    if (stats) {
        st.count("limit reports checked");
        if (k.legalMoves == 1) st.cls("single legal move");
        if (k.movestogo == 1) st.cls("movestogo 1");
        if (k.movetime == 0 && (k.whiteToMove ? k.wtime : k.btime) < k.bufferTime) st.cls("clock < buffer");
        if (k.movetime == 0 && (k.whiteToMove ? k.winc : k.binc) > (k.whiteToMove ? k.wtime : k.btime)) st.cls("inc > clock");
        if (k.goPonder) st.cls("ponder");
        if (k.maxNps > 0) st.cls("MaxNPS");
        if (k.limitStrength) st.cls("UCI_LimitStrength");
        if (k.tbStop) st.cls("stop during a clock-polled phase (on-demand tablebase generation)");
        if (k.threads > 1) st.cls("Threads > 1");
    }
    // (2) delivery relative to go (non-ponder searches)
    if (!k.goPonder) {
        if (tBest - tGo > hard * 1000000LL + P)
            return "bestmove " + std::to_string((tBest - tGo) / 1000) + " us after go, hard limit " + std::to_string(hard) + " ms, polling interval " + std::to_string(P / 1000) + " us";
        bool cutByTime = k.event == 0 || (tStop >= 0 && tBest < tStop);
        if (stats && cutByTime && tBest - tGo >= (long long)first->minT * 1000000LL / 4) st.cls("search cut by time");
    }
    // (3) after stop / after ponderhit with exhausted limits.  A ponder/infinite search that has already ended by itself
    // waits in a 10 ms sleep loop for its release: that loop is the polling interval then.
    const long long P3 = P + 10 * 1000000LL;
    if (tStop >= 0 && tBest >= tStop && !forcedEvent) {
        if (tBest - tStop > P3) return "bestmove " + std::to_string((tBest - tStop) / 1000) + " us after stop, polling interval " + std::to_string(P / 1000) + " us";
        if (stats) st.cls("bestmove after injected stop");
        if (getenv("C06_DEBUG")) fprintf(stderr, "OVERSHOOT nodes=%lld nbtc=%d maxnps=%d\n", (tBest - tStop) / k.nsPerNode, nbtc, k.maxNps);
    }
    if (k.goPonder && tHit >= 0 && atHit && !forcedEvent) {
        long long elapsedAtHit = tHit - tGo;
        if (elapsedAtHit >= (long long)atHit->maxT * 1000000LL) {
            if (tBest - tHit > P3) return "limits were exhausted at ponderhit but bestmove came " + std::to_string((tBest - tHit) / 1000) + " us later, polling interval " + std::to_string(P / 1000) + " us";
            if (stats) st.cls("ponderhit with exhausted limits");
        } else if (tStop < 0 || tBest < tStop) {
            if (tBest - tGo > (long long)atHit->maxT * 1000000LL + P3) return "after ponderhit bestmove " + std::to_string((tBest - tGo) / 1000) + " us after go, hard limit " + std::to_string(atHit->maxT) + " ms";
        }
    }
    return "";
}

void runCase(const std::string& sub, const Case& k, vh::Stats& st) {
    coop::RunResult r = coop::run(specOf(k));
    st.evaluations++;
    bool inc = false;
    std::string e = judge(k, r, inc, st, true);
    if (getenv("C06_DEBUG")) fprintf(stderr, "CASE %s status=%s steps=%ld polls=%ld -> %s\n", goLine(k).c_str(), r.status.c_str(), r.steps, r.pollsThread0, e.c_str());
    if (inc) { st.inconclusive++; st.count("status " + r.status); return; }
    char key[256];
    snprintf(key, sizeof key, "%s|%d|%d|%d|%d|%s|%lld|%d", goLine(k).c_str(), k.bufferTime, k.maxNps, k.ponderOpt, k.threads, k.fen.c_str(), k.nsPerNode, k.event);
    st.nt(std::string(key));
    auto mk = [&]() { Value v = toJson(k); v["go"] = goLine(k); return v; };
    st.clsSample(k.movetime > 0 ? "movetime" : "clock", mk);
    if (!e.empty()) { Value v = toJson(k); v["go"] = goLine(k); v["run"] = r.toJson(60); vh::fail(v, e); }
}

} // namespace

int main(int argc, char** argv) {
    vh::Args a = vh::parseArgs(argc, argv);
    vh::installDeathHooks();
    vh::Stats& st = vh::ctx().stats;
    vh::ctx().shrinkBudget = a.num("shrink", 300);
    gSlackNodes = a.num("slack-nodes", gSlackNodes);
    if (!a.replay.empty()) {
        return vh::runReplay([&](const std::string& sub, const Value& v) { runCase(sub, fromJson(v), st); });
    }
    coop::warmUp();
    vh::runProp("timecontrols", a.cases, 1.0, [&](Choices& c) { runCase("timecontrols", genCase(c), st); });
    vh::runProp("tb-stop", a.num("tb-cases", a.cases / 10), 1.0, [&](Choices& c) { runCase("tb-stop", genTbStop(c), st); });
    return vh::finish();
}
