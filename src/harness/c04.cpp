// C04  Announced mates are real.
// Generated (engine configuration x related positions x depth) sessions against the real engine
// binary; every "score mate N" the engine prints is judged by an independent oracle: refdtm (exact
// distance-to-mate tables) for pawnless <= 4-man roots, an exhaustive AND/OR mate solver on
// refchess otherwise.  See DESIGN.md §3 C04 and notes/C04.md.
#include "common/vh.hpp"
#include "common/gen.hpp"
#include "common/uci.hpp"
#include "harness/refdtm.hpp"
#include "harness/ucisearch.hpp"
#include "harness/c04_gen.hpp"
#include <algorithm>
#include <set>

using vh::Value;
using vh::Choices;

namespace {

std::string gExe, gWork;
std::vector<std::string> gNets, gClasses;       // classes allowed for the refdtm domain (4-man tables cost seconds)
int gCap3 = 14, gCapLight = 9, gCapMid = 8, gCapHeavy = 6; // depth caps by number of men (<=3, <=5, <=12, more)
int gSolveLimit = 3, gAnswerMs = 120000, gMaxThreads = 4;
long gBudget = 300000;
std::set<std::string> gStrata;

struct SearchSpec { std::string fen; int depth = 1; std::string origin; };
struct Case { int net = 0, hash = 16, threads = 1; bool nullmove = true; std::vector<SearchSpec> s; };

Value toJson(const Case& k) {
    Value v = Value::object();
    v["net"] = k.net; v["hash"] = k.hash; v["threads"] = k.threads; v["nullmove"] = k.nullmove;
    Value a = Value::array();
    for (auto& s : k.s) { Value o = Value::object(); o["fen"] = s.fen; o["depth"] = s.depth; o["origin"] = s.origin; a.push(o); }
    v["searches"] = a;
    return v;
}
Case fromJson(const Value& v) {
    Case k; k.net = (int)v.getInt("net", 0); k.hash = (int)v.getInt("hash", 16); k.threads = (int)v.getInt("threads", 1); k.nullmove = v.getBool("nullmove", true);
    for (auto& o : v.at("searches").a) { SearchSpec s; s.fen = o.getStr("fen"); s.depth = (int)o.getInt("depth", 1); s.origin = o.getStr("origin"); k.s.push_back(s); }
    return k;
}

// ---- oracle ------------------------------------------------------------------------------
bool smallPawnless(const ref::Pos& p, std::string& key) {
    if (p.cK || p.cQ || p.ck || p.cq) return false;
    std::string w, b; int men = 0;
    for (int s = 0; s < 64; s++) {
        char c = p.b[s];
        if (c == '.') continue;
        men++;
        if (c == 'P' || c == 'p') return false;
        if (c == 'K' || c == 'k') continue;
        if (ref::isWhite(c)) w += c; else b += c;
    }
    if (men > 4) return false;
    key = "K" + refdtm::Tables::order(w) + "k" + refdtm::Tables::order(b);
    return true;
}
bool dtmAllowed(const ref::Pos& p) {
    std::string key;
    if (!smallPawnless(p, key)) return false;
    if (key.size() <= 3) return true; // <= 3 men: cheap
    if (refdtm::tables().byKey.count(key)) return true;
    return std::find(gClasses.begin(), gClasses.end(), key) != gClasses.end();
}

// Oracle for one root: answers "side to move mates within n moves" / "side to move is mated within n moves
// against every defence" as 1 / 0 / -1 (unknown).
struct Oracle {
    ref::Pos root;
    bool dtm = false;
    refdtm::Value dv;
    int provenWithin = 1000, disprovenUpTo = 0;
    long spent = 0;
    explicit Oracle(const ref::Pos& p) : root(p) {
        if (dtmAllowed(p)) { dv = refdtm::probe(p); dtm = dv.ok; }
    }
    int winsWithin(int n, const ref::Move* hint) {
        if (dtm) return dv.wdl > 0 && dv.moves() <= n;
        if (provenWithin <= n) return 1;
        if (n <= disprovenUpTo) return 0;
        int k = std::min(n, gSolveLimit);
        c04::Solver s; s.budget = gBudget;
        int r = s.attack(root, k, hint);
        spent += gBudget - std::max(0L, s.budget);
        if (r == 1) { provenWithin = std::min(provenWithin, k); return 1; }
        if (r == 0) { disprovenUpTo = std::max(disprovenUpTo, k); return n <= k ? 0 : -1; }
        return -1;
    }
};
// position p (defender to move): is it lost within n attacker moves against every defence?
int lostWithin(const ref::Pos& p, int n) {
    if (dtmAllowed(p)) {
        refdtm::Value v = refdtm::probe(p);
        if (v.ok) return v.wdl < 0 && v.plies <= 2 * n;
    }
    int k = std::min(n, gSolveLimit);
    c04::Solver s; s.budget = gBudget;
    int r = s.defend(p, k);
    if (r == 1) return 1;
    if (r == 0) return n <= k ? 0 : -1;
    return -1;
}

// ---- generation ----------------------------------------------------------------------------
int menCount(const ref::Pos& p) { return p.men(); }
int depthFor(Choices& c, const ref::Pos& p) {
    int men = menCount(p);
    int cap = men <= 3 ? gCap3 : men <= 5 ? gCapLight : men <= 12 ? gCapMid : gCapHeavy;
    // half of the time a small depth (mate announcements at the horizon), else the full range
    return c.chance(1, 3) ? c.range(1, std::min(cap, 4)) : c.range(1, cap);
}

bool genDtmRoot(Choices& c, ref::Pos& out, std::string& origin) {
    if (gClasses.empty()) return false;
    const std::string& key = c.of(gClasses);
    refdtm::Table* t = refdtm::tables().get(key);
    origin = "dtm:" + key;
    if (c.chance(1, 3)) { // uniformly random placement
        for (int tries = 0; tries < 30; tries++) {
            refdtm::MP m; m.wtm = c.flip();
            for (int i = 0; i < t->n; i++) m.sq[i] = c.pick(64);
            if (!t->legalPlacement(m)) continue;
            out = t->toPos(m);
            origin += ":random";
            return true;
        }
        return false;
    }
    // stratified: over the distance values that occur in the class (half of the time restricted to mates of <= 6 moves,
    // which the engine can announce at the depths used here), then an evenly spaced entry, then a symmetry
    std::vector<int> codes;
    bool shortOnly = c.flip();
    for (auto& kv : t->samples) {
        int plies = kv.first > 0 ? kv.first : -kv.first - 1;
        if (kv.first == 0) { if (!shortOnly && c.chance(1, 4)) codes.push_back(0); }
        else if (!shortOnly || plies <= 11) codes.push_back(kv.first);
    }
    if (codes.empty()) for (auto& kv : t->samples) codes.push_back(kv.first);
    int code = c.of(codes);
    const std::vector<uint32_t>& idx = t->samples[code];
    out = refdtm::symPos(t->posOf(c.of(idx)), c.pick(8));
    origin += ":strat";
    gStrata.insert(key + ":" + std::to_string(code));
    return true;
}

bool genBase(Choices& c, ref::Pos& p, std::string& origin) {
    int d = c.pick(100);
    if (d < 40) { if (!genDtmRoot(c, p, origin)) return false; }
    else if (d < 70) {
        c04::Made m = c04::mateTemplate(c);
        if (!m.ok) return false;
        p = m.p; origin = std::string("tmpl:") + c04::tmplName(m.tmpl);
    } else if (d < 86) {
        static const int tm[] = {gen::T_SPARSE, gen::T_ENDGAME, gen::T_BATTERY, gen::T_DOUBLECHECK, gen::T_PROMO, gen::T_PIN, gen::T_MANYLIKE, gen::T_CASTLE, gen::T_EPPIN};
        gen::Placed pl = gen::place(c, tm[c.pick(9)]);
        if (!pl.ok) return false;
        p = pl.p; origin = std::string("place:") + gen::tmplName(pl.tmpl);
    } else {
        gen::Game g = gen::game(c, 200, nullptr, c.flip() ? gen::CAPTURES : -1);
        p = g.pos.back(); origin = "game";
    }
    if (!ref::sane(p)) return false;
    p.fmc = 1;
    p.hmc = p.ep >= 0 ? 0 : c.range(0, 18);
    return true;
}

void genGroup(Choices& c, Case& k, vh::Stats& st) {
    ref::Pos b; std::string origin;
    if (!genBase(c, b, origin)) { st.discarded++; return; }
    std::vector<ref::Move> lm = ref::legalMoves(b);
    if (lm.empty()) { st.discarded++; return; } // checkmate / stalemate roots belong to C03
    auto add = [&](const ref::Pos& p, const std::string& o) {
        if (ref::legalMoves(p).empty()) return;
        SearchSpec s; s.fen = ref::toFEN(p); s.depth = depthFor(c, p); s.origin = o; k.s.push_back(s);
    };
    auto child = [&](const ref::Pos& p) { std::vector<ref::Move> l = ref::legalMoves(p); return l.empty() ? p : ref::make(p, l[c.pick((int)l.size())]); };
    switch (c.pick(6)) {
    case 0: case 1: add(b, origin); break;
    case 2: add(child(b), origin + "|child-first"); add(b, origin + "|after-child"); break;
    case 3: add(b, origin); add(child(b), origin + "|child-after-parent"); break;
    case 4: add(child(b), origin + "|sibling1"); add(child(b), origin + "|sibling2"); break;
    case 5: add(child(child(b)), origin + "|grandchild-first"); add(b, origin + "|after-grandchild"); break;
    }
}

// ---- judging one search ----------------------------------------------------------------------
std::string nLabel(int n) { return n >= 8 ? "N>=8" : "N=" + std::to_string(n); }
std::string nNum(int n) { return n >= 8 ? ">=8" : std::to_string(n); }

std::string judge(const SearchSpec& s, const us::Result& r, vh::Stats& st, bool& decisive, const std::function<Value()>& sample) {
    ref::Pos root;
    if (!ref::fromFEN(s.fen, root)) return "";
    Oracle oc(root);
    std::vector<c04::MateMove> m1 = c04::mateMoves(root);
    const char* on = oc.dtm ? "dtm" : "solver";
    // (1) every winning mate announcement (exact or lower bound)
    for (const us::Line& l : r.pv) {
        const uci::Info& inf = l.inf;
        if (!inf.hasScore || !inf.mate || inf.score <= 0 || inf.upper) continue;
        st.count("mate announcements (winning)");
        ref::Move hint; if (!inf.pv.empty()) hint = ref::Move::fromUci(inf.pv[0]);
        int v = oc.winsWithin(inf.score, hint.valid() ? &hint : nullptr);
        if (v == 0) return "the engine announced '" + l.raw.substr(0, 160) + "' but the side to move cannot force mate within " + std::to_string(inf.score) + " moves (" + on + " oracle" +
                           (oc.dtm ? std::string(": ") + (oc.dv.wdl > 0 ? "mate in " + std::to_string(oc.dv.moves()) : oc.dv.wdl == 0 ? "draw" : "lost") : "") + ")";
        if (v < 0) { st.count(inf.score > gSolveLimit ? "inconclusive: announcement beyond the solver limit" : "inconclusive: solver budget"); continue; }
        decisive = true;
        st.count(std::string("verified announcement ") + nLabel(inf.score) + " (" + on + ")");
    }
    if (r.pv.empty()) return "";
    const us::Line& fin = r.pv.back();
    ref::Move bm = ref::Move::fromUci(r.best);
    bool bmLegal = bm.valid() && ref::isLegal(root, bm);
    // (2) bestmove delivered with a winning mate score keeps a forced mate
    if (fin.inf.mate && fin.inf.score > 0 && !fin.inf.upper && bmLegal) {
        if (!fin.inf.pv.empty() && fin.inf.pv[0] == r.best) {
            ref::Pos c = ref::make(root, bm);
            int n = fin.inf.score;
            int v = n == 1 ? (ref::isMate(c) ? 1 : 0) : lostWithin(c, n - 1);
            if (v == 0) return "final score 'mate " + std::to_string(n) + "' but after bestmove " + r.best + " the opponent is not mated within " + std::to_string(n - 1) + " more moves (" + ref::toFEN(c) + ")";
            if (v == 1) { decisive = true; st.clsSample("bestmove keeps the announced mate (verified)", sample); } else st.count("inconclusive: bestmove check");
        } else st.count("final pv does not start with bestmove (not judged)");
    }
    // (3) a completed search ending with a losing mate score
    if (fin.inf.mate && fin.inf.score < 0 && !fin.inf.lower) {
        int n = -fin.inf.score;
        int v = lostWithin(root, n);
        if (v == 0) return "completed search ended with '" + fin.raw.substr(0, 120) + "' but the opponent cannot force mate within " + std::to_string(n) + " moves against every defence";
        if (v == 1) { decisive = true; st.clsSample("final 'mate -N' verified", sample); st.count(std::string("verified final mate -") + nNum(n)); } else st.count("inconclusive: losing score check");
    }
    // (4) mate in one
    if (!m1.empty()) {
        std::set<std::string> kinds; for (auto& m : m1) kinds.insert(m.kind);
        for (auto& kd : kinds) st.clsSample("root with mate in 1: " + kd, sample);
        st.cls("root with mate in 1");
        decisive = true;
        if (!(fin.inf.mate && fin.inf.score == 1 && !fin.inf.upper))
            return "a mate in one exists (" + m1[0].m.uci() + ") but 'go depth " + std::to_string(s.depth) + "' ended with '" + fin.raw.substr(0, 120) + "'";
        bool mating = false; for (auto& m : m1) if (m.m.uci() == r.best) mating = true;
        if (!mating) return "a mate in one exists (" + m1[0].m.uci() + ") but bestmove " + r.best + " does not mate";
    }
    if (oc.dtm && oc.dv.wdl > 0) st.count("dtm root won in " + nNum(oc.dv.moves()));
    return "";
}

std::string runCase(const Case& k, vh::Stats& st, bool& inconclusive, Value& tail) {
    us::Session ss;
    std::string net = gNets[(size_t)k.net % gNets.size()];
    if (!ss.start(gExe, net, gWork, {{"Hash", std::to_string(k.hash)}, {"Threads", std::to_string(k.threads)}, {"UseNullMove", k.nullmove ? "true" : "false"}})) {
        inconclusive = true; ss.e.kill(); return "";
    }
    std::string err;
    int idx = 0;
    for (const SearchSpec& s : k.s) {
        idx++;
        long long t0 = uci::nowMs();
        us::Result r = ss.goDepth(s.fen, s.depth, gAnswerMs);
        long long t1 = uci::nowMs();
        if (r.died) { err = r.why; break; }
        if (r.timeout || !r.answered) { inconclusive = true; st.count("inconclusive: no answer in time"); break; }
        st.count("searches");
        bool decisive = false;
        auto sample = [&]() { Value o = Value::object(); o["fen"] = s.fen; o["go"] = "depth " + std::to_string(s.depth); o["origin"] = s.origin; o["hash"] = k.hash; o["threads"] = k.threads;
                              o["nullmove"] = k.nullmove; o["net"] = k.net; o["search_no_in_process"] = idx; if (!r.pv.empty()) o["final_line"] = r.pv.back().raw.substr(0, 160); o["bestmove"] = r.best; return o; };
        std::string v = judge(s, r, st, decisive, sample);
        if (refdtm::tables().verbose) fprintf(stderr, "search %lldms judge %lldms T%d d%d %s %s\n", t1 - t0, uci::nowMs() - t1, k.threads, s.depth, s.origin.c_str(), s.fen.c_str());
        if (decisive) {
            st.nt(s.fen + "|" + std::to_string(s.depth) + "|" + std::to_string(k.hash) + "|" + std::to_string(k.threads) + "|" + (k.nullmove ? "n" : "-") + "|" + std::to_string(k.net));
            st.cls("decisive search");
            st.clsSample(std::string("decisive: ") + (s.origin.rfind("dtm", 0) == 0 ? "dtm domain" : s.origin.rfind("tmpl", 0) == 0 ? "template domain" : "game/placement domain"), sample);
            if (idx >= 2) st.clsSample("decisive: after a related search in the same process", sample);
            if (k.threads > 1) st.cls("decisive: Threads > 1");
            if (k.hash == 1) st.cls("decisive: Hash 1");
            if (!k.nullmove) st.cls("decisive: UseNullMove off");
            st.count("decisive with net " + std::to_string(k.net % (int)gNets.size()));
        }
        if (!v.empty()) { err = "search " + std::to_string(idx) + " (go depth " + std::to_string(s.depth) + " on " + s.fen + "): " + v; break; }
    }
    if (!err.empty()) tail = ss.tail(40);
    if (err.empty() && !inconclusive) err = ss.finish(inconclusive); else ss.e.kill();
    return err;
}

void runAndJudge(const Case& k, vh::Stats& st) {
    if (k.s.empty()) return;
    st.evaluations++;
    bool inc = false; Value tail;
    std::string e = runCase(k, st, inc, tail);
    if (inc) { st.inconclusive++; return; }
    if (!e.empty()) { Value v = toJson(k); v["transcript_tail"] = tail; vh::fail(v, e); }
}

std::vector<std::string> splitList(const std::string& s) {
    std::vector<std::string> r; size_t p = 0;
    while (p <= s.size()) { size_t q = s.find(',', p); if (q == std::string::npos) q = s.size(); if (q > p) r.push_back(s.substr(p, q - p)); p = q + 1; }
    return r;
}

} // namespace

int main(int argc, char** argv) {
    vh::Args a = vh::parseArgs(argc, argv);
    vh::installDeathHooks();
    vh::Stats& st = vh::ctx().stats;
    vh::ctx().shrinkBudget = a.num("shrink", 40);
    gExe = a.str("engine", "/verif/build/opt/bin/texel");
    gNets = splitList(a.str("nets", "/verif/build/nets/material-1.net"));
    gClasses = splitList(a.str("classes", "KQk,KRk,Kkq,Kkr"));
    if (a.str("classes") == "all") gClasses = refdtm::Tables::allClasses();
    gCap3 = (int)a.num("cap-3", 14); gCapLight = (int)a.num("cap-light", 9); gCapMid = (int)a.num("cap-mid", 8); gCapHeavy = (int)a.num("cap-heavy", 6);
    gSolveLimit = (int)a.num("solve-limit", 3); gBudget = a.num("budget", 300000);
    gAnswerMs = (int)a.num("answer-ms", 120000); gMaxThreads = (int)a.num("max-threads", 4);
    refdtm::tables().verbose = a.num("verbose", 0) != 0;
    refdtm::tables().cacheDir = a.str("dtm-cache", "");
    if (!refdtm::tables().cacheDir.empty() && system(("mkdir -p '" + refdtm::tables().cacheDir + "'").c_str())) {}
    if (a.kv.count("dtm-selftest")) { // build + validate tables, print statistics (used for the notes)
        refdtm::tables().verbose = true;
        for (auto& k : gClasses) refdtm::tables().get(k);
        return 0;
    }
    gWork = "/tmp/verif-c04-" + std::to_string(getpid());
    if (system(("mkdir -p " + gWork).c_str())) {}
    int rc;
    if (!a.replay.empty()) {
        rc = vh::runReplay([&](const std::string&, const Value& k) {
            Case c = fromJson(k);
            for (int i = 0; i < (int)a.num("repeat", 3); i++) runAndJudge(c, st);
        });
    } else {
        vh::runProp("sessions", a.cases, 6.0, [&](Choices& c) {
            Case k;
            k.net = c.pick((int)gNets.size());
            k.hash = c.flip() ? 1 : 16;
            k.threads = c.chance(1, 2) ? 1 : c.range(2, std::max(2, gMaxThreads));
            k.nullmove = !c.chance(1, 3);
            int groups = c.range(1, 6);
            for (int i = 0; i < groups && (i == 0 || !c.empty()); i++) genGroup(c, k, st);
            runAndJudge(k, st);
        });
        st.count("dtm strata (class:value) sampled", (long)gStrata.size());
        rc = vh::finish();
    }
    if (system(("rm -rf " + gWork).c_str())) {}
    return rc;
}
