// C15  Reverse move generation is complete and consistent with forward moves.
// Oracle: refchess for legality; pairs (P, m) -> Q along random legal games from
// the standard start position (RevMoveGen filters piece counts that cannot arise
// from it).  See DESIGN.md §3 C15 and notes/C15.md.
#include "common/vh.hpp"
#include "common/gen.hpp"
#include "common/tx.hpp"
#include "revmovegen.hpp"
#include <algorithm>
#include <tuple>

using vh::Value;
using vh::Choices;

namespace {

int castleMaskOf(const ref::Pos& p) {
    return (p.cQ ? 1 << Position::A1_CASTLE : 0) | (p.cK ? 1 << Position::H1_CASTLE : 0) |
           (p.cq ? 1 << Position::A8_CASTLE : 0) | (p.ck ? 1 << Position::H8_CASTLE : 0);
}

// texel position -> refchess position, field by field (no FEN in between)
ref::Pos fromTexel(const Position& t) {
    ref::Pos r;
    for (int s = 0; s < 64; s++) r.b[s] = tx::pieceChar(t.getPiece(Square(s)));
    r.wtm = t.isWhiteMove();
    r.cK = t.h1Castle(); r.cQ = t.a1Castle(); r.ck = t.h8Castle(); r.cq = t.a8Castle();
    r.ep = t.getEpSquare().isValid() ? t.getEpSquare().asInt() : -1;
    r.hmc = t.getHalfMoveClock(); r.fmc = t.getFullMoveCounter();
    return r;
}

std::string unMoveStr(const UnMove& u) {
    return tx::toRef(u.move).uci() + " {captured " + tx::pieceChar(u.ui.capturedPiece) + ", castle " + TextIO::castleMaskToString(u.ui.castleMask) +
           ", ep " + (u.ui.epSquare.isValid() ? ref::sqName(u.ui.epSquare.asInt()) : std::string("-")) + "}";
}

typedef std::tuple<int, int, int, int, int, int> UKey;
UKey keyOf(const UnMove& u) {
    return UKey(u.move.from().asInt(), u.move.to().asInt(), u.move.promoteTo(), u.ui.capturedPiece, u.ui.castleMask,
                u.ui.epSquare.isValid() ? u.ui.epSquare.asInt() : -1);
}

bool refLegal(const ref::Pos& p, const ref::Move& m) {
    std::vector<ref::Move> ps;
    ref::pseudoMoves(p, ps);
    if (std::find(ps.begin(), ps.end(), m) == ps.end()) return false;
    return !ref::inCheck(ref::make(p, m), p.wtm);
}

// Soundness of one listed un-move of Q.
std::string checkUnMove(const Position& q, const ref::Pos& qr, const UnMove& u) {
    if (u.ui.halfMoveClock != 0) return "UndoInfo.halfMoveClock is " + std::to_string(u.ui.halfMoveClock) + ", documented as always 0";
    Position t(q);
    t.unMakeMove(u.move, u.ui);
    ref::Pos pr = fromTexel(t);
    std::string pfen = ref::toFEN(pr);
    if (pr.wtm == qr.wtm) return "predecessor has the same side to move [" + pfen + "]";
    if (pr.count('K') != 1 || pr.count('k') != 1) return "predecessor does not have one king each [" + pfen + "]";
    for (int x = 0; x < 8; x++) for (int y = 0; y < 8; y += 7) if (ref::lower(pr.b[ref::SQ(x, y)]) == 'p') return "predecessor has a pawn on rank 1/8 [" + pfen + "]";
    if (ref::inCheck(pr, !pr.wtm)) return "predecessor has the side not to move in check [" + pfen + "]";
    {   // rights and e.p. target must be the ones a FEN reader keeps
        ref::Pos back;
        ref::fromFEN(pfen, back);
        if (back.cK != pr.cK || back.cQ != pr.cQ || back.ck != pr.ck || back.cq != pr.cq) return "predecessor claims a castling right without king and rook at home [" + pfen + "]";
        if (back.ep != pr.ep) return "predecessor's e.p. target is impossible on its board [" + pfen + "]";
    }
    ref::Move m = tx::toRef(u.move);
    if (!refLegal(pr, m)) return "move is not legal in the predecessor [" + pfen + "]";
    ref::Pos n = ref::make(pr, m);
    ref::normalizeEp(n);
    if (!n.sameBoard(qr)) return "playing the move from the predecessor gives another board [" + pfen + " -> " + ref::toFEN(n) + "]";
    if (n.wtm != qr.wtm) return "playing the move gives another side to move";
    if (n.cK != qr.cK || n.cQ != qr.cQ || n.ck != qr.ck || n.cq != qr.cq) return "playing the move from the predecessor gives castling rights " + ref::castleStr(n) + " [" + pfen + "]";
    if (n.ep != qr.ep) return "playing the move from the predecessor gives e.p. target " + std::to_string(n.ep) + " [" + pfen + "]";
    if (n.fmc != qr.fmc) return "playing the move from the predecessor gives move number " + std::to_string(n.fmc) + " [" + pfen + "]";
    return "";
}

struct PairFlags { bool cap, castle, ep, promo, capPromo, rights, pHasEp, corner; };
PairFlags classify(const ref::Pos& p, const ref::Move& m, const ref::Pos& q) {
    PairFlags f;
    f.cap = ref::isCapture(p, m); f.castle = ref::isCastle(p, m); f.ep = ref::isEp(p, m); f.promo = m.promo != 0;
    f.capPromo = f.cap && f.promo;
    f.rights = castleMaskOf(p) != castleMaskOf(q);
    f.pHasEp = p.ep >= 0;
    f.corner = f.cap && (m.to == 0 || m.to == 7 || m.to == 56 || m.to == 63);
    return f;
}
bool isSpecial(const PairFlags& f) { return f.castle || f.ep || f.promo || f.rights || f.corner; }

struct Checker {
    vh::Stats& st;
    explicit Checker(vh::Stats& s) : st(s) {}

    // One pair (P, m): completeness (both flag values) and, if `sound`, soundness of every un-move of Q.
    // P must be normalised (fixupEPSquare).  Returns "" or the disagreement.
    std::string checkPair(const Position& P, const ref::Pos& pr, const ref::Move& m, bool sound) {
        Position q(P);
        UndoInfo ui;
        q.makeMove(tx::toTexel(m, pr.wtm), ui);
        TextIO::fixupEPSquare(q);
        ref::Pos qr = ref::make(pr, m);
        ref::normalizeEp(qr);
        std::string d = tx::diff(q, qr, 0);
        if (!d.empty()) return "precondition: texel and refchess disagree on Q after " + m.uci() + ": " + d;
        std::string qfen = ref::toFEN(qr);
        st.evaluations++;
        PairFlags f = classify(pr, m, qr);
        auto mk = [&]() { Value v = Value::object(); v["P"] = ref::toFEN(pr); v["move"] = m.uci(); v["Q"] = qfen; return v; };
        if (f.cap) st.clsSample("capture", mk);
        if (f.castle) st.clsSample("castling", mk);
        if (f.ep) st.clsSample("e.p. capture", mk);
        if (f.promo) st.clsSample("promotion", mk);
        if (f.capPromo) st.clsSample("capture-promotion", mk);
        if (f.rights) st.clsSample("changes castling rights", mk);
        if (f.corner) st.clsSample("capture on a corner square", mk);
        if (f.corner && f.rights) st.clsSample("rook captured with its right", mk);
        if (f.pHasEp) st.clsSample("P has an e.p. right", mk);
        if (f.pHasEp && !f.ep) st.clsSample("P has an e.p. right, other move played", mk);
        if (qr.ep >= 0) st.clsSample("Q has an e.p. right", mk);
        if (f.cap || f.castle || f.ep || f.promo || f.rights) st.nt(ref::boardStr(pr) + (pr.wtm ? " w " : " b ") + ref::castleStr(pr) + " " + std::to_string(pr.ep) + " " + m.uci()); else st.cls("plain");

        std::vector<UnMove> all, some;
        RevMoveGen::genMoves(q, all, true);
        RevMoveGen::genMoves(q, some, false);
        st.count("un-moves listed (all e.p. squares)", (long)all.size());
        UnMove exp;
        exp.move = tx::toTexel(m, pr.wtm);
        exp.ui.capturedPiece = tx::pieceCode(pr.b[m.to]);
        exp.ui.castleMask = castleMaskOf(pr);
        exp.ui.epSquare = pr.ep >= 0 ? Square(pr.ep) : Square(-1);
        exp.ui.halfMoveClock = 0;
        UKey ek = keyOf(exp);
        // no duplicates; `some` is a sub-list of `all`
        std::set<UKey> allSet, someSet;
        for (auto& u : all) if (!allSet.insert(keyOf(u)).second) return "genMoves(Q, true) lists " + unMoveStr(u) + " twice  [Q " + qfen + "]";
        for (auto& u : some) {
            if (!someSet.insert(keyOf(u)).second) return "genMoves(Q, false) lists " + unMoveStr(u) + " twice  [Q " + qfen + "]";
            if (!allSet.count(keyOf(u))) return "genMoves(Q, false) lists " + unMoveStr(u) + " which genMoves(Q, true) does not  [Q " + qfen + "]";
        }
        // completeness
        if (!allSet.count(ek)) return "genMoves(Q, true) does not contain " + unMoveStr(exp) + " which leads from P to Q  [P " + ref::toFEN(pr) + ", Q " + qfen + "]";
        if ((pr.ep < 0 || f.ep) && !someSet.count(ek)) return "genMoves(Q, false) does not contain " + unMoveStr(exp) + " which leads from P to Q  [P " + ref::toFEN(pr) + ", Q " + qfen + "]";
        // the un-move really restores P
        {
            Position t(q);
            t.unMakeMove(exp.move, exp.ui);
            t.setHalfMoveClock(P.getHalfMoveClock());
            if (!(t == P)) return "unMakeMove with the expected undo record does not restore P  [P " + ref::toFEN(pr) + ", Q " + qfen + "]";
        }
        // soundness
        if (sound) {
            for (auto& u : all) {
                std::string e = checkUnMove(q, qr, u);
                if (!e.empty()) return "un-move " + unMoveStr(u) + " of Q " + qfen + ": " + e;
            }
            st.count("un-moves checked for soundness", (long)all.size());
            st.count("positions Q with full soundness sweep");
        }
        return "";
    }

    Value gameCase(const std::vector<std::string>& mv, size_t n, const std::string& sibling) {
        Value k = Value::object();
        std::vector<std::string> v(mv.begin(), mv.begin() + std::min(n, mv.size()));
        k["moves"] = Value::arrayOf(v);
        if (!sibling.empty()) k["last"] = sibling;
        return k;
    }

    // every ply of a game from the standard start: the played move and all special sibling moves;
    // at plies i % sweep == 0 every legal move of P
    void runGame(const std::string& sub, const gen::Game& g, int sweep, const std::string& last) {
        std::vector<std::string> mv = g.uciMoves();
        vh::setCurrent(sub, gameCase(mv, mv.size(), last));
        Position chain = TextIO::readFEN(g.startFen);
        ref::Pos pr = g.pos[0];
        ref::normalizeEp(pr);
        for (size_t i = 0; i <= g.moves.size(); i++) {
            std::string d = tx::diff(chain, pr, 0);
            if (!d.empty()) vh::fail(gameCase(mv, i, ""), "precondition: texel and refchess disagree after " + std::to_string(i) + " plies: " + d);
            bool lastPly = i == g.moves.size();
            if (lastPly && last.empty() && !(sweep > 0 && i % sweep == 0)) break;
            if (sweep > 0 && i % sweep == 0) {
                for (const ref::Move& x : ref::legalMoves(pr)) {
                    bool played = !lastPly && x == g.moves[i];
                    std::string e = checkPair(chain, pr, x, played || classifySpecial(pr, x));
                    if (!e.empty()) vh::fail(gameCase(mv, i, x.uci()), e);
                }
            } else if (!lastPly) {
                // the played move and every legal move of the kinds the property singles out
                for (const ref::Move& x : ref::legalMoves(pr)) {
                    if (!(x == g.moves[i]) && !classifySpecial(pr, x)) continue;
                    std::string e = checkPair(chain, pr, x, true);
                    if (!e.empty()) vh::fail(gameCase(mv, i, x.uci()), e);
                }
            }
            if (lastPly && !last.empty()) { // replay of a sibling move
                ref::Move x = ref::Move::fromUci(last);
                if (!ref::isLegal(pr, x)) vh::fail(gameCase(mv, i, last), "replay file lists an illegal last move");
                std::string e = checkPair(chain, pr, x, true);
                if (!e.empty()) vh::fail(gameCase(mv, i, last), e);
            }
            if (lastPly) break;
            UndoInfo ui;
            chain.makeMove(tx::toTexel(g.moves[i], pr.wtm), ui);
            TextIO::fixupEPSquare(chain);   // as Game::processString does
            pr = ref::make(pr, g.moves[i]);
            ref::normalizeEp(pr);
        }
        vh::clearCurrent();
    }

    static bool classifySpecial(const ref::Pos& p, const ref::Move& m) {
        ref::Pos q = ref::make(p, m);
        return isSpecial(classify(p, m, q));
    }
};

// Move choice weighted towards the moves the property is about.
ref::Move pick15(Choices& c, const ref::Pos& p, const std::vector<ref::Move>& lm, int profile, const std::vector<ref::Pos>& hist) {
    if (c.chance(1, 3)) {
        std::vector<ref::Move> cls[5]; // castling, e.p., promotion, double push giving an e.p. right, corner capture
        for (auto& m : lm) {
            PairFlags f = classify(p, m, ref::make(p, m));
            if (f.castle) cls[0].push_back(m);
            if (f.ep) cls[1].push_back(m);
            if (f.promo) cls[2].push_back(m);
            if (f.corner) cls[4].push_back(m);
            if (ref::lower(p.b[m.from]) == 'p' && abs(m.to - m.from) == 16) { ref::Pos n = ref::make(p, m); if (ref::legalEp(n)) cls[3].push_back(m); }
        }
        std::vector<int> have;
        for (int i = 0; i < 5; i++) if (!cls[i].empty()) have.push_back(i);
        if (!have.empty()) {
            auto& v = cls[have[c.pick((int)have.size())]];
            if (&v == &cls[2]) { // capture-promotions first
                std::vector<ref::Move> cp;
                for (auto& m : v) if (ref::isCapture(p, m)) cp.push_back(m);
                if (!cp.empty() && c.chance(2, 3)) return cp[c.pick((int)cp.size())];
            }
            return v[c.pick((int)v.size())];
        }
    }
    return gen::pickMove(c, p, lm, profile, hist);
}

gen::Game game15(Choices& c, int maxPlies) {
    gen::Game g;
    g.startFen = gen::seedFens()[0];
    ref::Pos p;
    ref::fromFEN(g.startFen, p);
    g.pos.push_back(p);
    int profile = g.profile = c.pick(gen::NPROFILES);
    int plies = c.range(0, maxPlies);
    for (int i = 0; i < plies && !c.empty(); i++) {
        std::vector<ref::Move> lm = ref::legalMoves(g.pos.back());
        if (lm.empty()) break;
        if (i % 16 == 15 && c.chance(1, 3)) profile = c.pick(gen::NPROFILES);
        ref::Move m = pick15(c, g.pos.back(), lm, profile, g.pos);
        g.moves.push_back(m);
        g.pos.push_back(ref::make(g.pos.back(), m));
    }
    return g;
}

} // namespace

int main(int argc, char** argv) {
    vh::Args a = vh::parseArgs(argc, argv);
    vh::installDeathHooks();
    vh::Stats& st = vh::ctx().stats;
    Checker ck(st);
    int sweep = (int)a.num("sweep", 10);
    if (!a.replay.empty()) {
        return vh::runReplay([&](const std::string& sub, const Value& k) {
            gen::Game g;
            if (!gen::gameFrom(gen::seedFens()[0], k.strs("moves"), g)) vh::fail(k, "replay file does not describe a legal game from the standard start");
            ck.runGame(sub, g, sweep, k.getStr("last"));
        });
    }
    int maxPlies = (int)a.num("plies", 250);
    vh::runProp("games", a.cases, 6.0, [&](Choices& c) {
        gen::Game g = game15(c, maxPlies);
        ck.runGame("games", g, sweep, "");
        st.count("games");
    });
    return vh::finish();
}
