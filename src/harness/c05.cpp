// C05  UCI session contract: one bestmove per go, readyok, never crashes.
// Generated command scripts (G-session) against the real engine binary; oracle =
// transcript monitor automaton (sess::monitor).  See DESIGN.md §3 C05.
#include "common/vh.hpp"
#include "harness/session.hpp"

using vh::Value;
using vh::Choices;

namespace {

std::string gExe, gNet, gWork;
std::vector<sess::Option> gOpts;

std::vector<sess::Option> probeOptions() {
    uci::Engine e;
    e.start(gExe, {"TEXEL_VERIF_NET=" + gNet}, gWork + "/probe.err");
    e.send("uci");
    e.waitLine("uciok", 20000);
    std::vector<std::string> lines = e.received();
    e.send("quit");
    e.waitExit(10000);
    return sess::parseOptions(lines);
}

Value caseJson(const sess::Session& s, const sess::RunResult* r) {
    Value k = s.toJson();
    if (r) {
        Value a = Value::array();
        size_t start = r->log.size() > 300 ? r->log.size() - 300 : 0;
        for (size_t i = start; i < r->log.size(); i++) a.push(std::string(1, r->log[i].dir) + " " + r->log[i].line);
        k["transcript_tail"] = a;
        k["exit"] = r->exitDesc;
    }
    return k;
}

void classify(const sess::Session& s, const sess::RunResult& r, vh::Stats& st) {
    bool nt = false;
    auto mk = [&]() { Value v = Value::array(); for (auto& c : s.cmds) v.push(c.text); return v; };
    if (r.cmdsDuringSearch > 0) { nt = true; st.clsSample("command while searching", mk); }
    if (!s.cmds.empty() && s.cmds[0].kind != "uci" && s.cmds[0].kind != "isready") { nt = true; st.clsSample("first command is not uci/isready", mk); }
    bool seenGo = false, ponder = false, backToBack = false, quitDuring = false, eofDuring = false, oor = false, ponderhit = false;
    int pendingGo = 0;
    for (size_t i = 0; i < s.cmds.size(); i++) {
        const sess::Cmd& c = s.cmds[i];
        if (c.kind == "go") { if (seenGo && i > 0 && s.cmds[i - 1].kind == "go") backToBack = true; seenGo = true; if (c.goPonder) ponder = true; pendingGo++; }
        if (c.kind == "ponderhit" && ponder) ponderhit = true;
        if (c.kind == "setoption" && (c.text.find("value -") != std::string::npos || c.text.find("abc") != std::string::npos)) oor = true;
        if (c.kind == "quit" && i > 0 && s.cmds[i - 1].kind == "go") quitDuring = true;
        if (c.kind == "eof" && i > 0 && s.cmds[i - 1].kind == "go") eofDuring = true;
    }
    if (ponderhit) st.clsSample("ponder + ponderhit", mk);
    { bool ob = false; for (auto& c : s.cmds) { if (c.text.find("OwnBook value true") != std::string::npos) ob = true; if (ob && c.kind == "go" && (c.goPonder || c.goInfinite)) { st.clsSample("OwnBook + ponder/infinite go", mk); break; } } }
    { bool sr = false; for (size_t i = 0; i + 1 < s.cmds.size(); i++) if (s.cmds[i].kind == "ucinewgame") sr = true; if (sr && r.cmdsDuringSearch > 0) st.cls("ucinewgame in a session with commands during search"); }
    if (backToBack) st.clsSample("back-to-back go", mk);
    if (quitDuring) st.clsSample("quit right after go", mk);
    if (eofDuring) st.clsSample("EOF right after go", mk);
    if (oor) { nt = true; st.clsSample("out-of-range / non-numeric option value", mk); }
    if (nt) st.nt(vj::dump(s.toJson())); else st.cls("plain");
}

void runSession(const std::string& sub, const sess::Session& s, vh::Stats& st, int repeat) {
    for (int rep = 0; rep < repeat; rep++) {
        sess::RunCfg rc;
        rc.exe = gExe; rc.net = gNet; rc.stderrPath = gWork + "/engine.err";
        sess::RunResult r = sess::execute(s, rc);
        st.evaluations++;
        bool inc = false;
        std::string e = sess::monitor(s, r, inc);
        if (inc) { st.inconclusive++; continue; }
        if (rep == 0) classify(s, r, st);
        st.count("transcript lines", (long)r.log.size());
        if (!e.empty()) {
            if (r.hang || r.stillBusy) vh::ctx().shrinkBudget = std::min<long>(vh::ctx().shrinkBudget, 4); // every re-execution of a hang costs 45 s
            vh::fail(caseJson(s, &r), e);
        }
    }
}

} // namespace

int main(int argc, char** argv) {
    vh::Args a = vh::parseArgs(argc, argv);
    vh::installDeathHooks();
    vh::Stats& st = vh::ctx().stats;
    vh::ctx().shrinkBudget = a.num("shrink", 60);
    gExe = a.str("engine", "/verif/build/asan/bin/texel");
    gNet = a.str("net", "/verif/build/nets/material-1.net");
    gWork = "/tmp/verif-c05-" + std::to_string(getpid());
    if (system(("mkdir -p " + gWork).c_str())) {}
    int rcode = 0;
    if (!a.replay.empty()) {
        rcode = vh::runReplay([&](const std::string& sub, const Value& k) {
            sess::Session s = sess::Session::fromJson(k);
            runSession(sub, s, st, (int)a.num("repeat", 5));
        });
    } else {
        gOpts = probeOptions();
        if (gOpts.size() < 10) { fprintf(stderr, "c05: could not read the engine's option list\n"); return 2; }
        long n = a.cases;
        sess::GenCfg cfg;
        cfg.maxThreads = (int)a.num("max-threads", 16);
        cfg.maxHash = (int)a.num("max-hash", 256);
        vh::runProp("sessions", n * 7 / 10, 3.0, [&](Choices& c) {
            sess::Session s = sess::genSession(c, gOpts, cfg);
            runSession("sessions", s, st, 1);
        }, -1, 10);
        sess::GenCfg flood = cfg;
        flood.floodIsready = true; flood.maxCmds = 120;
        vh::runProp("isready-flood", n - n * 7 / 10, 4.0, [&](Choices& c) {
            sess::Session s;
            // MultiPV search + flood of isready while it runs
            sess::Cmd c1; c1.kind = "setoption"; c1.text = "setoption name MultiPV value " + std::to_string(c.range(2, 5)); s.cmds.push_back(c1);
            sess::Session rest = sess::genSession(c, gOpts, flood);
            for (auto& x : rest.cmds) s.cmds.push_back(x);
            runSession("isready-flood", s, st, 1);
        });
        rcode = vh::finish();
    }
    if (system(("rm -rf " + gWork).c_str())) {}
    return rcode;
}
