// Small session layer over uci::Engine used by C04 and C13: start the real engine binary with a
// synthetic net, set options, run one search ("go depth d" or "go infinite" + paced "stop") and
// return the parsed info lines and the bestmove.  No assertions here.
#pragma once
#include "common/uci.hpp"
#include <functional>
#include <string>
#include <vector>

namespace us {

struct Line { uci::Info inf; std::string raw; };
struct Result {
    bool answered = false;   // a bestmove line arrived
    bool died = false;       // engine process ended while an answer was owed
    bool timeout = false;    // no answer within the (generous) limit: inconclusive
    bool triggered = false;  // go infinite: the pacing event was seen before "stop"
    std::string why;
    std::vector<Line> pv;    // "info depth .. score .." lines in order
    std::string best, ponder;
    int maxDepthStarted = 0; // largest "info depth N" (iteration start) seen
};

struct Session {
    uci::Engine e;
    std::string exe, net, errFile;
    bool up = false;

    bool start(const std::string& exePath, const std::string& netPath, const std::string& workDir,
               const std::vector<std::pair<std::string, std::string>>& opts, int timeoutMs = 60000) {
        exe = exePath; net = netPath; errFile = workDir + "/engine.err";
        if (!e.start(exe, {"TEXEL_VERIF_NET=" + net}, errFile)) return false;
        e.send("uci");
        if (e.waitLine("uciok", timeoutMs) < 0) return false;
        for (auto& o : opts) e.send("setoption name " + o.first + " value " + o.second);
        e.send("isready");
        if (e.waitLine("readyok", timeoutMs) < 0) return false;
        up = true;
        return true;
    }
    void setOption(const std::string& n, const std::string& v) { e.send("setoption name " + n + " value " + v); }

    void collect(size_t from, int bi, Result& r) {
        for (size_t i = from; i < (size_t)bi; i++) {
            if (e.log[i].dir != '<') continue;
            const std::string& l = e.log[i].line;
            uci::Kind k = uci::classify(l);
            if (k == uci::K_INFO_PV) { Line ln; ln.raw = l; uci::parseInfo(l, ln.inf); r.pv.push_back(ln); }
            else if (k == uci::K_INFO_DEPTH) { uci::Info inf; uci::parseInfo(l, inf); r.maxDepthStarted = std::max(r.maxDepthStarted, inf.depth); }
        }
        std::vector<std::string> t = uci::split(e.log[(size_t)bi].line);
        if (t.size() >= 2) r.best = t[1];
        if (t.size() >= 4) r.ponder = t[3];
        r.answered = true;
    }
    bool prepare(const std::string& fen, Result& r, int timeoutMs) {
        e.send("position fen " + fen);
        e.send("isready");
        if (e.waitLine("readyok", timeoutMs) < 0) {
            if (e.tryReap()) { r.died = true; r.why = "engine died before the search: " + e.exitDesc() + " " + e.stderrText(600); }
            else r.timeout = true;
            return false;
        }
        return true;
    }
    void trim() { // keep the transcript bounded (searches print thousands of currmove lines)
        if (e.log.size() > 60000) { e.log.erase(e.log.begin(), e.log.end() - 2000); e.scanPos = e.log.size(); }
    }

    Result goDepth(const std::string& fen, int depth, int timeoutMs) {
        Result r;
        trim();
        if (!prepare(fen, r, timeoutMs)) return r;
        size_t from = e.log.size();
        e.send("go depth " + std::to_string(depth));
        e.scanPos = from;
        int bi = e.waitPrefix("bestmove", timeoutMs);
        if (bi < 0) {
            if (e.tryReap()) { r.died = true; r.why = "engine died during the search: " + e.exitDesc() + " " + e.stderrText(600); }
            else r.timeout = true;
            return r;
        }
        collect(from, bi, r);
        return r;
    }

    // go infinite; wait until trigger(line) holds for some received line (or waitMs passed), then stop.
    Result goInfinite(const std::string& fen, const std::function<bool(const std::string&)>& trigger, int waitMs, int timeoutMs) {
        Result r;
        trim();
        if (!prepare(fen, r, timeoutMs)) return r;
        size_t from = e.log.size();
        e.send("go infinite");
        e.scanPos = from;
        int ti = e.waitFor([&](const std::string& l) { return l.rfind("bestmove", 0) == 0 || trigger(l); }, waitMs);
        if (ti >= 0 && e.log[(size_t)ti].line.rfind("bestmove", 0) != 0) r.triggered = true;
        if (ti < 0 && e.tryReap()) { r.died = true; r.why = "engine died during the search: " + e.exitDesc() + " " + e.stderrText(600); return r; }
        e.send("stop");
        e.scanPos = from;
        int bi = e.waitPrefix("bestmove", timeoutMs);
        if (bi < 0) {
            if (e.tryReap()) { r.died = true; r.why = "engine died during the search: " + e.exitDesc() + " " + e.stderrText(600); }
            else r.timeout = true;
            return r;
        }
        collect(from, bi, r);
        return r;
    }

    // quit; returns "" or a description of an unclean end (non-zero exit, signal, sanitizer report)
    std::string finish(bool& inconclusive) {
        if (!up) { e.kill(); return ""; }
        e.send("quit");
        if (!e.waitExit(30000)) { inconclusive = true; e.kill(); return ""; }
        std::string err;
        if (!e.exitedCleanly()) err = "engine ended with " + e.exitDesc() + " " + e.stderrText(600);
        else { std::string se = e.stderrText(); if (se.find("Sanitizer") != std::string::npos || se.find("runtime error:") != std::string::npos) err = "sanitizer report: " + se.substr(0, 800); }
        return err;
    }
    vj::Value tail(size_t n = 60) const {
        vj::Value a = vj::Value::array();
        size_t cnt = 0;
        std::vector<std::string> keep;
        for (size_t i = e.log.size(); i-- > 0 && cnt < n;) {
            const std::string& l = e.log[i].line;
            if (l.rfind("info currmove", 0) == 0 || l.rfind("info string", 0) == 0 || l.rfind("option ", 0) == 0) continue;
            keep.push_back(std::string(1, e.log[i].dir) + " " + l.substr(0, 220)); cnt++;
        }
        for (size_t i = keep.size(); i-- > 0;) a.push(keep[i]);
        return a;
    }
};

} // namespace us
