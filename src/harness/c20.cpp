// C20  The rank-constraint solver decides satisfiability exactly.
// SUT: CspSolver (lib/texelutillib/pg/cspsolver.{hpp,cpp}, bitSet.hpp) through its public API only.
// Oracle: three independent deciders over explicit domain lists
//   (1) plain static-order backtracking with full constraint checks, run to completion (no propagation),
//   (2) brute-force enumeration of the whole cartesian product (when it is small enough),
//   (3) support-based arc consistency + "take the maximum of every domain" (exact for x<=y+c constraints,
//       because they are max-closed; the witness is re-checked, so a "sat" answer is self-certifying).
// The three must agree among themselves (otherwise the harness aborts with ORACLE-DISAGREE, exit 3, no verdict);
// solve() must agree with them and every assignment it returns must satisfy every range, parity and constraint.
// See DESIGN.md §3 C20 and notes/C20.md.
#include "common/vh.hpp"
#include "cspsolver.hpp"
#include <algorithm>
#include <sstream>
#include <sys/time.h>

using vh::Value;
using vh::Choices;

namespace {

constexpr int WLO = -16, WHI = 47;       // documented value window of CspSolver::addVariable
constexpr int MAXCONS = 192;             // ConstrSet capacity (assert in solve())

enum Kind { VAR, EVEN, ODD, MINV, MAXV, LE, GE, EQ, SOLVE };
const char* const kindName[] = {"var", "even", "odd", "min", "max", "le", "ge", "eq", "solve"};
const char* const prefName[] = {"SMALL", "LARGE", "MIDDLE_SMALL", "MIDDLE_LARGE"};

// VAR: a=pref b=min c=max | EVEN/ODD: a=var | MINV/MAXV: a=var b=value | LE/GE/EQ: a=v1 b=v2 c=offset | SOLVE
struct Op { Kind k; int a, b, c; };
Op mk(Kind k, int a = 0, int b = 0, int c = 0) { return Op{k, a, b, c}; }

const char* const FORMAT = "ops in API call order: [var,pref,min,max] [even|odd,v] [min|max,v,x] [le|ge|eq,v1,v2,c] means v1 OP v2+c; [solve]";
// The case is rendered straight into a string (one per generated case, so it has to be cheap); it is parsed back
// into a Value only when a failure has to be reported.
std::string opsArrayStr(const std::vector<Op>& ops) {
    std::string s = "[";
    char buf[96];
    for (size_t i = 0; i < ops.size(); i++) {
        const Op& o = ops[i];
        if (i) s += ',';
        switch (o.k) {
        case VAR: snprintf(buf, sizeof buf, "[\"var\",\"%s\",%d,%d]", prefName[o.a], o.b, o.c); break;
        case EVEN: case ODD: snprintf(buf, sizeof buf, "[\"%s\",%d]", kindName[o.k], o.a); break;
        case MINV: case MAXV: snprintf(buf, sizeof buf, "[\"%s\",%d,%d]", kindName[o.k], o.a, o.b); break;
        case LE: case GE: case EQ: snprintf(buf, sizeof buf, "[\"%s\",%d,%d,%d]", kindName[o.k], o.a, o.b, o.c); break;
        default: snprintf(buf, sizeof buf, "[\"solve\"]"); break;
        }
        s += buf;
    }
    return s + "]";
}
std::string caseStr(const std::vector<Op>& ops) { return "{\"ops\":" + opsArrayStr(ops) + ",\"format\":\"" + FORMAT + "\"}"; }
struct Kase {                       // lazily materialised JSON value of the running case
    std::string json;
    operator Value() const { return vj::parse(json); }
};

bool opsFromJson(const Value& k, std::vector<Op>& ops) {
    const Value* arr = k.find("ops");
    if (!arr) return false;
    for (auto& e : arr->a) {
        if (e.a.empty()) return false;
        int kind = -1;
        for (int i = 0; i <= SOLVE; i++) if (e.a[0].s == kindName[i]) kind = i;
        if (kind < 0) return false;
        Op o = mk((Kind)kind);
        auto num = [&](size_t i) { return i < e.a.size() ? (int)e.a[i].num() : 0; };
        if (kind == VAR) {
            o.a = 0;
            for (int p = 0; p < 4; p++) if (e.a.size() > 1 && e.a[1].s == prefName[p]) o.a = p;
            o.b = num(2); o.c = num(3);
        } else { o.a = num(1); o.b = num(2); o.c = num(3); }
        ops.push_back(o);
    }
    return true;
}

// ---- reference model: explicit domain lists + constraints in the caller's own terms -----------
struct Con { int v1; Kind op; int v2; int c; };
inline bool holds(const Con& k, int x1, int x2) {
    switch (k.op) {
    case LE: return x1 <= x2 + k.c;
    case GE: return x1 >= x2 + k.c;
    default: return x1 == x2 + k.c;
    }
}

struct Model {
    std::vector<std::vector<int>> dom; // ascending
    std::vector<Con> cons;
    int solverCons = 0;                // how many ConstrSet slots the solver needs (eq = 2)
    bool parity = false, tighten = false, selfCon = false, emptyInit = false;
    // returns false when the op violates a documented precondition (only possible in hand-edited replay files)
    bool apply(const Op& o) {
        int n = (int)dom.size();
        auto filt = [&](int v, const std::function<bool(int)>& keep) {
            std::vector<int> r;
            for (int x : dom[v]) if (keep(x)) r.push_back(x);
            dom[v].swap(r);
        };
        switch (o.k) {
        case VAR: {
            if (o.a < 0 || o.a > 3 || o.b < WLO || o.b > WHI || o.c < WLO || o.c > WHI) return false;
            std::vector<int> d;
            for (int x = o.b; x <= o.c; x++) d.push_back(x);
            if (d.empty()) emptyInit = true;
            dom.push_back(d);
            return true;
        }
        case EVEN: if (o.a < 0 || o.a >= n) return false; parity = true; filt(o.a, [](int x) { return ((x % 2) + 2) % 2 == 0; }); return true;
        case ODD: if (o.a < 0 || o.a >= n) return false; parity = true; filt(o.a, [](int x) { return ((x % 2) + 2) % 2 == 1; }); return true;
        case MINV: if (o.a < 0 || o.a >= n || o.b < WLO || o.b > WHI) return false; tighten = true; filt(o.a, [&](int x) { return x >= o.b; }); return true;
        case MAXV: if (o.a < 0 || o.a >= n || o.b < WLO || o.b > WHI) return false; tighten = true; filt(o.a, [&](int x) { return x <= o.b; }); return true;
        case LE: case GE: case EQ:
            if (o.a < 0 || o.a >= n || o.b < 0 || o.b >= n || o.c < -1000 || o.c > 1000) return false;
            solverCons += o.k == EQ ? 2 : 1;
            if (solverCons > MAXCONS) return false;
            if (o.a == o.b) selfCon = true;
            cons.push_back(Con{o.a, o.k, o.b, o.c});
            return true;
        case SOLVE: return true;
        }
        return false;
    }
    double product() const { double p = 1; for (auto& d : dom) p *= (double)d.size(); return p; }
    bool check(const std::vector<int>& val, std::string* why = nullptr) const {
        for (auto& k : cons) if (!holds(k, val[k.v1], val[k.v2])) {
            if (why) *why = "constraint v" + std::to_string(k.v1) + " " + kindName[k.op] + " v" + std::to_string(k.v2) + "+" + std::to_string(k.c);
            return false;
        }
        return true;
    }
};

// (1) plain backtracking, variable order 0..n-1, values ascending, a constraint is tested as soon as both of its
// variables are assigned.  Runs the *whole* tree (does not stop at a solution), so `tried` is also an upper bound for
// the work of any static-order chronological backtracking inside the original domains -- it is the size bound that
// keeps every case cheap for the solver under test, whatever value order it uses.
struct Dfs { bool complete = true; long tried = 0, solutions = 0; std::vector<int> first; };
struct DfsRun {
    const Model& m; long budget; Dfs r; std::vector<int> val; std::vector<std::vector<int>> at;
    DfsRun(const Model& m, long budget) : m(m), budget(budget) {
        int n = (int)m.dom.size();
        val.assign(n, 0); at.resize(n);
        for (size_t i = 0; i < m.cons.size(); i++) at[std::max(m.cons[i].v1, m.cons[i].v2)].push_back((int)i);
    }
    void rec(int v) {
        int n = (int)m.dom.size();
        if (v == n) { if (r.solutions++ == 0) r.first = val; return; }
        for (int x : m.dom[v]) {
            if (++r.tried > budget) { r.complete = false; return; }
            val[v] = x;
            bool ok = true;
            for (int ci : at[v]) { const Con& k = m.cons[ci]; if (!holds(k, val[k.v1], val[k.v2])) { ok = false; break; } }
            if (ok) { rec(v + 1); if (!r.complete) return; }
        }
    }
};
Dfs dfs(const Model& m, long budget) { DfsRun d(m, budget); d.rec(0); return d.r; }

// (2) brute force: odometer over the full product, every constraint evaluated on every complete assignment.
int bruteForce(const Model& m) { // 1 sat, 0 unsat
    int n = (int)m.dom.size();
    for (auto& d : m.dom) if (d.empty()) return 0;
    std::vector<size_t> idx(n, 0);
    std::vector<int> val(n);
    for (;;) {
        for (int i = 0; i < n; i++) val[i] = m.dom[i][idx[i]];
        if (m.check(val)) return 1;
        int i = n - 1;
        while (i >= 0 && ++idx[i] == m.dom[i].size()) idx[i--] = 0;
        if (i < 0) return 0;
    }
}

// (3) arc consistency by explicit support search; `skip` = index of a constraint to leave out (-1 none).
bool acSat(const Model& m, int skip, bool* internalError = nullptr) {
    std::vector<std::vector<int>> d = m.dom;
    for (auto& x : d) if (x.empty()) return false;
    bool changed = true;
    while (changed) {
        changed = false;
        for (size_t ci = 0; ci < m.cons.size(); ci++) {
            if ((int)ci == skip) continue;
            const Con& k = m.cons[ci];
            if (k.v1 == k.v2) {
                std::vector<int> r;
                for (int a : d[k.v1]) if (holds(k, a, a)) r.push_back(a);
                if (r.size() != d[k.v1].size()) { d[k.v1].swap(r); changed = true; if (d[k.v1].empty()) return false; }
                continue;
            }
            std::vector<int> r1, r2;
            for (int a : d[k.v1]) for (int b : d[k.v2]) if (holds(k, a, b)) { r1.push_back(a); break; }
            if (r1.size() != d[k.v1].size()) { d[k.v1].swap(r1); changed = true; if (d[k.v1].empty()) return false; }
            for (int b : d[k.v2]) for (int a : d[k.v1]) if (holds(k, a, b)) { r2.push_back(b); break; }
            if (r2.size() != d[k.v2].size()) { d[k.v2].swap(r2); changed = true; if (d[k.v2].empty()) return false; }
        }
    }
    std::vector<int> w;
    for (auto& x : d) w.push_back(x.back());
    for (size_t ci = 0; ci < m.cons.size(); ci++) {
        if ((int)ci == skip) continue;
        const Con& k = m.cons[ci];
        if (!holds(k, w[k.v1], w[k.v2])) { if (internalError) *internalError = true; return true; }
    }
    return true;
}

// ---- structure of the difference graph (classification only) -------------------------------------
struct Graph { bool cycle = false, scc3 = false, negCycle = false; };
Graph graphOf(const Model& m) {
    Graph g;
    int n = (int)m.dom.size();
    if (n == 0) return g;
    const long INF = 1L << 40;
    std::vector<std::vector<long>> d(n, std::vector<long>(n, INF));
    auto edge = [&](int from, int to, long w) { if (from != to && w < d[from][to]) d[from][to] = w; };
    bool negSelf = false;
    for (auto& k : m.cons) {
        if (k.v1 == k.v2) { if ((k.op == LE && k.c < 0) || (k.op == GE && k.c > 0) || (k.op == EQ && k.c != 0)) negSelf = true; continue; }
        if (k.op == LE || k.op == EQ) edge(k.v2, k.v1, k.c);   // v1 - v2 <= c
        if (k.op == GE || k.op == EQ) edge(k.v1, k.v2, -k.c);  // v2 - v1 <= -c
    }
    for (int k = 0; k < n; k++) for (int i = 0; i < n; i++) if (d[i][k] < INF) for (int j = 0; j < n; j++)
        if (d[k][j] < INF && d[i][k] + d[k][j] < d[i][j]) d[i][j] = std::max(-INF, d[i][k] + d[k][j]);
    for (int i = 0; i < n; i++) {
        if (d[i][i] < INF) g.cycle = true;
        if (d[i][i] < 0) g.negCycle = true;
        int peers = 0;
        for (int j = 0; j < n; j++) if (j != i && d[i][j] < INF && d[j][i] < INF) peers++;
        if (peers >= 2) g.scc3 = true;
    }
    if (negSelf) g.negCycle = true;
    return g;
}

// ---- hang watchdog (CPU time, not wall clock) ------------------------------------------------------
// A correct solver needs at most `tried` (<= budget) value trials for any case we generate, i.e. well under 10 ms.
// If one solve() call burns >= 10 s CPU the shard saves the case, counts it as inconclusive and stops (DESIGN §1:
// an exhausted budget is never a violation).  This only matters for mutants that loop forever.
volatile sig_atomic_t gInSut = 0;
volatile long gSerial = 0;
long gLastSerial = -1;
int gSameTicks = 0;
void onTick(int) {
    if (!gInSut) { gSameTicks = 0; gLastSerial = -1; return; }
    if (gSerial == gLastSerial) gSameTicks++; else { gLastSerial = gSerial; gSameTicks = 0; }
    if (gSameTicks < 2) return;
    vh::Ctx& c = vh::ctx();
    vh::Current& cur = vh::current();
    c.stats.inconclusive++;
    c.stats.count("hang: solve() did not return within 10 s CPU (case saved)");
    if (cur.active) {
        std::string fn = c.args.foundDir + "/" + c.args.prop + "-" + cur.sub + "-hang-" + std::to_string(c.args.seed) + "-" + std::to_string(c.args.shard) + ".json";
        FILE* f = fopen(fn.c_str(), "w");
        if (f) { fprintf(f, "{\"property\":\"%s\",\"sub\":\"%s\",\"message\":\"inconclusive: solve() did not return within 10 s CPU\",\"case\":%s}\n", c.args.prop.c_str(), cur.sub.c_str(), cur.kaseJson.c_str()); fclose(f); }
        printf("HANG property=%s case=%s (inconclusive, shard stops)\n", c.args.prop.c_str(), fn.c_str());
    }
    vh::writePart();
    fflush(stdout);
    _exit(c.violations.empty() ? 0 : 1);
}
void startWatchdog() {
    signal(SIGVTALRM, onTick);
    struct itimerval it; it.it_interval.tv_sec = 5; it.it_interval.tv_usec = 0; it.it_value = it.it_interval;
    setitimer(ITIMER_VIRTUAL, &it, nullptr);
}

[[noreturn]] void oracleDisagree(const Kase& kase, const std::string& what) {
    fprintf(stderr, "ORACLE-DISAGREE (harness defect, no verdict): %s\n%s\n", what.c_str(), kase.json.c_str());
    fflush(stderr);
    _exit(3);
}

// ---- pass 1: make the case affordable (by construction, from the choice stream) ---------------------
// Before every SOLVE the full static-order search tree over the current domains must have <= budget value trials;
// otherwise the widest domains are halved with addMaxVal/addMinVal calls (which become part of the concrete case).
struct Fitted { std::vector<Op> ops; std::vector<Dfs> ref; bool ok = true; int narrowed = 0; };
Fitted fit(const std::vector<Op>& in, Choices* ch, long budget) {
    Fitted f;
    Model m;
    for (auto& o : in) {
        if (o.k == SOLVE) {
            Dfs r;
            for (int iter = 0;; iter++) {
                r = dfs(m, budget);
                if (r.complete || !ch || iter > 80) break;
                size_t big = 0;
                for (auto& d : m.dom) big = std::max(big, d.size());
                if (big <= 1) break;
                for (size_t v = 0; v < m.dom.size(); v++) {
                    auto& d = m.dom[v];
                    if (d.size() * 2 <= big || d.size() < 2) continue;
                    size_t mid = (d.size() - 1) / 2;            // keep d[0..mid] or d[mid+1..]
                    Op t = ch->flip() ? mk(MINV, (int)v, d[mid + 1]) : mk(MAXV, (int)v, d[mid]);
                    m.apply(t);
                    f.ops.push_back(t);
                    f.narrowed++;
                }
            }
            if (!r.complete) f.ok = false;
            f.ref.push_back(r);
            f.ops.push_back(o);
            continue;
        }
        if (!m.apply(o)) { f.ok = false; return f; }
        f.ops.push_back(o);
    }
    return f;
}

// ---- pass 2: run the concrete case against the solver -------------------------------------------------
struct RunCfg { double bfLimit = 4096; long budget = 20000; bool classify = true; };

void runCase(const std::string& sub, const std::string& shape, const std::vector<Op>& ops, const std::vector<Dfs>* cached, const RunCfg& cfg, vh::Stats& st) {
    Kase kase{caseStr(ops)};
    { vh::Current& cur = vh::current(); cur.sub = sub; cur.kaseJson = kase.json; cur.active = true; }
    gSerial++;
    Model m;
    std::ostringstream log;
    CspSolver csp(log, true);
    std::vector<int> prefs;
    int solveNo = 0;
    bool anyNt = false;
    for (size_t oi = 0; oi < ops.size(); oi++) {
        const Op& o = ops[oi];
        if (!m.apply(o)) { st.discarded++; vh::clearCurrent(); return; } // precondition violated (edited replay file)
        switch (o.k) {
        case VAR: {
            int id = csp.addVariable((CspSolver::PrefVal)o.a, o.b, o.c);
            prefs.push_back(o.a);
            if (id != (int)m.dom.size() - 1) vh::fail(kase, "addVariable returned id " + std::to_string(id) + " for variable number " + std::to_string(m.dom.size() - 1));
            break;
        }
        case EVEN: csp.makeEven(o.a); break;
        case ODD: csp.makeOdd(o.a); break;
        case MINV: csp.addMinVal(o.a, o.b); break;
        case MAXV: csp.addMaxVal(o.a, o.b); break;
        case LE: csp.addIneq(o.a, CspSolver::LE, o.b, o.c); break;
        case GE: csp.addIneq(o.a, CspSolver::GE, o.b, o.c); break;
        case EQ: csp.addEq(o.a, o.b, o.c); break;
        case SOLVE: {
            int n = (int)m.dom.size();
            Dfs ref = (cached && solveNo < (int)cached->size()) ? (*cached)[solveNo] : dfs(m, cfg.budget);
            if (!ref.complete) { st.inconclusive++; st.count("skipped: reference search tree above the size budget"); solveNo++; break; }
            bool refSat = ref.solutions > 0;
            if (refSat && !m.check(ref.first)) oracleDisagree(kase, "backtracking reference produced an invalid solution");
            bool acErr = false;
            bool ac = acSat(m, -1, &acErr);
            if (acErr) oracleDisagree(kase, "arc-consistency witness invalid");
            if (ac != refSat) oracleDisagree(kase, std::string("backtracking says ") + (refSat ? "sat" : "unsat") + ", arc consistency says " + (ac ? "sat" : "unsat"));
            st.count("oracle: backtracking + arc-consistency agreed");
            if (m.product() <= cfg.bfLimit) {
                int bf = bruteForce(m);
                if ((bf == 1) != refSat) oracleDisagree(kase, std::string("backtracking says ") + (refSat ? "sat" : "unsat") + ", brute force says " + (bf ? "sat" : "unsat"));
                st.count(m.product() > 4096 ? "oracle: brute force cross-check (product 4097..1e6)" : "oracle: brute force cross-check (product <= 4096)");
            }
            // --- the solver under test
            std::vector<int> values((oi + (size_t)n) % 3, 12345); // stale content must be replaced
            gInSut = 1;
            bool got = csp.solve(values);
            gInSut = 0;
            st.count("solves");
            std::string where = "solve #" + std::to_string(solveNo + 1) + " (" + std::to_string(n) + " variables, " + std::to_string(m.solverCons) + " constraints): ";
            if (got != refSat)
                vh::fail(kase, where + "solve() returned " + (got ? "true" : "false") + " but the system is " +
                               (refSat ? "satisfiable, e.g. " + vj::dump(Value::arrayOf(ref.first)) : "unsatisfiable (exhaustive search, " + std::to_string(ref.tried) + " value trials)"));
            if (got) {
                if ((int)values.size() != n) vh::fail(kase, where + "solve() returned " + std::to_string(values.size()) + " values");
                for (int v = 0; v < n; v++)
                    if (!std::binary_search(m.dom[v].begin(), m.dom[v].end(), values[v]))
                        vh::fail(kase, where + "returned v" + std::to_string(v) + "=" + std::to_string(values[v]) + " which is outside the variable's range/parity/min/max restrictions; returned " + vj::dump(Value::arrayOf(values)));
                std::string why;
                if (!m.check(values, &why)) vh::fail(kase, where + "returned assignment " + vj::dump(Value::arrayOf(values)) + " violates " + why);
            }
            // --- classification (reference side only)
            if (cfg.classify) {
                Graph g = graphOf(m);
                bool critical = false;
                if (!refSat) {
                    size_t lim = std::min<size_t>(m.cons.size(), 64);
                    for (size_t ci = 0; ci < lim && !critical; ci++) if (acSat(m, (int)ci)) critical = true;
                }
                bool nt = g.cycle || critical;
                anyNt = anyNt || nt;
                st.cls(refSat ? "sat" : "unsat");
                if (g.cycle) st.cls("directed cycle in the difference graph");
                if (g.scc3) st.cls("strongly connected component >= 3 variables");
                if (g.negCycle) st.cls("negative cycle (unsat whatever the domains)");
                if (critical) st.cls("unsat, satisfiable after removing one constraint");
                if (!refSat && !g.negCycle && !m.emptyInit) st.cls("unsat through domains/parity only");
                if (m.emptyInit) st.cls("empty initial domain");
                if (refSat && ref.solutions == 1) st.cls("exactly one solution");
                if (m.parity) st.cls("parity restriction");
                if (m.tighten) st.cls("min/max tightening");
                if (m.selfCon) st.cls("self constraint v OP v+c");
                if (m.solverCons > 25) st.cls("> 25 constraints");
                if (m.solverCons > 100) st.cls("> 100 constraints");
                if (m.solverCons == MAXCONS) st.cls("exactly 192 constraints (capacity)");
                if (n > 10) st.cls("> 10 variables");
                if (solveNo > 0) st.cls("re-solve after further calls");
                bool edge = false, mid = false;
                for (auto& d : m.dom) if (!d.empty() && (d.front() == WLO || d.back() == WHI)) edge = true;
                for (int p : prefs) if (p >= 2) mid = true;
                if (edge) st.cls("domain touches the window edge -16/47");
                if (mid) st.cls("MIDDLE_* preference");
                U64 nodes = csp.getNumNodes();
                if (got && nodes > (U64)n) st.cls("solver had to backtrack");
                bool someEmpty = false;
                for (auto& d : m.dom) if (d.empty()) someEmpty = true;
                if (!got && nodes > 0 && !someEmpty && !m.selfCon && solveNo == 0 && getenv("C20_DEBUG")) fprintf(stderr, "SEARCH-UNSAT %s\n", kase.json.c_str());
                if (!got && nodes > 0 && !someEmpty && !m.selfCon && solveNo == 0) st.count("info: unsat with all domains non-empty detected by search, not by propagation");
                st.cls(std::string("shape/") + shape + (refSat ? ": sat" : ": unsat"));
                st.count("info: solver search nodes", (long)nodes);
            }
            solveNo++;
            break;
        }
        }
    }
    if (cfg.classify) {
        st.cls("shape: " + shape);
        auto sample = [&]() { return (Value)kase; };
        if (anyNt) { st.nt(opsArrayStr(ops)); st.clsSample("non-trivial", sample); }
        else st.clsSample("trivial (acyclic and not critically unsat)", sample);
    }
    vh::clearCurrent();
}

// ---- generators ------------------------------------------------------------------------------------
struct GenCfg { int maxVars = 10; int maxCons = 25; bool big = false; };

int zz(Choices& c, int maxAbs) { int k = c.pick(2 * maxAbs + 1); return (k & 1) ? -(k + 1) / 2 : k / 2; }
int wpick(Choices& c, std::initializer_list<int> w) {
    int tot = 0; for (int x : w) tot += x;
    int r = c.pick(tot), i = 0;
    for (int x : w) { if (r < x) return i; r -= x; i++; }
    return 0;
}
int clampW(int x) { return std::max(WLO, std::min(WHI, x)); }

void genRange(Choices& c, int style, int& lo, int& hi) {
    switch (style) {
    case 0: lo = 1; hi = 6; break;
    case 1: lo = -6; hi = 13; break;
    case 2: lo = WLO; hi = WHI; break;
    case 3: lo = c.range(WLO, WHI); hi = c.range(lo, WHI); break;
    case 4: lo = hi = c.range(1, 6); break;
    case 5: lo = c.range(WLO, WHI - 3); hi = lo + c.range(1, 3); break;
    case 6: lo = WLO; hi = WLO + c.pick(8); break;
    case 7: hi = WHI; lo = WHI - c.pick(8); break;
    default: lo = c.range(WLO + 1, WHI); hi = c.range(WLO, lo - 1); break; // empty (the repo's own test does this)
    }
}
int genOffset(Choices& c) {
    switch (wpick(c, {14, 4, 2})) {
    case 0: return zz(c, 3);
    case 1: return zz(c, 10);
    default: return zz(c, 70);
    }
}

struct Builder {
    std::vector<Op> ops; int nVars = 0, cons = 0; int maxCons; std::vector<std::pair<int, int>> rng;
    explicit Builder(int maxCons) : maxCons(std::min(maxCons, MAXCONS)) {}
    int var(int pref, int lo, int hi) { ops.push_back(mk(VAR, pref, lo, hi)); rng.push_back({lo, hi}); return nVars++; }
    bool con(Kind k, int v1, int v2, int c) {
        int need = k == EQ ? 2 : 1;
        if (cons + need > maxCons || nVars == 0) return false;
        cons += need; ops.push_back(mk(k, v1, v2, c)); return true;
    }
    void un(Kind k, int v, int x = 0) { if (nVars) ops.push_back(mk(k, v, k == MINV || k == MAXV ? clampW(x) : 0)); }
};

void genRandomCons(Choices& c, Builder& b, int m) {
    for (int i = 0; i < m; i++) {
        int v1 = c.pick(b.nVars), v2 = c.pick(b.nVars);
        if (v1 == v2 && c.pick(8) != 7) v2 = (v1 + 1 + c.pick(std::max(1, b.nVars - 1))) % b.nVars;
        Kind k = (Kind)(LE + wpick(c, {2, 2, 1}));
        if (!b.con(k, v1, v2, genOffset(c))) break;
    }
}
void genUnary(Choices& c, Builder& b, int parityPct, int tightenPct) {
    for (int v = 0; v < b.nVars; v++) {
        if (c.pick(100) < parityPct) { b.un(c.flip() ? ODD : EVEN, v); if (c.pick(40) == 39) b.un(c.flip() ? ODD : EVEN, v); }
        int t = c.pick(100) < tightenPct ? 1 + c.pick(2) : 0;
        for (int i = 0; i < t; i++) {
            int lo = b.rng[v].first, hi = b.rng[v].second;
            bool mx = c.flip();
            int a0 = std::min(lo, hi), a1 = std::max(lo, hi), mid2 = (a0 + a1) / 2;
            int x = c.pick(8) != 7 ? (mx ? c.range(mid2, a1 + 1) : c.range(a0 - 1, mid2)) : c.range(WLO, WHI);
            b.un(mx ? MAXV : MINV, v, x);
        }
    }
}
int genPref(Choices& c, int mode) { return mode < 4 ? mode : c.pick(4); }

void shapeRandom(Choices& c, Builder& b, const GenCfg& g) {
    int n = 1 + c.pick(g.maxVars);
    int sys = wpick(c, {3, 2, 1, 1, 1});
    int prefMode = c.pick(6);
    bool empties = c.pick(20) == 19;
    for (int v = 0; v < n; v++) {
        int style = sys == 0 ? wpick(c, {6, 2, 3, 6, 3, 5, 2, 2, empties ? 3 : 0}) : sys == 1 ? 0 : sys == 2 ? 2 : sys == 3 ? 5 : 3;
        int lo, hi; genRange(c, style, lo, hi);
        b.var(genPref(c, prefMode), lo, hi);
    }
    int msel = c.pick(4);
    int m = g.big ? c.range(20, g.maxCons) : msel == 0 ? c.pick(4) : msel == 1 ? c.pick(9) : msel == 2 ? c.pick(2 * n + 1) : c.pick(g.maxCons + 1);
    int order = c.pick(3);
    if (order == 0) { genUnary(c, b, 20, 20); genRandomCons(c, b, m); }
    else if (order == 1) { genRandomCons(c, b, m); genUnary(c, b, 20, 20); }
    else { genRandomCons(c, b, m / 2); genUnary(c, b, 20, 20); genRandomCons(c, b, m - m / 2); }
}

// Systems shaped like ExtProofKernel::findExtKernel builds them: one singleton variable per initial pawn, a new
// [1,6] variable per pawn move chained by >= / <= to the pawn's previous variable, y' = y +- 1 for captures,
// equality with the captured pawn, parity for bishop captures, 6/6 or 1/1 for promotions, [-6,13] variables for
// pushes on the target file, "var1 <= var2 - 1" between neighbours on a file, goal bounds at the end.
void shapeKernel(Choices& c, Builder& b, const GenCfg& g) {
    struct Pawn { bool white; int col; int y; std::vector<int> vars; };
    std::vector<Pawn> pawns;
    int maxVars = g.maxVars + 4;
    auto addVar = [&](Pawn& p, int id, bool ineq) {
        p.vars.push_back(id);
        size_t n = p.vars.size();
        if (ineq && n >= 2) b.con(p.white ? GE : LE, p.vars[n - 1], p.vars[n - 2], 0);
    };
    int np = 2 + c.pick(4);
    for (int i = 0; i < np; i++) {
        Pawn p; p.white = !c.flip(); p.col = c.pick(3); p.y = c.range(1, 6);
        for (int tries = 0; tries < 6; tries++) {           // two pawns never start on the same square
            bool clash = false;
            for (auto& q : pawns) if (q.col == p.col && q.y == p.y) clash = true;
            if (!clash) break;
            p.y = p.y % 6 + 1;
        }
        int id = b.var(p.white ? 0 : 1, p.y, p.y);
        addVar(p, id, true);
        pawns.push_back(p);
    }
    auto columnIneqs = [&](int col) {
        std::vector<int> idx;
        for (int i = 0; i < (int)pawns.size(); i++) if (pawns[i].col == col) idx.push_back(i);
        std::stable_sort(idx.begin(), idx.end(), [&](int x, int y) { return pawns[x].y < pawns[y].y; });
        for (size_t i = 1; i < idx.size(); i++) b.con(LE, pawns[idx[i - 1]].vars.back(), pawns[idx[i]].vars.back(), -1);
    };
    int steps = c.pick(6);
    for (int s = 0; s < steps && b.nVars + 2 <= maxVars; s++) {
        Pawn& p = pawns[c.pick(np)];
        bool w = p.white;
        int fromY = b.var(w ? 2 : 3, 1, 6);
        addVar(p, fromY, true);
        columnIneqs(p.col);
        switch (c.pick(4)) {
        case 0: case 1: {
            int toY = b.var(w ? 0 : 1, 1, 6);
            addVar(p, toY, false);
            b.con(EQ, toY, fromY, w ? 1 : -1);
            p.col = c.pick(3);
            // pushes of the pawns already on the target file
            if (c.chance(1, 3) && b.nVars + 1 <= maxVars) {
                Pawn& q = pawns[c.pick(np)];
                int t = b.var(q.white ? 0 : 1, -6, 13);
                addVar(q, t, true);
            }
            if (c.pick(3) == 2) {                // pawn takes pawn
                Pawn& q = pawns[c.pick(np)];
                if (&q != &p) b.con(EQ, q.vars.back(), toY, 0);
            } else if (c.flip()) b.un(c.flip() ? ODD : EVEN, toY); // pawn takes bishop
            columnIneqs(p.col);
            break;
        }
        case 2: b.un(MINV, fromY, w ? 6 : 1); b.un(MAXV, fromY, w ? 6 : 1); break; // capture + promotion
        default: { Pawn& q = pawns[c.pick(np)]; b.un(MINV, q.vars.back(), 1); b.un(MAXV, q.vars.back(), 6); break; } // piece takes pawn
        }
    }
    for (auto& p : pawns) if (c.pick(3) == 2) {
        int y = c.pick(5) == 4 ? c.range(1, 6) : p.white ? c.range(p.y, 6) : c.range(1, p.y);
        b.un(p.white ? MAXV : MINV, p.vars.back(), y);
    }
}

void shapeCycle(Choices& c, Builder& b, const GenCfg& g) {
    int n = 2 + c.pick(std::max(1, g.maxVars - 1));
    int prefMode = c.pick(6);
    int base = c.range(WLO, WHI - 6), width = c.range(3, 24);
    for (int v = 0; v < n; v++) {
        int lo = clampW(base + zz(c, 3)), hi = clampW(lo + width + zz(c, 2));
        if (hi < lo) hi = lo;
        b.var(genPref(c, prefMode), lo, hi);
    }
    int cycles = 1 + c.pick(2);
    for (int cy = 0; cy < cycles; cy++) {
        int k = 2 + c.pick(std::min(n, 6) - 1);
        std::vector<int> perm(n);
        for (int i = 0; i < n; i++) perm[i] = i;
        for (int i = 0; i < k; i++) std::swap(perm[i], perm[i + c.pick(n - i)]);
        int target = zz(c, 3), sum = 0;
        if (target < 0 && c.flip()) target = -target;
        for (int i = 0; i < k; i++) {
            int u = perm[i], w = perm[(i + 1) % k];
            int off = i + 1 < k ? zz(c, 4) : target - sum;  // u <= w + off ; sum of offsets around the cycle = target
            sum += off;
            int form = wpick(c, {3, 3, 1});
            if (form == 0) b.con(LE, u, w, off);
            else if (form == 1) b.con(GE, w, u, -off);
            else b.con(EQ, u, w, off);
        }
    }
    genRandomCons(c, b, c.pick(5));
    genUnary(c, b, 15, 10);
}

void shapeParity(Choices& c, Builder& b, const GenCfg& g) {
    int n = 2 + c.pick(std::max(1, g.maxVars - 1));
    int prefMode = c.pick(6);
    int base = c.chance(1, 2) ? 1 : c.range(WLO, WHI - 8);
    for (int v = 0; v < n; v++) {
        int lo = clampW(base + c.pick(3)), hi = clampW(lo + c.range(1, 8));
        b.var(genPref(c, prefMode), lo, hi);
        if (c.chance(3, 4)) b.un(c.flip() ? ODD : EVEN, v);
    }
    int m = 1 + c.pick(n);
    for (int i = 0; i < m; i++) {
        int v1 = c.pick(n), v2 = (v1 + 1 + c.pick(n - 1)) % n;
        if (c.chance(1, 2)) b.con(EQ, v1, v2, zz(c, 2)); else b.con(c.flip() ? GE : LE, v1, v2, zz(c, 2));
    }
    genUnary(c, b, 0, 15);
}

// Offsets chosen so that max(D2)+c and min(D1)-c land on/next to the window edges, where makeArcConsistent has its
// four special cases (>= 48: skip, < -16: unsat, <= -16: skip, >= 48: unsat).
void shapeEdge(Choices& c, Builder& b, const GenCfg& g) {
    int n = 2 + c.pick(std::min(5, g.maxVars - 1));
    int prefMode = c.pick(6);
    std::vector<int> lowV, highV;
    for (int v = 0; v < n; v++) {
        int kind = v < 2 ? v : c.pick(4); // 0 low edge, 1 high edge, 2 full window, 3 random
        int lo, hi; genRange(c, kind == 0 ? 6 : kind == 1 ? 7 : kind == 2 ? 2 : 3, lo, hi);
        b.var(genPref(c, prefMode), lo, hi);
        if (lo <= WLO + 2) lowV.push_back(v);
        if (hi >= WHI - 2) highV.push_back(v);
    }
    int m = 1 + c.pick(5);
    for (int i = 0; i < m; i++) {
        int d = c.pick(5) - 2;                       // distance from the critical value
        int form = c.pick(4);
        if (form == 0) {                             // max(D2)+c around 47/48: (almost) no restriction on v1
            int v2 = c.pick(n), v1 = (v2 + 1 + c.pick(n - 1)) % n;
            b.con(c.pick(4) == 3 ? GE : LE, v1, v2, 48 + d - b.rng[v2].second);
        } else if (form == 1) {                      // max(D2)+c around -16/-17: v1 must sit on the low edge
            int v1 = lowV[c.pick((int)lowV.size())], v2 = (v1 + 1 + c.pick(n - 1)) % n;
            b.con(LE, v1, v2, -16 + d - b.rng[v2].second);
        } else if (form == 2) {                      // min(D1)-c around 47/48: v2 must sit on the high edge
            int v2 = highV[c.pick((int)highV.size())], v1 = (v2 + 1 + c.pick(n - 1)) % n;
            b.con(LE, v1, v2, b.rng[v1].first - (47 + d));
        } else {                                     // min(D1)-c around -16: (almost) no restriction on v2
            int v1 = c.pick(n), v2 = (v1 + 1 + c.pick(n - 1)) % n;
            b.con(c.pick(4) == 3 ? EQ : LE, v1, v2, b.rng[v1].first - (-16 + d));
        }
    }
    genRandomCons(c, b, c.pick(3));
    genUnary(c, b, 15, 15);
}

// A hidden assignment is drawn first and every constraint is built around it (offset = actual difference + slack),
// so the system stays satisfiable however many constraints it has; optional "spoilers" are one or two short.
void shapePlanted(Choices& c, Builder& b, const GenCfg& g) {
    int n = 1 + c.pick(g.maxVars);
    int prefMode = c.pick(6);
    int sys = wpick(c, {3, 2, 1, 1});
    std::vector<int> h(n);
    for (int v = 0; v < n; v++) {
        int lo, hi; genRange(c, sys == 0 ? wpick(c, {6, 2, 3, 6, 3, 5, 2, 2}) : sys == 1 ? 0 : sys == 2 ? 2 : 3, lo, hi);
        b.var(genPref(c, prefMode), lo, hi);
        h[v] = c.range(lo, hi);
        int par = c.pick(4);
        if (par == 3) b.un(((h[v] % 2) + 2) % 2 ? ODD : EVEN, v);
        if (c.pick(6) == 5) b.un(MINV, v, h[v] - c.pick(3));
        if (c.pick(6) == 5) b.un(MAXV, v, h[v] + c.pick(3));
    }
    int m = g.big ? c.range(20, g.maxCons) : (c.flip() ? c.pick(2 * n + 2) : c.pick(g.maxCons + 1));
    int slackMax = 1 + c.pick(3);
    for (int i = 0; i < m; i++) {
        int v1 = c.pick(n), v2 = n > 1 ? (v1 + 1 + c.pick(n - 1)) % n : v1;
        int diff = h[v1] - h[v2];
        int k = wpick(c, {3, 3, 1});
        int slack = c.pick(slackMax + 1);
        if (!b.con(k == 0 ? LE : k == 1 ? GE : EQ, v1, v2, k == 0 ? diff + slack : k == 1 ? diff - slack : diff)) break;
    }
    int spoil = wpick(c, {4, 2, 1});
    for (int i = 0; i < spoil && n > 1; i++) {
        int v1 = c.pick(n), v2 = (v1 + 1 + c.pick(n - 1)) % n;
        int diff = h[v1] - h[v2];
        if (c.flip()) b.con(LE, v1, v2, diff - 1 - c.pick(2)); else b.con(GE, v1, v2, diff + 1 + c.pick(2));
    }
}

const char* const shapeNames[] = {"random", "kernel-like", "cycles", "parity", "window-edge", "no variables", "planted solution"};

std::vector<Op> genOps(Choices& c, const GenCfg& g, int& shape) {
    Builder b(g.maxCons);
    shape = g.big ? (c.flip() ? 6 : 0) : wpick(c, {30, 20, 14, 10, 10, 1, 15});
    switch (shape) {
    case 0: shapeRandom(c, b, g); break;
    case 1: shapeKernel(c, b, g); break;
    case 2: shapeCycle(c, b, g); break;
    case 3: shapeParity(c, b, g); break;
    case 4: shapeEdge(c, b, g); break;
    case 6: shapePlanted(c, b, g); break;
    default: break;
    }
    b.ops.push_back(mk(SOLVE));
    int more = wpick(c, {12, 2, 3});
    if (more == 1) b.ops.push_back(mk(SOLVE));                 // same system again
    else if (more == 2 && b.nVars > 0) {                       // the repo's tests tighten and solve again
        int k = 1 + c.pick(3);
        for (int i = 0; i < k; i++) {
            switch (c.pick(4)) {
            case 0: { int v = c.pick(b.nVars); b.un(c.flip() ? MAXV : MINV, v, c.range(b.rng[v].first - 1, std::max(b.rng[v].first, b.rng[v].second) + 1)); break; }
            case 1: genRandomCons(c, b, 1); break;
            case 2: b.un(c.flip() ? ODD : EVEN, c.pick(b.nVars)); break;
            default: { int lo, hi; genRange(c, wpick(c, {3, 1, 1, 2}), lo, hi); int v = b.var(c.pick(4), lo, hi); b.con((Kind)(LE + c.pick(3)), v, c.pick(b.nVars), zz(c, 3)); break; }
            }
        }
        b.ops.push_back(mk(SOLVE));
    }
    return b.ops;
}

} // namespace

int main(int argc, char** argv) {
    vh::Args a = vh::parseArgs(argc, argv);
    vh::installDeathHooks();
    vh::Stats& st = vh::ctx().stats;
    st.hashCap = (size_t)a.num("hashcap", 3000000);
    long budget = a.num("budget", 20000);
    if (!a.replay.empty()) {
        return vh::runReplay([&](const std::string& sub, const Value& k) {
            std::vector<Op> ops;
            if (!opsFromJson(k, ops)) vh::fail(k, "replay file does not contain an op list");
            RunCfg rc; rc.bfLimit = 1e6; rc.budget = budget * 200; rc.classify = false;
            startWatchdog();
            runCase(sub, "replay", ops, nullptr, rc, st);
            if (st.inconclusive || st.discarded) printf("REPLAY-NOTE: case skipped (outside the documented preconditions or above the size budget)\n");
        });
    }
    startWatchdog();
    long n = a.cases;
    long big = a.num("big", 0);          // cases with up to 192 constraints
    auto body = [&](const std::string& sub, const GenCfg& g) {
        return [&, sub, g](Choices& c) {
            int shape = 0;
            std::vector<Op> raw = genOps(c, g, shape);
            RunCfg rc; rc.budget = budget;
            rc.bfLimit = c.pick(24) == 23 ? 1e6 : 4096;
            Fitted f = fit(raw, &c, budget);
            st.evaluations++;
            if (!f.ok) { st.discarded++; return; }
            if (f.narrowed) st.cls("domains halved to fit the size budget");
            runCase(sub, shapeNames[shape], f.ops, &f.ref, rc, st);
        };
    };
    GenCfg gs; gs.maxVars = 10; gs.maxCons = 25;
    vh::runProp("systems", n, 2.5, body("systems", gs));
    GenCfg gb; gb.maxVars = 10; gb.maxCons = MAXCONS; gb.big = true;
    vh::runProp("big", big, 12.0, body("big", gb));
    return vh::finish();
}
