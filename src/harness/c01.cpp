// C01  Generated legal moves are exactly the legal moves of chess.
// Differential oracle: refchess (independent mailbox rules).  See DESIGN.md §3 C01.
#include "common/vh.hpp"
#include "common/gen.hpp"
#include "common/tx.hpp"
#include <algorithm>

using vh::Value;
using vh::Choices;

namespace {

struct Flags { bool epCheck = false, pin = false, check = false, dbl = false, epLegal = false, epPinned = false, castleBlocked = false, promo = false, manyLike = false; };

// classification of a position for the non-triviality rule (uses refchess only)
Flags classify(const ref::Pos& p, const std::vector<ref::Move>& legal) {
    Flags f;
    bool w = p.wtm;
    int k = p.kingSq(w);
    f.check = ref::attacked(p, k, !w);
    if (f.check) {
        // count attackers by removing... simple: count enemy men that attack k
        int n = 0;
        for (int s = 0; s < 64; s++) {
            if (!ref::ownPiece(p.b[s], !w)) continue;
            // does s attack k?  test by a position holding only that enemy man as attacker
            ref::Pos one = p;
            for (int t = 0; t < 64; t++) if (t != s && ref::ownPiece(one.b[t], !w)) one.b[t] = ref::lower(one.b[t]) == 'k' ? one.b[t] : (w ? 'P' : 'p'); // turn into harmless blockers of own colour
            if (ref::attacked(one, k, !w)) n++;
        }
        f.dbl = n >= 2;
    }
    std::vector<ref::Move> ps;
    ref::pseudoMoves(p, ps);
    // pinned man: a pseudo-legal non-king move that is illegal although the king is not in check
    if (!f.check)
        for (auto& m : ps) if (ref::lower(p.b[m.from]) != 'k' && !ref::isEp(p, m) && std::find(legal.begin(), legal.end(), m) == legal.end()) { f.pin = true; break; }
    for (auto& m : ps) if (ref::isEp(p, m)) { if (std::find(legal.begin(), legal.end(), m) != legal.end()) { f.epLegal = true; if (ref::givesCheck(p, m)) f.epCheck = true; } else f.epPinned = true; }
    for (auto& m : legal) if (m.promo) f.promo = true;
    // castling right present but the castling move is not legal now
    auto has = [&](int from, int to) { ref::Move m; m.from = from; m.to = to; return std::find(legal.begin(), legal.end(), m) != legal.end(); };
    if (w) { if ((p.cK && !has(4, 6)) || (p.cQ && !has(4, 2))) f.castleBlocked = true; }
    else { if ((p.ck && !has(60, 62)) || (p.cq && !has(60, 58))) f.castleBlocked = true; }
    std::map<std::pair<char, int>, int> cnt;
    for (auto& m : legal) if (!m.promo || m.promo == 'q') if (++cnt[{p.b[m.from], m.to}] >= 2 && ref::lower(p.b[m.from]) != 'p') f.manyLike = true;
    return f;
}

std::string dupCheck(const std::vector<ref::Move>& v) {
    std::set<ref::Move> s;
    for (auto& m : v) if (!s.insert(m).second) return m.uci();
    return "";
}

// All move-generation oracles for one position.  `pos` may come from readFEN
// or from a makeMove chain.  Returns "" or a description of the disagreement.
std::string checkPos(Position& pos, const ref::Pos& r, const std::vector<ref::Move>& refLegal, bool deep, vh::Stats& st) {
    std::set<ref::Move> legalSet(refLegal.begin(), refLegal.end());
    const bool refCheck = ref::inCheck(r);
    // 3. inCheck
    if (MoveGen::inCheck(pos) != refCheck) return std::string("inCheck: texel ") + (refCheck ? "false" : "true");
    // 1. pseudoLegalMoves + removeIllegal == legal set
    MoveList pl;
    MoveGen::pseudoLegalMoves(pos, pl);
    std::vector<ref::Move> pseudo = tx::listToRef(pl);
    std::set<ref::Move> pseudoSet(pseudo.begin(), pseudo.end());
    {
        std::string d = dupCheck(pseudo);
        if (!d.empty()) return "pseudoLegalMoves: duplicate " + d;
        MoveList ml = pl;
        MoveGen::removeIllegal(pos, ml);
        std::vector<ref::Move> got = tx::listToRef(ml);
        std::set<ref::Move> gs(got.begin(), got.end());
        if (gs.size() != got.size()) return "legal moves: duplicate " + dupCheck(got);
        for (auto& m : refLegal) if (!gs.count(m)) return "legal move missing: " + m.uci();
        for (auto& m : got) if (!legalSet.count(m)) return "illegal move generated: " + m.uci();
    }
    // 2. isLegal on every pseudo-legal move
    for (int i = 0; i < pl.size; i++) {
        bool t = MoveGen::isLegal(pos, pl[i], refCheck);
        bool e = legalSet.count(tx::toRef(pl[i])) > 0;
        if (t != e) return "isLegal(" + tx::toRef(pl[i]).uci() + ") = " + (t ? "true" : "false") + ", rules say " + (e ? "legal" : "illegal");
    }
    // 4. check evasions
    if (refCheck) {
        MoveList ev;
        MoveGen::checkEvasions(pos, ev);
        std::vector<ref::Move> evs = tx::listToRef(ev);
        std::string d = dupCheck(evs);
        if (!d.empty()) return "checkEvasions: duplicate " + d;
        std::set<ref::Move> es(evs.begin(), evs.end());
        for (auto& m : refLegal) if (!es.count(m)) return "checkEvasions omits legal move " + m.uci();
        for (auto& m : evs) if (!pseudoSet.count(m)) return "checkEvasions lists a move that is not even pseudo-legal: " + m.uci();
        for (int i = 0; i < ev.size; i++) {
            bool t = MoveGen::isLegal(pos, ev[i], true);
            bool e = legalSet.count(tx::toRef(ev[i])) > 0;
            if (t != e) return "isLegal(evasion " + tx::toRef(ev[i]).uci() + ") = " + (t ? "true" : "false") + ", rules say " + (e ? "legal" : "illegal");
        }
        MoveList ev2 = ev;
        MoveGen::removeIllegal(pos, ev2);
        if ((size_t)ev2.size != refLegal.size()) return "checkEvasions+removeIllegal yields " + std::to_string(ev2.size) + " moves, rules " + std::to_string(refLegal.size());
    }
    // 5. captures / captures-and-checks
    {
        MoveList cc;
        MoveGen::pseudoLegalCapturesAndChecks(pos, cc); // in check: memory safety only
        MoveList cp;
        MoveGen::pseudoLegalCaptures(pos, cp);
        std::vector<ref::Move> ccs = tx::listToRef(cc), cps = tx::listToRef(cp);
        std::set<ref::Move> ccSet(ccs.begin(), ccs.end()), cpSet(cps.begin(), cps.end());
        if (!refCheck) {
            std::string d = dupCheck(ccs);
            if (!d.empty()) return "pseudoLegalCapturesAndChecks: duplicate " + d;
            for (auto& m : ccs) if (!pseudoSet.count(m)) return "pseudoLegalCapturesAndChecks lists a non-pseudo-legal move " + m.uci();
        }
        {
            std::string d = dupCheck(cps);
            if (!d.empty()) return "pseudoLegalCaptures: duplicate " + d;
            for (auto& m : cps) if (!pseudoSet.count(m)) return "pseudoLegalCaptures lists a non-pseudo-legal move " + m.uci();
        }
        for (auto& m : refLegal) {
            bool cap = ref::isCapture(r, m);
            if (!refCheck && (m.promo == 0 || m.promo == 'q' || m.promo == 'n')) {
                bool cls = cap || m.promo || ref::givesCheck(r, m);
                if (cls && !ccSet.count(m)) return "pseudoLegalCapturesAndChecks omits " + m.uci() + (cap ? " (capture)" : m.promo ? " (promotion)" : " (check)");
            }
            if ((cap && (m.promo == 0 || m.promo == 'q')) || m.promo == 'q')
                if (!cpSet.count(m)) return "pseudoLegalCaptures omits " + m.uci();
        }
    }
    // 6. givesCheck for every legal move; on other pseudo-legal moves only memory safety
    for (int i = 0; i < pl.size; i++) {
        ref::Move m = tx::toRef(pl[i]);
        bool t = MoveGen::givesCheck(pos, pl[i]);
        if (legalSet.count(m)) {
            bool e = ref::givesCheck(r, m);
            if (t != e) return "givesCheck(" + m.uci() + ") = " + (t ? "true" : "false") + ", playing the move says " + (e ? "check" : "no check");
        }
    }
    // 7. makeMove result equals the reference result (+ one ply below when deep)
    for (auto& m : refLegal) {
        Move tm = tx::toTexel(m, r.wtm);
        UndoInfo ui;
        Position before(pos);
        pos.makeMove(tm, ui);
        ref::Pos rn = ref::make(r, m);
        std::string d = tx::diff(pos, rn, 0);
        if (!d.empty()) { pos.unMakeMove(tm, ui); return "after " + m.uci() + ": " + d; }
        if (deep) {
            std::vector<ref::Move> l2 = ref::legalMoves(rn);
            st.evaluations++;
            std::string e = checkPos(pos, rn, l2, false, st);
            if (!e.empty()) { pos.unMakeMove(tm, ui); return "after " + m.uci() + ": " + e; }
        }
        pos.unMakeMove(tm, ui);
        if (!(pos == before)) return "unMakeMove(" + m.uci() + ") does not restore the position";
    }
    return "";
}

void noteClasses(const ref::Pos& r, const std::vector<ref::Move>& legal, vh::Stats& st, const std::string& origin) {
    Flags f = classify(r, legal);
    bool nt = f.pin || f.check || f.dbl || f.epLegal || f.epPinned || f.castleBlocked || f.promo || f.manyLike;
    auto mk = [&]() { Value v = Value::object(); v["fen"] = ref::toFEN(r); v["origin"] = origin; v["legal_moves"] = (long)legal.size(); return v; };
    if (f.pin) st.clsSample("pinned man", mk);
    if (f.check) st.clsSample("in check", mk);
    if (f.dbl) st.clsSample("double check", mk);
    if (f.epLegal) st.clsSample("legal e.p.", mk);
    if (f.epPinned) st.clsSample("e.p. illegal by pin/check", mk);
    if (f.epCheck) st.clsSample("e.p. capture gives check", mk);
    if (f.castleBlocked) st.clsSample("castling right but path blocked/attacked", mk);
    if (f.promo) st.clsSample("promotion available", mk);
    if (f.manyLike) st.clsSample(">=2 like pieces to one square", mk);
    if (legal.empty()) st.clsSample(f.check ? "checkmate" : "stalemate", mk);
    if (nt) st.nt(ref::toFEN(r)); else st.cls("plain");
}

Value posCase(const std::string& fen, const std::vector<std::string>& moves) {
    Value k = Value::object();
    k["fen"] = fen;
    k["moves"] = Value::arrayOf(moves);
    return k;
}

// Run the oracle on: start position from FEN, then every position of the game
// both (a) reached by makeMove from the start and (b) re-read from refchess's FEN.
void runGame(const std::string& sub, const gen::Game& g, vh::Stats& st, bool deepLast) {
    Value kase = posCase(g.startFen, g.uciMoves());
    vh::setCurrent(sub, kase);
    Position chain = TextIO::readFEN(g.startFen);
    for (size_t i = 0; i < g.pos.size(); i++) {
        const ref::Pos& r = g.pos[i];
        std::vector<ref::Move> legal = ref::legalMoves(r);
        st.evaluations++;
        noteClasses(r, legal, st, "game");
        bool deep = deepLast && (i + 1 == g.pos.size() || i % 8 == 0);
        // (a) position maintained incrementally
        std::string e;
        if (i > 0 || true) {
            std::string d = tx::diff(chain, r, i == 0 ? 1 : 0);
            if (!d.empty()) e = "position after " + std::to_string(i) + " plies differs: " + d;
            else e = checkPos(chain, r, legal, deep, st);
        }
        // (b) position through the FEN reader
        if (e.empty()) {
            Position fp = tx::toTexel(r);
            std::string d = tx::diff(fp, r, 1);
            if (!d.empty()) e = "readFEN(" + ref::toFEN(r) + "): " + d;
            else e = checkPos(fp, r, legal, false, st);
        }
        if (!e.empty()) {
            std::vector<std::string> mv = g.uciMoves();
            mv.resize(i);
            vh::fail(posCase(g.startFen, mv), e + "  [fen " + ref::toFEN(r) + "]");
        }
        if (i < g.moves.size()) {
            UndoInfo ui;
            chain.makeMove(tx::toTexel(g.moves[i], r.wtm), ui);
        }
    }
    vh::clearCurrent();
}

void runPlaced(const std::string& sub, const ref::Pos& r, const std::string& origin, vh::Stats& st) {
    Value kase = posCase(ref::toFEN(r), {});
    vh::setCurrent(sub, kase);
    std::vector<ref::Move> legal = ref::legalMoves(r);
    st.evaluations++;
    noteClasses(r, legal, st, origin);
    Position fp = tx::toTexel(r);
    std::string d = tx::diff(fp, r, 1);
    std::string e = !d.empty() ? "readFEN: " + d : checkPos(fp, r, legal, true, st);
    if (!e.empty()) vh::fail(kase, e + "  [fen " + ref::toFEN(r) + "]");
    vh::clearCurrent();
}

} // namespace

int main(int argc, char** argv) {
    vh::Args a = vh::parseArgs(argc, argv);
    vh::installDeathHooks();
    vh::Stats& st = vh::ctx().stats;
    if (!a.replay.empty()) {
        return vh::runReplay([&](const std::string& sub, const Value& k) {
            gen::Game g;
            if (!gen::gameFrom(k.getStr("fen"), k.strs("moves"), g)) vh::fail(k, "replay file does not describe a legal game");
            if (g.moves.empty()) runPlaced(sub, g.pos[0], "replay", st);
            runGame(sub, g, st, true);
        });
    }
    long n = a.cases;
    vh::runProp("games", n / 3, 4.0, [&](Choices& c) {
        gen::Game g = gen::game(c, 300);
        runGame("games", g, st, true);
    });
    vh::runProp("placements", n - n / 3, 1.0, [&](Choices& c) {
        gen::Placed p = gen::place(c);
        if (!p.ok) { st.discarded++; return; }
        runPlaced("placements", p.p, gen::tmplName(p.tmpl), st);
        st.count(std::string("tmpl:") + gen::tmplName(p.tmpl));
    });
    return vh::finish();
}
