// VERIF-TARGET: app
// C10  Search control always terminates with exactly one result.
// Generated command scripts x generated thread schedules on the in-process engine
// under the cooperative scheduler (coop.hpp).  Oracle: invariants over the history
// of each run: no deadlock / lost wake-up (detected exactly), exactly one legal
// bestmove per go and release rules (C05's monitor on the virtual transcript),
// every helper idle and acknowledged at each quiescent point, all threads exited
// and main returned after quit/EOF.  See DESIGN.md §3 C10.
#include "common/vh.hpp"
#include "harness/coop.hpp"
#include "harness/session.hpp"

using vh::Value;
using vh::Choices;

namespace {

struct Case {
    std::vector<sess::Cmd> cmds;          // annotated commands (pace fields unused)
    std::vector<std::pair<int, long long>> cond; // release condition per command
    coop::RunSpec spec;                   // schedule part (script filled from cmds)
    int threads = 1;
};

Value toJson(const Case& k) {
    sess::Session s; s.cmds = k.cmds;
    Value v = Value::object();
    v["session"] = s.toJson();
    Value c = Value::array();
    for (auto& x : k.cond) { Value e = Value::array(); e.push(x.first); e.push(x.second); c.push(e); }
    v["cond"] = c;
    v["spec"] = k.spec.toJson();
    v["threads"] = k.threads;
    return v;
}
Case fromJson(const Value& v) {
    Case k;
    k.cmds = sess::Session::fromJson(v.at("session")).cmds;
    for (auto& e : v.at("cond").a) k.cond.push_back({(int)e.a[0].num(), e.a[1].num()});
    k.spec = coop::RunSpec::fromJson(v.at("spec"));
    k.threads = (int)v.getInt("threads", 1);
    return k;
}
void fillScript(Case& k) {
    k.spec.script.clear();
    for (size_t i = 0; i < k.cmds.size(); i++) {
        coop::ScriptCmd c; c.text = k.cmds[i].text; c.cond = k.cond[i].first; c.arg = k.cond[i].second;
        k.spec.script.push_back(c);
    }
}

const std::vector<std::string>& roots() {
    static const std::vector<std::string> v = {
        "rnbqkbnr/pppppppp/8/8/8/8/PPPPPPPP/RNBQKBNR w KQkq - 0 1",
        "r3k2r/p1ppqpb1/bn2pnp1/3PN3/1p2P3/2N2Q1p/PPPBBPPP/R3K2R w KQkq - 0 1",
        "r1bq1rk1/pp2ppbp/2np1np1/8/3NP3/2N1BP2/PPPQ2PP/R3KB1R w KQ - 3 9",
        "8/2p5/3p4/KP5r/1R3p1k/8/4P1P1/8 w - - 0 1",
        "r4rk1/1pp1qppp/p1np1n2/2b1p1B1/2B1P1b1/P1NP1N2/1PP1QPPP/R4RK1 w - - 0 10",
        "rnb1kbnr/pppp1ppp/8/4p3/6Pq/5P2/PPPPP2P/RNBQKBNR w KQkq - 1 3", // checkmated root
        "7k/5Q2/6K1/8/8/8/8/5n2 b - - 0 1",
        "4k3/8/8/8/8/8/4P3/4K3 w - - 0 1",
    };
    return v;
}

// A script = optional option changes, then 1..4 rounds of (position, go, follow-ups), then quit/EOF.
Case genCase(Choices& c, int maxThreads, int minThreads = 1, bool light = false) {
    Case k;
    auto add = [&](const std::string& kind, const std::string& text, int cond, long long arg) {
        sess::Cmd cmd; cmd.kind = kind; cmd.text = text; k.cmds.push_back(cmd); k.cond.push_back({cond, arg});
        return &k.cmds.back();
    };
    k.threads = c.range(minThreads, maxThreads);
    if (c.chance(1, 3)) add("isready", "isready", coop::C_NOW, 0);
    add("setoption", "setoption name Threads value " + std::to_string(k.threads), coop::C_NOW, 0);
    if (c.chance(1, 2)) add("setoption", "setoption name Hash value " + std::to_string(c.range(1, 16)), coop::C_NOW, 0);
    int rounds = c.range(1, 4);
    ref::Pos pos = ref::startPos();
    bool searching = false, lastCanFinish = true;
    auto during = [&]() { // condition for a command sent while a search may be running
        int t = c.pick(5);
        if (t == 0) return std::make_pair((int)coop::C_NOW, 0LL);
        if (t == 1) return std::make_pair((int)coop::C_STEPS, (long long)c.range(0, 60));
        if (t == 2) return std::make_pair((int)coop::C_STEPS, (long long)c.range(0, 250));
        if (t == 3) return std::make_pair((int)coop::C_NODES, (long long)c.range(0, light ? 300 : 4000));
        return std::make_pair((int)coop::C_INFO_LINES, (long long)c.range(1, light ? 2 : 6));
    };
    bool ended = false;
    for (int r = 0; r < rounds && !ended; r++) {
        // position
        if (c.chance(2, 3)) {
            std::string fen = c.of(roots());
            ref::fromFEN(fen, pos);
            std::string cmd = "position fen " + fen;
            int n = c.range(0, 6);
            std::string mv;
            for (int i = 0; i < n; i++) { auto lm = ref::legalMoves(pos); if (lm.empty()) break; ref::Move m = lm[c.pick((int)lm.size())]; mv += " " + m.uci(); pos = ref::make(pos, m); }
            if (!mv.empty()) cmd += " moves" + mv;
            auto cd = searching ? during() : std::make_pair((int)coop::C_NOW, 0LL);
            add("position", cmd, cd.first, cd.second);
        }
        // go
        sess::Cmd g; g.kind = "go"; g.goFen = ref::toFEN(pos);
        std::string s = "go";
        int kind = c.pick(8);
        if (kind >= 6) { g.goPonder = true; s += " ponder"; }
        int lk = c.pick(5);
        if (lk == 0) { s += " depth " + std::to_string(c.range(1, light ? 2 : 3)); g.goHasLimit = true; }
        else if (lk == 1) { s += " nodes " + std::to_string(c.range(1, light ? 300 : 4000)); g.goHasLimit = true; }
        else if (lk == 2) { s += " movetime " + std::to_string(c.range(1, light ? 3 : 30)); g.goHasLimit = true; }
        else if (lk == 3) { s += " infinite"; g.goInfinite = true; }
        else { s += " depth " + std::to_string(c.range(1, 2)); g.goHasLimit = true; }
        g.text = s;
        {
            auto cd = searching ? (c.chance(1, 2) ? during() : std::make_pair((int)coop::C_BESTMOVES, 0LL)) : std::make_pair((int)coop::C_NOW, 0LL);
            if (cd.first == coop::C_BESTMOVES) {
                if (!lastCanFinish) cd = during();
                else { int goes = 0; for (auto& x : k.cmds) if (x.kind == "go") goes++; cd.second = goes; }
            }
            k.cmds.push_back(g); k.cond.push_back(cd);
        }
        searching = true;
        lastCanFinish = !(g.goInfinite || g.goPonder);
        // follow-ups
        int nf = c.range(0, 3);
        for (int i = 0; i < nf && !ended; i++) {
            int f = c.pick(8);
            auto cd = during();
            if (f == 0) { add("stop", "stop", cd.first, cd.second); lastCanFinish = true; }
            else if (f == 1) { add("ponderhit", "ponderhit", cd.first, cd.second); if (g.goPonder && g.goHasLimit && !g.goInfinite && s.find("movetime") != std::string::npos) lastCanFinish = true; }
            else if (f == 2) add("isready", "isready", cd.first, cd.second);
            else if (f == 3) add("setoption", "setoption name Threads value " + std::to_string(k.threads = c.range(minThreads, maxThreads)), cd.first, cd.second);
            else if (f == 4) add("setoption", "setoption name Hash value " + std::to_string(c.range(1, 16)), cd.first, cd.second);
            else if (f == 5) add("ucinewgame", "ucinewgame", cd.first, cd.second);
            else if (f == 6) add("setoption", "setoption name Clear Hash", cd.first, cd.second);
            else if (c.chance(1, 3)) { if (c.flip()) add("quit", "quit", cd.first, cd.second); else add("eof", "<EOF>", cd.first, cd.second); ended = true; }
        }
        // an infinite / ponder search is released before the next round (or by quit)
        if (!ended && !lastCanFinish && c.chance(3, 4)) { auto cd = during(); add("stop", "stop", cd.first, cd.second); lastCanFinish = true; }
    }
    if (!ended) {
        auto cd = (lastCanFinish && c.chance(1, 2)) ? std::make_pair((int)coop::C_BESTMOVES, 0LL) : during();
        if (cd.first == coop::C_BESTMOVES) { int goes = 0; for (auto& x : k.cmds) if (x.kind == "go") goes++; cd.second = goes; }
        if (c.chance(1, 4)) add("eof", "<EOF>", cd.first, cd.second); else add("quit", "quit", cd.first, cd.second);
    }
    // schedule
    k.spec.nsPerNode = c.of(std::vector<long long>{200, 1000, 5000, 20000});
    k.spec.strategy = c.of(std::vector<int>{0, 1, 1, 2, 2, 2});
    k.spec.schedSeed = c.raw() + 1;
    k.spec.pctDepth = c.range(1, 4);
    k.spec.pctMaxSteps = c.of(std::vector<long>{200, 1000, 5000});
    k.spec.lockYield = c.of(std::vector<int>{0, 0, 0, 1, 3, 16});
    fillScript(k);
    return k;
}

// Scripts for two-level helper trees: many short searches (the stop / acknowledge protocol between the threads runs at
// the end of every search), roots where the helpers idle (mate, stalemate, bare kings), stops released within a few
// scheduling steps of the go.
Case genTreeCase(Choices& c, int maxThreads) {
    Case k;
    auto add = [&](const std::string& kind, const std::string& text, int cond, long long arg) {
        sess::Cmd cmd; cmd.kind = kind; cmd.text = text; k.cmds.push_back(cmd); k.cond.push_back({cond, arg});
    };
    static const std::vector<std::string> idle = {"rnb1kbnr/pppp1ppp/8/4p3/6Pq/5P2/PPPPP2P/RNBQKBNR w KQkq - 1 3", "7k/8/8/8/8/8/5q2/7K w - - 0 1",
                                                  "8/8/8/4k3/8/8/4K3/8 w - - 0 1", "7k/5Q2/6K1/8/8/8/8/5n2 b - - 0 1"};
    k.threads = c.range(6, std::max(6, maxThreads));
    add("setoption", "setoption name Threads value " + std::to_string(k.threads), coop::C_NOW, 0);
    add("setoption", "setoption name Hash value " + std::to_string(c.range(1, 4)), coop::C_NOW, 0);
    int rounds = c.range(2, 6), goes = 0;
    bool canFinish = true;
    auto soon = [&]() { return c.chance(1, 3) ? std::make_pair((int)coop::C_NOW, 0LL) : std::make_pair((int)coop::C_STEPS, (long long)c.range(0, 60)); };
    for (int r = 0; r < rounds; r++) {
        std::string fen = c.chance(1, 2) ? c.of(idle) : c.of(roots());
        auto cd = (canFinish && c.chance(3, 4)) ? std::make_pair((int)coop::C_BESTMOVES, (long long)goes) : soon();
        if (!canFinish) { add("stop", "stop", cd.first, cd.second); canFinish = true; cd = soon(); }
        add("position", "position fen " + fen, cd.first, cd.second);
        sess::Cmd g; g.kind = "go"; g.goFen = fen;
        int lk = c.pick(6);
        std::string s = "go";
        if (lk == 0) { s += " depth 1"; g.goHasLimit = true; }
        else if (lk == 1) { s += " depth 2"; g.goHasLimit = true; }
        else if (lk == 2) { s += " nodes " + std::to_string(c.range(1, 200)); g.goHasLimit = true; }
        else if (lk == 3) { s += " infinite"; g.goInfinite = true; }
        else if (lk == 4) { s += " ponder depth 1"; g.goPonder = true; g.goHasLimit = true; }
        else { s += " movetime " + std::to_string(c.range(1, 3)); g.goHasLimit = true; }
        g.text = s;
        k.cmds.push_back(g); k.cond.push_back({coop::C_NOW, 0});
        goes++;
        canFinish = !(g.goInfinite || g.goPonder);
        int f = c.pick(4);
        if (!canFinish || f == 0) { auto sd = soon(); add("stop", "stop", sd.first, sd.second); canFinish = true; }
        else if (f == 1) { auto sd = soon(); add("isready", "isready", sd.first, sd.second); }
        else if (f == 2 && c.chance(1, 3)) { auto sd = soon(); add("setoption", "setoption name Threads value " + std::to_string(k.threads = c.range(6, std::max(6, maxThreads))), sd.first, sd.second); }
    }
    add("quit", "quit", coop::C_BESTMOVES, goes);
    k.spec.nsPerNode = c.of(std::vector<long long>{200, 1000, 5000});
    k.spec.strategy = c.of(std::vector<int>{1, 2, 2, 2});
    k.spec.schedSeed = c.raw() + 1;
    k.spec.pctDepth = c.range(1, 4);
    k.spec.pctMaxSteps = c.of(std::vector<long>{100, 300, 1000});
    k.spec.lockYield = c.of(std::vector<int>{1, 1, 2, 3});
    fillScript(k);
    return k;
}

// Judge one run.  Returns "" / violation text; inconclusive via flag.
std::string judge(const Case& k, const coop::RunResult& r, bool& inconclusive) {
    inconclusive = false;
    if (r.status == "stuck") { inconclusive = true; return ""; }
    if (r.status == "steps") { inconclusive = true; return ""; }
    if (r.status == "deadlock") return "deadlock / lost wake-up: " + r.detail;
    if (r.status == "crash") return "engine crashed: " + r.detail;
    if (r.status != "ok") return "unexpected run status " + r.status;
    for (auto& q : r.quiescent) if (!q.ok) return "helper thread not idle/acknowledged after a search ended (step " + std::to_string(q.step) + "):" + q.detail;
    if (!r.wrongResult.empty()) return "helper result attributed to the wrong search: " + r.wrongResult;
    if (!r.threadsAllExited) return "main returned after quit/EOF but some thread never exited";
    // transcript in scheduling order -> the C05 monitor
    sess::Session s; s.cmds = k.cmds;
    sess::RunResult rr; rr.exited = true; rr.cleanExit = true; rr.exitDesc = "exit status 0";
    size_t ii = 0, oi = 0; int seq = 0;
    while (ii < r.in.size() || oi < r.out.size()) {
        bool takeIn = oi >= r.out.size() || (ii < r.in.size() && r.in[ii].step <= r.out[oi].step);
        if (takeIn) { rr.log.push_back({seq++, '>', r.in[ii].text, r.in[ii].vtimeNs / 1000000}); ii++; }
        else { rr.log.push_back({seq++, '<', r.out[oi].text, r.out[oi].vtimeNs / 1000000}); oi++; }
    }
    // the implicit end of input (script exhausted) appears as an extra "<EOF>" entry: drop sent entries beyond the script
    {
        std::vector<uci::Entry> f; size_t sent = 0;
        for (auto& e : rr.log) { if (e.dir == '>') { if (sent >= k.cmds.size()) continue; sent++; } f.push_back(e); }
        rr.log = f;
    }
    bool inc = false;
    std::string e = sess::monitor(s, rr, inc);
    return e;
}

void classify(const Case& k, const coop::RunResult& r, vh::Stats& st) {
    auto mk = [&]() { Value v = Value::object(); Value a = Value::array(); for (size_t i = 0; i < k.cmds.size(); i++) a.push(k.cmds[i].text + "  @" + std::to_string(k.cond[i].first) + ":" + std::to_string(k.cond[i].second)); v["script"] = a; v["strategy"] = k.spec.strategy; v["threads_created"] = r.threadsCreated; v["steps"] = r.steps; v["preemptions"] = r.preemptions; return v; };
    bool helpers = r.threadsCreated > 2;
    if (helpers && r.preemptions > 0) { st.nt(vj::dump(toJson(k))); st.clsSample("helper threads + >=1 pre-emption", mk); }
    else if (helpers) st.clsSample("helper threads, no pre-emption", mk);
    else if (r.preemptions > 0) st.clsSample("2 threads + pre-emption", mk);
    else st.cls("plain");
    st.count("scheduling steps", r.steps);
    st.count("pre-emptions", r.preemptions);
    st.count("helper results acted upon", r.helperResultsUsed);
    for (auto& e : r.in) if (e.forced) { st.count("script commands forced (condition could not become true)"); break; }
    for (auto& c : k.cmds) { if (c.kind == "ponderhit") { st.cls("has ponderhit"); break; } }
    for (auto& c : k.cmds) { if (c.kind == "eof") { st.cls("ends with EOF"); break; } }
    if (k.spec.lockYield > 0) st.cls("mutex acquisitions are scheduling points");
    if (r.threadsCreated >= 7 && k.spec.lockYield > 0 && k.spec.strategy != 0) st.cls("two-level helper tree (Threads >= 6), pre-emptive schedule, mutex scheduling points");
    st.count(std::string("strategy ") + (k.spec.strategy == 0 ? "non-preemptive" : k.spec.strategy == 1 ? "random" : k.spec.strategy == 2 ? "PCT" : "explicit"));
}

void runCase(const std::string& sub, const Case& k, vh::Stats& st, bool doClassify = true) {
    long long t0 = uci::nowMs();
    coop::RunResult r = coop::run(k.spec);
    st.evaluations++;
    bool inc = false;
    std::string e = judge(k, r, inc);
    if (getenv("C10_DEBUG")) {
        fprintf(stderr, "CASE ms=%lld status=%s steps=%ld threads=%ld strategy=%d detail=%s\n", uci::nowMs() - t0, r.status.c_str(), r.steps, r.threadsCreated, k.spec.strategy, r.detail.c_str());
        if (r.status != "ok") { for (size_t i = 0; i < k.cmds.size(); i++) fprintf(stderr, "   %s  @%d:%lld\n", k.cmds[i].text.c_str(), k.cond[i].first, k.cond[i].second);
            fprintf(stderr, "%s\n", vj::dump(r.toJson(30)).c_str());
            if (r.status == "stuck") { Value rep = Value::object(); rep["property"] = "C10"; rep["sub"] = sub; rep["message"] = "stuck"; rep["case"] = toJson(k);
                vj::writeFile("/tmp/c10-stuck-" + std::to_string(getpid()) + "-" + std::to_string(st.evaluations) + ".json", rep); } }
    }
    if (inc) { st.inconclusive++; st.count("status " + r.status); return; }
    if (doClassify) classify(k, r, st);
    if (!e.empty()) { Value v = toJson(k); v["run"] = r.toJson(120); vh::fail(v, e); }
}

} // namespace

int main(int argc, char** argv) {
    vh::Args a = vh::parseArgs(argc, argv);
    vh::installDeathHooks();
    vh::Stats& st = vh::ctx().stats;
    vh::ctx().shrinkBudget = a.num("shrink", 300);
    int maxThreads = (int)a.num("max-threads", 8);
    if (!a.replay.empty()) {
        return vh::runReplay([&](const std::string& sub, const Value& v) {
            Case k = fromJson(v);
            for (int i = 0; i < (int)a.num("repeat", 2); i++) runCase(sub, k, st);
        });
    }
    coop::warmUp();
    long n = a.cases;
    long nSched = n * 7 / 10, nDfs = a.num("dfs-scripts", 2);
    vh::runProp("schedules", nSched, 2.0, [&](Choices& c) {
        Case k = genCase(c, maxThreads);
        runCase("schedules", k, st);
    });
    // two-level helper trees (a helper has helper children from Threads = 6 on; WorkerThread::createWorkers gives every
    // node at most 4 children): schedules in which children overtake their parent helper, i.e. priorities / random picks
    // with scheduling points at mutexes and right after notifications
    vh::runProp("helper-tree", a.num("tree-cases", n * 3 / 10), 2.0, [&](Choices& c) {
        Case k = genTreeCase(c, std::max(maxThreads, 10));
        runCase("helper-tree", k, st);
    });
    // bounded systematic exploration: baseline run, then one pre-emption at each (sampled) decision point
    long perScript = a.num("dfs-points", 40);
    vh::runProp("preempt-1", nDfs, 1.0, [&](Choices& c) {
        Case k = genCase(c, std::min(maxThreads, 4));
        // keep these scripts short: first round only
        k.spec.strategy = 3; k.spec.preempts.clear();
        coop::RunResult base = coop::run(k.spec);
        st.evaluations++;
        bool inc = false;
        std::string e = judge(k, base, inc);
        if (inc) { st.inconclusive++; return; }
        if (!e.empty()) { Value v = toJson(k); v["run"] = base.toJson(120); vh::fail(v, e); }
        std::vector<std::pair<long, int>> alts;
        for (auto& d : base.decisionLog) for (int id : d.second) alts.push_back({d.first, id});
        st.count("decision points (baseline runs)", (long)base.decisionLog.size());
        size_t total = alts.size();
        size_t stride = perScript > 0 && total > (size_t)perScript ? total / (size_t)perScript : 1;
        size_t off = total ? (size_t)c.pick((int)std::min<size_t>(stride, 1u << 20)) : 0;
        for (size_t i = off; i < total; i += stride) {
            Case k2 = k;
            k2.spec.preempts = {{alts[i].first, alts[i].second}};
            runCase("preempt-1", k2, st);
        }
        if (stride == 1) st.count("scripts with bound-1 exploration complete");
    });
    // determinism self-check of the machinery (not an oracle for the property)
    vh::runProp("determinism", std::max<long>(1, n / 20), 2.0, [&](Choices& c) {
        Case k = genCase(c, maxThreads);
        coop::RunResult r1 = coop::run(k.spec), r2 = coop::run(k.spec);
        st.evaluations += 2;
        bool same = r1.status == r2.status && r1.steps == r2.steps && r1.out.size() == r2.out.size();
        for (size_t i = 0; same && i < r1.out.size(); i++) same = r1.out[i].text == r2.out[i].text && r1.out[i].step == r2.out[i].step;
        st.count(same ? "determinism self-check: identical reruns" : "determinism self-check: DIFFERENT reruns");
    });
    return vh::finish();
}
