// C13  With tablebase knowledge the engine reports exact results and keeps them.
// Roots = pawnless <= 4-man placements x half-move clock 0..99 x Hash {8,16,64} x Threads 1..4, several
// consecutive roots per engine process (table reuse, class switches, table dropped after non-TB roots);
// "go infinite", wait until iteration 2 is complete (the on-demand table answers every child of the
// root from iteration 2 on), "stop"; judged against refdtm (independent, validated DTM tables).
// See DESIGN.md §3 C13 and notes/C13.md for the 50-move reading.
#include "common/vh.hpp"
#include "common/gen.hpp"
#include "common/uci.hpp"
#include "harness/refdtm.hpp"
#include "harness/ucisearch.hpp"
#include <algorithm>
#include <set>

using vh::Value;
using vh::Choices;

namespace {

std::string gExe, gWork;
std::vector<std::string> gNets, gClasses;
int gWaitMs = 90000, gAnswerMs = 60000, gMaxThreads = 4;
std::set<std::string> gStrata;

struct Root { std::string fen; std::string cls; bool interlude = false; };
struct Case { int net = 0, hash = 16, threads = 1; std::vector<Root> r; };

Value toJson(const Case& k) {
    Value v = Value::object();
    v["net"] = k.net; v["hash"] = k.hash; v["threads"] = k.threads;
    Value a = Value::array();
    for (auto& r : k.r) { Value o = Value::object(); o["fen"] = r.fen; o["class"] = r.cls; o["interlude"] = r.interlude; a.push(o); }
    v["roots"] = a;
    return v;
}
Case fromJson(const Value& v) {
    Case k; k.net = (int)v.getInt("net", 0); k.hash = (int)v.getInt("hash", 16); k.threads = (int)v.getInt("threads", 1);
    for (auto& o : v.at("roots").a) { Root r; r.fen = o.getStr("fen"); r.cls = o.getStr("class"); r.interlude = o.getBool("interlude", false); k.r.push_back(r); }
    return k;
}

// classes in which the side with the men can never profit from a zeroing move: every capture (only the
// lone king can capture) leaves a drawn class, so "hmc + plies-to-mate > 100" really is a draw
bool loneKingDrawClass(const std::string& key) {
    static const std::set<std::string> s = {"KQk", "KRk", "KBk", "KNk", "Kkq", "Kkr", "Kkb", "Kkn", "KBBk", "KBNk", "KNNk", "Kkbb", "Kkbn", "Kknn"};
    return s.count(key) != 0;
}

bool genRoot(Choices& c, const std::string& key, Root& out) {
    refdtm::Table* t = refdtm::tables().get(key);
    ref::Pos p; bool have = false;
    if (c.chance(1, 3)) {
        for (int tries = 0; tries < 30 && !have; tries++) {
            refdtm::MP m; m.wtm = c.flip();
            for (int i = 0; i < t->n; i++) m.sq[i] = c.pick(64);
            if (!t->legalPlacement(m)) continue;
            p = t->toPos(m); have = true;
        }
    }
    if (!have) {
        std::vector<int> codes;
        for (auto& kv : t->samples) if (kv.first != 0) codes.push_back(kv.first);
        int code = (codes.empty() || (t->samples.count(0) && c.chance(1, 5))) ? 0 : c.of(codes); // a fifth of the stratified roots are draws
        p = refdtm::symPos(t->posOf(c.of(t->samples[code])), c.pick(8));
        gStrata.insert(key + ":" + std::to_string(code));
    }
    if (ref::legalMoves(p).empty()) return false; // checkmate / stalemate roots: nothing to search
    refdtm::Value v = refdtm::probe(p);
    int kind = c.pick(10);
    if (kind < 3) p.hmc = c.range(0, 30);
    else if (kind < 7 && v.wdl != 0) p.hmc = std::min(99, std::max(0, 100 - v.plies + c.range(-4, 4))); // around the 50-move boundary
    else p.hmc = c.range(0, 99);
    p.fmc = 1 + p.hmc / 2 + c.range(0, 40);
    out.fen = ref::toFEN(p); out.cls = key; out.interlude = false;
    return true;
}

Root genInterlude(Choices& c) {
    static const std::vector<std::string> fens = {
        "8/8/4k3/8/8/3PK3/8/R7 w - - 0 1", "8/5k2/8/8/2p5/8/3K4/QR6 w - - 0 1", "6k1/5ppp/8/8/8/8/5PPP/6K1 w - - 0 1",
        "8/8/3k4/8/8/2BNK3/8/7r b - - 0 1", "4k3/8/8/8/8/8/4P3/4K3 w - - 0 1", "2r5/8/3k4/8/8/2Q1K3/8/5B1n w - - 0 1"};
    Root r; r.fen = c.of(fens); r.cls = "interlude"; r.interlude = true;
    return r;
}

std::string mateStr(const refdtm::Value& v) { return v.wdl > 0 ? "mate " + std::to_string(v.moves()) : v.wdl < 0 ? "mate -" + std::to_string(v.moves()) : "draw"; }

// ---- judge one TB root ------------------------------------------------------------------------
std::string judge(const Root& rt, const us::Result& r, vh::Stats& st, bool& nontrivial, const std::function<Value()>& sample) {
    ref::Pos root;
    if (!ref::fromFEN(rt.fen, root)) return "";
    refdtm::Value v = refdtm::probe(root);
    if (!v.ok) return "";
    const int h = root.hmc, P = v.plies, N = v.moves();
    const bool within = v.wdl != 0 && h + P <= 100;
    const bool frustrated = v.wdl != 0 && !within;
    const bool lone = loneKingDrawClass(rt.cls);
    nontrivial = (v.wdl != 0 && N >= 3) || h >= 60;
    // the last exact score of an iteration >= 2
    const us::Line* last = nullptr;
    bool tb = false;
    for (const us::Line& l : r.pv) {
        if (l.inf.tbhits > 0) tb = true;
        if (l.inf.depth >= 2 && l.inf.hasScore && !l.inf.upper && !l.inf.lower) last = &l;
    }
    auto ctx = [&]() { return " [root " + mateStr(v) + " (" + std::to_string(P) + " plies), hmc " + std::to_string(h) + (tb ? "" : ", no tbhits reported") + "]"; };
    // (1) winning announcements must be true even when the 50-move rule is ignored; with the rule, in classes
    //     without useful zeroing moves, they must not occur at all once hmc + plies > 100
    for (const us::Line& l : r.pv) {
        const uci::Info& inf = l.inf;
        if (!inf.hasScore || !inf.mate || inf.score <= 0 || inf.upper) continue;
        if (!(v.wdl > 0 && N <= inf.score)) return "announcement '" + l.raw.substr(0, 140) + "' is false" + ctx();
        if (frustrated && lone) return "announcement '" + l.raw.substr(0, 140) + "' although the mate cannot be completed before the 50-move limit" + ctx();
    }
    if (!last) { st.count("inconclusive: no exact score at depth >= 2"); return ""; }
    const uci::Info& f = last->inf;
    ref::Move bm = ref::Move::fromUci(r.best);
    if (!bm.valid() || !ref::isLegal(root, bm)) return "bestmove " + r.best + " is not legal" + ctx();
    ref::Pos child = ref::make(root, bm);
    refdtm::Value cv = refdtm::probe(child);
    if (within && v.wdl > 0) {
        st.clsSample("root won, mate inside the 50-move limit", sample);
        if (!(f.mate && f.score == N)) return "last exact score '" + last->raw.substr(0, 120) + "' is not the distance to mate" + ctx();
        if (!(cv.ok && cv.wdl < 0 && cv.plies == P - 1)) return "bestmove " + r.best + " does not follow a shortest mate: afterwards " + mateStr(cv) + " (" + std::to_string(cv.plies) + " plies) for the side to move" + ctx();
    } else if (within && v.wdl < 0) {
        st.clsSample("root lost, mate inside the 50-move limit", sample);
        if (!(f.mate && f.score == -N)) return "last exact score '" + last->raw.substr(0, 120) + "' is not the distance to mate" + ctx();
        st.count((cv.ok && cv.wdl > 0 && cv.plies == P - 1) ? "lost root: bestmove is a longest defence" : "lost root: bestmove is not a longest defence (not asserted)");
    } else if (v.wdl == 0) {
        st.clsSample("root drawn", sample);
        if (f.mate) return "last exact score '" + last->raw.substr(0, 120) + "' is a mate score in a drawn position" + ctx();
        if (cv.ok && cv.wdl > 0 && child.hmc + cv.plies <= 100) return "bestmove " + r.best + " turns a draw into a loss: afterwards the opponent has " + mateStr(cv) + ctx();
    } else if (lone) {
        st.clsSample("root beyond the 50-move limit, class without zeroing moves", sample);
        if (f.mate) return "last exact score '" + last->raw.substr(0, 120) + "' is a mate score although the mate cannot be completed before the 50-move limit" + ctx();
    } else {
        st.clsSample("root beyond the 50-move limit, zeroing captures possible (only announcements checked)", sample);
    }
    if (!tb) st.count("judged root without tbhits in any line");
    return "";
}

std::string runCase(const Case& k, vh::Stats& st, bool& inconclusive, Value& tail) {
    us::Session ss;
    std::string net = gNets[(size_t)k.net % gNets.size()];
    if (!ss.start(gExe, net, gWork, {{"Hash", std::to_string(k.hash)}, {"Threads", std::to_string(k.threads)}})) { inconclusive = true; ss.e.kill(); return ""; }
    std::string err, resident; // class the engine's table was built for, as far as we know
    int idx = 0, interludes = 0;
    std::set<std::string> seen;
    for (const Root& rt : k.r) {
        idx++;
        if (rt.interlude && rt.cls.rfind("clear:", 0) == 0) {
            ss.e.send(rt.cls.substr(6));
            ss.e.send("isready");
            if (ss.e.waitLine("readyok", 60000) < 0) { if (ss.e.tryReap()) { err = "engine died after " + rt.cls.substr(6) + ": " + ss.e.exitDesc(); break; } inconclusive = true; break; }
            resident.clear();
            st.cls("hash cleared between two tablebase roots");
            continue;
        }
        if (rt.interlude && rt.cls.rfind("abort:", 0) == 0) {
            // a search on a tablebase root that is stopped a generated number of milliseconds after the go, i.e. (for a class
            // whose table is not resident) while the on-demand table is being generated; not judged itself
            int ms = atoi(rt.cls.c_str() + 6);
            us::Result r = ss.goInfinite(rt.fen, [](const std::string&) { return false; }, ms, gAnswerMs);
            if (r.died) { err = r.why; break; }
            if (!r.answered) { inconclusive = true; break; }
            bool gotScore = false;
            for (const us::Line& l : r.pv) if (l.inf.hasScore) gotScore = true;
            st.cls(gotScore ? "search stopped early on a tablebase root (after its first score)" : "search stopped before its first score (during table generation for 4-man roots)");
            resident.clear();
            continue;
        }
        if (rt.interlude) {
            us::Result r = ss.goInfinite(rt.fen, [](const std::string& l) { return l.rfind("info depth 2", 0) == 0; }, 2000, gAnswerMs);
            if (r.died) { err = r.why; break; }
            if (!r.answered) { inconclusive = true; break; }
            if (++interludes >= 5) resident.clear();
            st.count("interlude searches (non-tablebase roots)");
            continue;
        }
        auto trigger = [](const std::string& l) {
            if (l.rfind("info depth ", 0) != 0) return false;
            uci::Info inf; uci::parseInfo(l, inf);
            if (!inf.hasScore) return inf.depth >= 3;                                   // iteration 3 starts: iteration 2 is complete
            return inf.depth >= 2 && inf.mate && inf.score == 1 && !inf.upper && !inf.lower; // mate in one ends the search after iteration 2
        };
        us::Result r = ss.goInfinite(rt.fen, trigger, gWaitMs, gAnswerMs);
        if (r.died) { err = r.why; break; }
        if (!r.answered) { inconclusive = true; st.count("inconclusive: no answer in time"); break; }
        if (!r.triggered) { st.count("inconclusive: iteration 2 not finished in time"); resident = rt.cls; interludes = 0; continue; }
        st.count("tablebase roots searched");
        bool nt = false;
        auto sample = [&]() { Value o = Value::object(); o["fen"] = rt.fen; o["class"] = rt.cls; o["hash"] = k.hash; o["threads"] = k.threads; o["net"] = k.net; o["root_no_in_process"] = idx;
                              refdtm::Value dv = refdtm::probe([&]() { ref::Pos p; ref::fromFEN(rt.fen, p); return p; }()); o["refdtm"] = mateStr(dv);
                              for (size_t i = r.pv.size(); i-- > 0;) if (!r.pv[i].inf.upper && !r.pv[i].inf.lower) { o["last_exact_line"] = r.pv[i].raw.substr(0, 120); break; }
                              o["bestmove"] = r.best; return o; };
        std::string v = judge(rt, r, st, nt, sample);
        const char* how = resident == rt.cls ? "reuse of the resident table" : resident.empty() && interludes >= 5 ? "regeneration after the table was dropped" :
                          seen.count(rt.cls) ? "class switch back to an earlier class" : idx == 1 || resident.empty() ? "first table of the process" : "class switch";
        st.clsSample(how, sample);
        if (nt) { st.nt(rt.fen + "|" + std::to_string(k.hash) + "|" + std::to_string(k.threads) + "|" + std::to_string(k.net) + "|" + how); st.cls("non-trivial root (DTM >= 3 or hmc >= 60)"); }
        if (k.threads > 1) st.cls("Threads > 1");
        st.count("Hash " + std::to_string(k.hash));
        st.count("class " + rt.cls);
        resident = rt.cls; interludes = 0; seen.insert(rt.cls);
        if (!v.empty()) { err = "root " + std::to_string(idx) + " (" + rt.fen + ", " + how + "): " + v; break; }
    }
    if (!err.empty()) tail = ss.tail(40);
    if (err.empty() && !inconclusive) err = ss.finish(inconclusive); else ss.e.kill();
    return err;
}

void runAndJudge(const Case& k, vh::Stats& st) {
    if (k.r.empty()) return;
    st.evaluations++;
    bool inc = false; Value tail;
    std::string e = runCase(k, st, inc, tail);
    if (inc) { st.inconclusive++; return; }
    if (!e.empty()) { Value v = toJson(k); v["transcript_tail"] = tail; vh::fail(v, e); }
}

std::vector<std::string> splitList(const std::string& s) {
    std::vector<std::string> r; size_t p = 0;
    while (p <= s.size()) { size_t q = s.find(',', p); if (q == std::string::npos) q = s.size(); if (q > p) r.push_back(s.substr(p, q - p)); p = q + 1; }
    return r;
}

} // namespace

int main(int argc, char** argv) {
    vh::Args a = vh::parseArgs(argc, argv);
    vh::installDeathHooks();
    vh::Stats& st = vh::ctx().stats;
    vh::ctx().shrinkBudget = a.num("shrink", 25);
    gExe = a.str("engine", "/verif/build/opt/bin/texel");
    gNets = splitList(a.str("nets", "/verif/build/nets/material-1.net"));
    gClasses = splitList(a.str("classes", "KQk,KRk,Kkq,Kkr"));
    if (a.str("classes") == "all") gClasses = refdtm::Tables::allClasses();
    gWaitMs = (int)a.num("wait-ms", 90000); gAnswerMs = (int)a.num("answer-ms", 60000); gMaxThreads = (int)a.num("max-threads", 4);
    int maxRoots = (int)a.num("max-roots", 10);
    refdtm::tables().verbose = a.num("verbose", 0) != 0;
    refdtm::tables().cacheDir = a.str("dtm-cache", "");
    if (!refdtm::tables().cacheDir.empty() && system(("mkdir -p '" + refdtm::tables().cacheDir + "'").c_str())) {}
    gWork = "/tmp/verif-c13-" + std::to_string(getpid());
    if (system(("mkdir -p " + gWork).c_str())) {}
    int rc;
    if (!a.replay.empty()) {
        rc = vh::runReplay([&](const std::string&, const Value& k) {
            Case c = fromJson(k);
            long rep = std::max(a.num("repeat", 3), (long)k.getInt("repeat", 0)); // thread-timing dependent findings record their own repeat count
            for (long i = 0; i < rep; i++) runAndJudge(c, st);
        });
    } else {
        vh::runProp("roots", a.cases, 3.0, [&](Choices& c) {
            Case k;
            k.net = c.pick((int)gNets.size());
            k.hash = c.of(std::vector<int>{8, 16, 64});
            k.threads = c.chance(1, 2) ? 1 : c.range(2, std::max(2, gMaxThreads));
            int n = c.range(3, maxRoots);
            // classes that are drawn throughout (K+minor v K) get a quarter of the weight of the others
            std::vector<std::string> four, three;
            for (auto& k : gClasses) (k.size() >= 4 ? four : three).push_back(k);
            auto pickClass = [&]() {
                if (!four.empty() && (three.empty() || c.chance(1, 2))) return c.of(four);
                std::string k = c.of(three);
                if (strchr("BNbn", k[1] == 'k' ? k[2] : k[1]) && !c.chance(1, 4)) k = c.of(three); // K+minor v K: all drawn, lower weight
                return k;
            };
            std::string cls = pickClass();
            for (int i = 0; i < n && (i < 3 || !c.empty()); i++) {
                if (i > 0 && c.chance(1, 4)) cls = pickClass();
                if (i > 0 && c.chance(1, 14)) { int m = c.range(5, 6); Root il = genInterlude(c); for (int j = 0; j < m; j++) k.r.push_back(il); }
                // the hash table (which hosts the on-demand table) is cleared between two roots: the next root must regenerate
                if (i > 0 && c.chance(1, 5)) { Root cl; cl.interlude = true; cl.cls = c.flip() ? "clear:ucinewgame" : "clear:setoption name Clear Hash"; k.r.push_back(cl); }
                // ... or the table is (re)generated for a search that is stopped 0..1200 ms after its go; the roots that follow in
                // the same class must still get exact answers
                if (i > 0 && c.chance(1, 5)) {
                    Root cl; cl.interlude = true; cl.cls = "clear:setoption name Clear Hash"; k.r.push_back(cl);
                    Root ab;
                    if (genRoot(c, cls, ab)) { ab.interlude = true; ab.cls = "abort:" + std::to_string(c.of(std::vector<int>{0, 0, 5, 20, 60, 150, 300, 600, c.range(0, 1200)})); k.r.push_back(ab); }
                }
                Root r;
                if (genRoot(c, cls, r)) k.r.push_back(r); else st.discarded++;
            }
            runAndJudge(k, st);
        });
        st.count("dtm strata (class:value) sampled", (long)gStrata.size());
        rc = vh::finish();
    }
    if (system(("rm -rf " + gWork).c_str())) {}
    return rc;
}
