// C17  Move, position and game text formats round-trip (rapidcheck part).
//  sub "moves": for every legal move of generated positions the short, long and
//    UCI text forms parse back to the move; the short form equals refchess's
//    independent SAN (texel omits the '=' of promotions) incl. the +/# suffix, the
//    long form equals an independently built LAN; short forms are pairwise distinct;
//    the standard SAN spelling (with '=') and the suffix-less spelling parse too.
//  sub "pgn": model game trees (variations <= depth 4, comments, NAGs, !?-style
//    suffixes, tags with escapes, FEN starts, several games per stream) written by
//    this harness's own PGN writer => PgnReader => structural equality with the
//    model; getGameTreeString equals the independently built string and reads back
//    to the same move tree.
//  --replay also dispatches libFuzzer artefacts (sub "fuzz:<target>" or a raw
//    file named C17-<target>-...) to build/fuzz/bin/<target>.
//  --mkcorpus DIR --fens FILE: writes seed corpora for the fuzz targets.
#include "common/vh.hpp"
#include "common/gen.hpp"
#include "common/tx.hpp"
#include "gametree.hpp"
#include "computerPlayer.hpp"
#include <fstream>
#include <iostream>
#include <sstream>

using vh::Value;
using vh::Choices;

namespace {

// ---------------------------------------------------------------- moves ----
std::string stripEq(std::string s) { s.erase(std::remove(s.begin(), s.end(), '='), s.end()); return s; }
std::string stripSuffix(std::string s) { while (!s.empty() && (s.back() == '+' || s.back() == '#')) s.pop_back(); return s; }

// long algebraic form as texel documents it ("Ng1-f3", "e7xd8Q+"), built on refchess
std::string refLan(const ref::Pos& p, const ref::Move& m) {
    std::string r;
    if (ref::isCastle(p, m)) r = ref::X(m.to) == 6 ? "O-O" : "O-O-O";
    else {
        char pc = ref::lower(p.b[m.from]);
        if (pc != 'p') r += ref::upper(pc);
        r += ref::sqName(m.from);
        r += ref::isCapture(p, m) ? 'x' : '-';
        r += ref::sqName(m.to);
        if (m.promo) r += ref::upper(m.promo);
    }
    ref::Pos n = ref::make(p, m);
    if (ref::inCheck(n, n.wtm)) r += ref::legalMoves(n).empty() ? '#' : '+';
    return r;
}

// 0 none, 1 file, 2 rank, 3 both (from refchess's SAN)
int disambKind(const ref::Pos& p, const ref::Move& m, const std::string& san) {
    char pc = ref::lower(p.b[m.from]);
    if (pc == 'p' || ref::isCastle(p, m)) return 0;
    std::string b = stripSuffix(san).substr(1);
    b.erase(std::remove(b.begin(), b.end(), 'x'), b.end());
    b = b.substr(0, b.size() - 2);
    if (b.empty()) return 0;
    if (b.size() == 2) return 3;
    return (b[0] >= 'a' && b[0] <= 'h') ? 1 : 2;
}

std::string checkMoves(const ref::Pos& r, vh::Stats& st, const std::string& origin) {
    std::string fen = ref::toFEN(r);
    Position pos = TextIO::readFEN(fen);
    std::vector<ref::Move> legal = ref::legalMoves(r);
    std::map<std::string, ref::Move> shortForms;
    bool file = false, rank = false, both = false, capPromoCheck = false, mate = false, ep = false, under = false, castleCheck = false;
    for (const ref::Move& m : legal) {
        Move tm = tx::toTexel(m, r.wtm);
        std::string san = ref::san(r, m), lan = refLan(r, m);
        std::string s = TextIO::moveToString(pos, tm, false);
        std::string l = TextIO::moveToString(pos, tm, true);
        std::string u = TextIO::moveToUCIString(tm);
        if (s != stripEq(san)) return "short form of " + m.uci() + " is '" + s + "', SAN is '" + san + "'";
        if (l != lan) return "long form of " + m.uci() + " is '" + l + "', expected '" + lan + "'";
        if (u != m.uci()) return "UCI form of " + m.uci() + " is '" + u + "'";
        auto it = shortForms.find(s);
        if (it != shortForms.end()) return "moves " + it->second.uci() + " and " + m.uci() + " share the short form '" + s + "'";
        shortForms[s] = m;
        Position work(pos);
        auto back = [&](const std::string& txt, const char* what) -> std::string {
            Move b = TextIO::stringToMove(work, txt);
            if (!(work == pos)) return std::string("stringToMove modified the position while parsing '") + txt + "'";
            if (!(b == tm)) return std::string(what) + " '" + txt + "' of " + m.uci() + " parses back to " + (b.isEmpty() ? std::string("no move") : tx::toRef(b).uci());
            return "";
        };
        std::string e;
        if (!(e = back(s, "short form")).empty()) return e;
        if (!(e = back(l, "long form")).empty()) return e;
        if (!(e = back(san, "standard SAN")).empty()) return e;
        if (!(e = back(stripSuffix(san), "SAN without suffix")).empty()) return e;
        Move bu = TextIO::uciStringToMove(u);
        if (!(bu == tm)) return "UCI form '" + u + "' parses back to " + tx::toRef(bu).uci();
        int k = disambKind(r, m, san);
        if (k == 1) file = true; else if (k == 2) rank = true; else if (k == 3) both = true;
        bool chk = san.back() == '+' || san.back() == '#';
        if (m.promo && ref::isCapture(r, m) && chk) capPromoCheck = true;
        if (san.back() == '#') mate = true;
        if (ref::isEp(r, m)) ep = true;
        if (m.promo && m.promo != 'q') under = true;
        if (ref::isCastle(r, m) && chk) castleCheck = true;
    }
    auto mk = [&]() { Value v = Value::object(); v["fen"] = fen; v["origin"] = origin; v["legal_moves"] = (long)legal.size(); return v; };
    if (file) st.clsSample("file disambiguation", mk);
    if (rank) st.clsSample("rank disambiguation", mk);
    if (both) st.clsSample("file+rank disambiguation", mk);
    if (capPromoCheck) st.clsSample("capture-promotion with check", mk);
    if (mate) st.clsSample("mating move (#)", mk);
    if (ep) st.clsSample("e.p. capture", mk);
    if (under) st.clsSample("under-promotion", mk);
    if (castleCheck) st.clsSample("castling with check", mk);
    if (file || rank || both) st.nt(fen); else st.cls("no disambiguation needed");
    st.count("moves checked", (long)legal.size());
    return "";
}

Value posCase(const std::string& fen) { Value k = Value::object(); k["fen"] = fen; return k; }

void runPos(const std::string& sub, const ref::Pos& r, vh::Stats& st, const std::string& origin) {
    Value k = posCase(ref::toFEN(r));
    vh::setCurrent(sub, k);
    st.evaluations++;
    std::string e = checkMoves(r, st, origin);
    if (!e.empty()) vh::fail(k, e + "  [fen " + ref::toFEN(r) + "]");
    vh::clearCurrent();
}

// three or four like pieces around a target so that file, rank and file+rank
// disambiguation all occur (rectangle corners / lines through the target)
gen::Placed placeRect(Choices& c) {
    gen::Placed out;
    ref::Pos& p = out.p;
    p.wtm = c.flip();
    bool w = p.wtm;
    static const char kinds[4] = {'q', 'r', 'b', 'n'};
    char kind = kinds[c.pick(4)];
    auto own = [&](char pc) { return w ? ref::upper(pc) : pc; };
    int tx_ = c.range(1, 6), ty = c.range(1, 6);
    int target = ref::SQ(tx_, ty);
    std::vector<int> from;
    for (int s = 0; s < 64; s++) {
        if (s == target) continue;
        int dx = abs(ref::X(s) - tx_), dy = abs(ref::Y(s) - ty);
        bool ok = kind == 'n' ? dx * dy == 2 : kind == 'r' ? (dx == 0 || dy == 0) : kind == 'b' ? dx == dy : (dx == 0 || dy == 0 || dx == dy);
        if (ok) from.push_back(s);
    }
    int n = c.range(3, 5);
    // first piece anywhere, then prefer squares sharing a file or a rank with an already placed one
    std::vector<int> placed;
    for (int i = 0; i < n && !from.empty(); i++) {
        std::vector<int> pref;
        for (int s : from) for (int q : placed) if (ref::X(s) == ref::X(q) || ref::Y(s) == ref::Y(q)) { pref.push_back(s); break; }
        int s = (!pref.empty() && c.chance(3, 4)) ? pref[c.pick((int)pref.size())] : from[c.pick((int)from.size())];
        gen::put(p, s, own(kind));
        placed.push_back(s);
        from.erase(std::find(from.begin(), from.end(), s));
    }
    if (c.flip()) gen::put(p, target, w ? 'n' : 'N');
    int ks = gen::emptySquare(c, p); gen::put(p, ks, own('k'));
    int os = gen::emptySquare(c, p); gen::put(p, os, w ? 'k' : 'K');
    gen::placeMen(c, p, gen::sideMen(c, c.range(0, 3), false), !w);
    out.ok = gen::finalize(p);
    out.tmpl = -1;
    return out;
}

// ------------------------------------------------------------------ pgn ----
struct Cmt { std::string s; bool semi = false; };
struct MNode {
    ref::Move mv;
    std::string text;         // the move token as written (without annotation suffix)
    std::string suffix;       // "", "!", "?", "!!", "??", "!?", "?!"
    int dollar = -1;          // $n written after the move, or -1
    int nag = 0;              // expected NAG
    std::vector<Cmt> pre, post;
    std::vector<MNode> kids;  // kids[0] = main continuation, others = variations in order
    std::string preStr() const { std::string r; for (auto& c : pre) r += c.s; return r; }
    std::string postStr() const { std::string r; for (auto& c : post) r += c.s; return r; }
};
struct MGame {
    std::string startFen;                                  // "" = standard start
    std::vector<std::pair<std::string, std::string>> tags;  // as written, in order (raw values)
    std::string result;                                     // terminator written
    MNode root;
    int nodes = 0, maxVarDepth = 0;
};

int suffixNag(const std::string& s) {
    static const char* t[] = {"", "!", "?", "!!", "??", "!?", "?!"};
    for (int i = 1; i < 7; i++) if (s == t[i]) return i;
    return 0;
}

std::string texelSan(const ref::Pos& p, const ref::Move& m) { return stripEq(ref::san(p, m)); }

std::string moveText(Choices& c, const ref::Pos& p, const ref::Move& m) {
    std::string san = ref::san(p, m);
    switch (c.pick(10)) {
    case 0: return stripSuffix(san);
    case 1: return stripEq(san);
    case 2: return refLan(p, m);
    case 3: { // coordinates; promotion piece in upper case (a trailing lower-case 'b' would read as a file)
        if (ref::isCastle(p, m)) return san;
        std::string r = ref::sqName(m.from) + ref::sqName(m.to);
        if (m.promo) r += ref::upper(m.promo);
        return r;
    }
    case 4: if (ref::isCastle(p, m)) return ref::X(m.to) == 6 ? "0-0" : "0-0-0"; return san;
    default: return san;
    }
}

void genLine(Choices& c, const ref::Pos& start, MNode& parent, int varDepth, int& budget, int maxLen, MGame& g) {
    g.maxVarDepth = std::max(g.maxVarDepth, varDepth);
    ref::Pos cur = start;
    MNode* node = &parent;
    int len = c.range(varDepth == 0 ? 1 : 0, maxLen);
    for (int i = 0; i < len && budget > 0; i++) {
        std::vector<ref::Move> lm = ref::legalMoves(cur);
        if (lm.empty()) break;
        int nvar = (varDepth < 4 && c.chance(1, 4)) ? c.range(1, 2) : 0;
        std::vector<ref::Move> ms;
        ms.push_back(lm[c.pick((int)lm.size())]);
        for (int v = 0; v < nvar; v++) ms.push_back(lm[c.pick((int)lm.size())]);
        node->kids.resize(ms.size());
        for (size_t k = 0; k < ms.size(); k++) { node->kids[k].mv = ms[k]; node->kids[k].text = moveText(c, cur, ms[k]); budget--; g.nodes++; }
        for (size_t k = 1; k < ms.size(); k++) genLine(c, ref::make(cur, ms[k]), node->kids[k], varDepth + 1, budget, std::max(1, maxLen / 2), g);
        cur = ref::make(cur, ms[0]);
        node = &node->kids[0];
    }
}

struct Writer {
    Choices& c;
    std::string out;
    bool semiOpen = false; // last thing written was a ';' comment that needs its newline
    std::string sep() {
        switch (c.pick(12)) { case 0: return "\n"; case 1: return "  "; case 2: return "\t"; case 3: return "\r\n"; case 4: return " \n"; default: return " "; }
    }
    std::string commentText() {
        static const char* pool[] = {"good", "[%eval 0,1] [%emt 0:00:00]", "a; b", "( x )", "{", "1. e4 e5", "$1 !?", "\"quoted\"", "\\", "tab\there", "ä", "*", "1-0", "[Event \"x\"]", ".", "multi\nline", "x\n y %not-escaped"};
        std::string s = pool[c.pick(sizeof pool / sizeof *pool)];
        if (c.chance(1, 3)) { int n = c.range(1, 12); for (int i = 0; i < n; i++) { char ch = (char)c.range(32, 126); if (ch == '}') ch = ')'; s += ch; } }
        return s;
    }
    void comment(std::vector<Cmt>& into) {
        int n = c.chance(1, 5) ? 2 : 1;
        for (int i = 0; i < n; i++) {
            Cmt k;
            k.s = commentText();
            k.semi = c.chance(1, 5);
            if (k.semi) {
                for (auto& ch : k.s) if (ch == '\n' || ch == '\r') ch = ' ';
                out += sep() + ";" + k.s + "\n";
            } else {
                // the escape mechanism drops a line whose first character is '%', also inside a comment
                std::string t;
                for (size_t j = 0; j < k.s.size(); j++) { if (k.s[j] == '%' && j > 0 && (k.s[j - 1] == '\n' || k.s[j - 1] == '\r')) t += ' '; t += k.s[j]; }
                if (!t.empty() && t[0] == '%') t = " " + t; // "{%" right after a newline separator
                k.s = t;
                out += (c.chance(1, 4) ? std::string("") : sep()) + "{" + k.s + "}";
            }
            into.push_back(k);
        }
    }
    void moveNumber(const ref::Pos& p, bool force) {
        if (p.wtm) { if (force || c.chance(3, 4)) out += sep() + std::to_string(p.fmc) + "." + (c.chance(1, 3) ? " " : ""); }
        else if (force ? c.chance(2, 3) : c.chance(1, 8)) out += sep() + std::to_string(p.fmc) + "..." + (c.chance(1, 3) ? " " : "");
    }
    void move(MNode& n, const ref::Pos& p, bool preAllowed, bool firstOfLine) {
        if (preAllowed && c.chance(1, 6)) comment(n.pre);
        moveNumber(p, firstOfLine);
        if (out.empty() || (out.back() != '.' && out.back() != ' ' && out.back() != '\n' && out.back() != '\t') || c.chance(1, 2)) out += sep();
        static const char* sfx[] = {"!", "?", "!!", "??", "!?", "?!"};
        if (c.chance(1, 6)) n.suffix = sfx[c.pick(6)];
        out += n.text + n.suffix;
        n.nag = suffixNag(n.suffix);
        if (c.chance(1, 8)) { n.dollar = c.range(1, 139); out += (c.chance(1, 3) ? "" : " ") + std::string("$") + std::to_string(n.dollar); n.nag = n.dollar; }
        if (c.chance(1, 6)) comment(n.post);
    }
    void line(MNode& parent, const ref::Pos& p, bool firstOfLine, bool afterVar) {
        if (parent.kids.empty()) return;
        MNode& main = parent.kids[0];
        move(main, p, firstOfLine || afterVar, firstOfLine || afterVar);
        for (size_t k = 1; k < parent.kids.size(); k++) {
            out += (c.chance(1, 4) ? "" : sep()) + std::string("(");
            move(parent.kids[k], p, true, true);
            line(parent.kids[k], ref::make(p, parent.kids[k].mv), false, false);
            out += (c.chance(1, 2) ? "" : sep()) + std::string(")");
        }
        line(main, ref::make(p, main.mv), false, parent.kids.size() > 1);
    }
};

std::string escapeTag(const std::string& v) { std::string r; for (char ch : v) { if (ch == '"' || ch == '\\') r += '\\'; r += ch; } return r; }

std::string tagValue(Choices& c) {
    static const char* pool[] = {"?", "event01", "white player", "2016.04.09", "say \"hi\"", "back\\slash", "a]b[c", "{x}", "(y)", "1-0", "semi;colon", "ü", ""};
    std::string s = pool[c.pick(sizeof pool / sizeof *pool)];
    if (c.chance(1, 4)) { int n = c.range(1, 10); for (int i = 0; i < n; i++) s += (char)c.range(32, 126); }
    return s;
}

// one game: generate the model, write it; returns the PGN text of the game
std::string genGame(Choices& c, MGame& g, int maxNodes) {
    ref::Pos start = ref::startPos();
    if (c.chance(1, 3)) {
        gen::Game pre = gen::game(c, 60);
        start = pre.pos.back();
        ref::normalizeEp(start); // what a FEN writer following texel's convention would emit
        g.startFen = ref::toFEN(start);
    }
    Writer w{c};
    static const char* roster[] = {"Event", "Site", "Date", "Round", "White", "Black", "Result"};
    static const char* results[] = {"1-0", "0-1", "1/2-1/2", "*"};
    g.result = results[c.pick(4)];
    bool fullRoster = c.chance(1, 2);
    for (const char* t : roster) if (fullRoster || (std::string(t) == "Event")) g.tags.push_back({t, std::string(t) == "Result" ? g.result : tagValue(c)});
    if (!g.startFen.empty()) { if (c.flip()) g.tags.push_back({c.flip() ? "SetUp" : "Setup", "1"}); g.tags.push_back({"FEN", g.startFen}); }
    int extra = c.chance(1, 3) ? c.range(1, 3) : 0;
    static const char* names[] = {"ECO", "Annotator", "PlyCount", "TimeControl", "X_y9"};
    for (int i = 0; i < extra; i++) g.tags.push_back({std::string(names[c.pick(5)]) + (i ? std::to_string(i) : ""), tagValue(c)});
    for (auto& t : g.tags) w.out += "[" + t.first + (c.chance(1, 6) ? "  " : " ") + "\"" + escapeTag(t.second) + "\"]" + (c.chance(1, 10) ? " " : "\n");
    w.out += "\n";
    if (c.chance(1, 10)) w.out += "%this line is escaped 1. e4 (\n";
    int budget = maxNodes;
    genLine(c, start, g.root, 0, budget, c.range(1, 30), g);
    w.line(g.root, start, true, false);
    w.out += w.sep() + g.result + "\n";
    return w.out;
}

// JSON (de)serialisation of the model for replay files
Value nodeJson(const MNode& n) {
    Value v = Value::object();
    v["uci"] = n.mv.uci(); v["nag"] = n.nag; v["pre"] = n.preStr(); v["post"] = n.postStr();
    Value k = Value::array();
    for (auto& c : n.kids) k.push(nodeJson(c));
    v["kids"] = k;
    return v;
}
MNode nodeFrom(const Value& v) {
    MNode n;
    n.mv = ref::Move::fromUci(v.getStr("uci"));
    n.nag = (int)v.getInt("nag", 0);
    if (!v.getStr("pre").empty()) n.pre.push_back({v.getStr("pre"), false});
    if (!v.getStr("post").empty()) n.post.push_back({v.getStr("post"), false});
    if (const Value* k = v.find("kids")) for (auto& c : k->a) n.kids.push_back(nodeFrom(c));
    return n;
}
Value gameJson(const MGame& g) {
    Value v = Value::object();
    v["fen"] = g.startFen;
    Value t = Value::array();
    for (auto& kv : g.tags) { Value p = Value::array(); p.push(Value(kv.first)); p.push(Value(kv.second)); t.push(p); }
    v["tags"] = t;
    v["result"] = g.result;
    v["tree"] = nodeJson(g.root);
    return v;
}
MGame gameFrom(const Value& v) {
    MGame g;
    g.startFen = v.getStr("fen");
    if (const Value* t = v.find("tags")) for (auto& p : t->a) if (p.a.size() == 2) g.tags.push_back({p.a[0].s, p.a[1].s});
    g.result = v.getStr("result");
    g.root = nodeFrom(v.at("tree"));
    return g;
}

std::string cmpTree(const MNode& m, GameNode& gn, const ref::Pos& p, bool full, const std::string& path) {
    if ((int)m.kids.size() != gn.nChildren())
        return "node [" + path + "] has " + std::to_string(gn.nChildren()) + " children, model has " + std::to_string(m.kids.size());
    for (size_t i = 0; i < m.kids.size(); i++) {
        const MNode& k = m.kids[i];
        gn.goForward((int)i);
        std::string here = path + (path.empty() ? "" : " ") + k.mv.uci() + (i ? "(var" + std::to_string(i) + ")" : "");
        std::string e;
        Move expect = tx::toTexel(k.mv, p.wtm);
        if (!(gn.getMove() == expect)) e = "move at [" + here + "] is " + tx::toRef(gn.getMove()).uci();
        else if (full && gn.getNode()->getNag() != k.nag) e = "NAG at [" + here + "] is " + std::to_string(gn.getNode()->getNag()) + ", model " + std::to_string(k.nag);
        else if (full && gn.getNode()->getPreComment() != k.preStr()) e = "pre-comment at [" + here + "] is '" + gn.getNode()->getPreComment() + "', model '" + k.preStr() + "'";
        else if (full && gn.getNode()->getPostComment() != k.postStr()) e = "post-comment at [" + here + "] is '" + gn.getNode()->getPostComment() + "', model '" + k.postStr() + "'";
        else {
            ref::Pos n = ref::make(p, k.mv);
            std::string d = tx::diff(gn.getPos(), n, 0);
            if (!d.empty()) e = "position at [" + here + "]: " + d;
            else e = cmpTree(k, gn, n, full, here);
        }
        gn.goBack();
        if (!e.empty()) return e;
    }
    return "";
}

void treeString(const MNode& parent, const ref::Pos& p, std::string& s) {
    if (parent.kids.empty()) return;
    if (!s.empty()) s += ' ';
    for (size_t i = 0; i < parent.kids.size(); i++) {
        const MNode& k = parent.kids[i];
        if (i > 0) s += " (";
        s += texelSan(p, k.mv);
        if (i > 0) { treeString(k, ref::make(p, k.mv), s); s += ")"; }
    }
    treeString(parent.kids[0], ref::make(p, parent.kids[0].mv), s);
}

// The oracle for one PGN stream holding the given games.
std::string checkPgn(const std::string& text, const std::vector<MGame>& games) {
    std::istringstream is(text);
    PgnReader reader(is);
    for (size_t gi = 0; gi <= games.size(); gi++) {
        GameTree gt;
        bool ok;
        try {
            ok = reader.readPGN(gt);
        } catch (const ChessParseError& e) {
            return "game " + std::to_string(gi) + ": the reader rejects well-formed PGN: " + e.what();
        }
        if (gi == games.size()) { if (ok) return "the reader finds a game after the last one"; break; }
        if (!ok) return "game " + std::to_string(gi) + ": the reader finds no game";
        const MGame& g = games[gi];
        ref::Pos start = ref::startPos();
        if (!g.startFen.empty()) ref::fromFEN(g.startFen, start);
        GameNode root = gt.getRootNode();
        std::string d = tx::diff(root.getPos(), start, 1);
        if (!d.empty()) return "game " + std::to_string(gi) + ": start position: " + d;
        // tags
        std::map<std::string, std::string> expect = {{"Event", "?"}, {"Site", "?"}, {"Date", "?"}, {"Round", "?"}, {"White", "?"}, {"Black", "?"}};
        for (auto& t : g.tags) {
            if (t.first == "FEN" || t.first == "Setup" || t.first == "Result") continue;
            if (expect.count(t.first) && (t.first == "Event" || t.first == "Site" || t.first == "Date" || t.first == "Round" || t.first == "White" || t.first == "Black")) expect[t.first] = t.second;
            else expect.insert({t.first, t.second});
        }
        std::map<std::string, std::string> hdr;
        gt.getHeaders(hdr);
        if (hdr != expect) {
            std::string a, b;
            for (auto& kv : hdr) a += kv.first + "=" + kv.second + "|";
            for (auto& kv : expect) b += kv.first + "=" + kv.second + "|";
            return "game " + std::to_string(gi) + ": headers " + a + " expected " + b;
        }
        GameTree::Result res = gt.getResult();
        std::string resTag;
        for (auto& t : g.tags) if (t.first == "Result") resTag = t.second;
        GameTree::Result er = resTag == "1-0" ? GameTree::WHITE_WIN : resTag == "0-1" ? GameTree::BLACK_WIN : resTag == "1/2-1/2" ? GameTree::DRAW : GameTree::UNKNOWN;
        if (res != er) return "game " + std::to_string(gi) + ": getResult";
        std::string e = cmpTree(g.root, root, start, true, "");
        if (!e.empty()) return "game " + std::to_string(gi) + ": " + e;
        // writer: getGameTreeString
        std::string str, want;
        std::set<GameTree::RangeToNode> ranges;
        gt.getGameTreeString(str, ranges);
        treeString(g.root, start, want);
        if (str != want) return "game " + std::to_string(gi) + ": getGameTreeString gives '" + str + "', expected '" + want + "'";
        for (auto& rn : ranges) {
            if (rn.begin < 0 || rn.end > (int)str.size() || rn.begin >= rn.end) return "game " + std::to_string(gi) + ": RangeToNode out of range";
            GameNode at = gt.getNode(rn.node);
            at.goBack();
            if (TextIO::moveToString(at.getPos(), rn.node->getMove(), false) != str.substr(rn.begin, rn.end - rn.begin))
                return "game " + std::to_string(gi) + ": RangeToNode [" + std::to_string(rn.begin) + "," + std::to_string(rn.end) + ") does not cover its node's move text";
        }
        std::istringstream is2((g.startFen.empty() ? std::string() : "[FEN \"" + g.startFen + "\"]\n") + str + "\n");
        PgnReader r2(is2);
        GameTree gt2;
        bool ok2;
        try { ok2 = r2.readPGN(gt2); } catch (const ChessParseError& e2) { return "game " + std::to_string(gi) + ": the reader rejects getGameTreeString's output '" + str + "': " + e2.what(); }
        if (!ok2 && !g.root.kids.empty()) return "game " + std::to_string(gi) + ": no game in getGameTreeString's output";
        if (ok2) {
            GameNode root2 = gt2.getRootNode();
            e = cmpTree(g.root, root2, start, false, "");
            if (!e.empty()) return "game " + std::to_string(gi) + ": after getGameTreeString/readPGN: " + e;
        }
    }
    return "";
}

Value pgnCase(const std::string& text, const std::vector<MGame>& games) {
    Value k = Value::object();
    k["pgn"] = text;
    Value a = Value::array();
    for (auto& g : games) a.push(gameJson(g));
    k["games"] = a;
    return k;
}

void classifyTree(const MNode& n, bool& cm, bool& sfx, bool& dol, bool& semi, bool& pre) {
    for (auto& k : n.kids) {
        if (!k.pre.empty() || !k.post.empty()) cm = true;
        if (!k.pre.empty()) pre = true;
        if (!k.suffix.empty()) sfx = true;
        if (k.dollar >= 0) dol = true;
        for (auto& c : k.pre) if (c.semi) semi = true;
        for (auto& c : k.post) if (c.semi) semi = true;
        classifyTree(k, cm, sfx, dol, semi, pre);
    }
}

void runPgn(const std::string& sub, Choices& c, vh::Stats& st) {
    int ngames = c.chance(1, 5) ? c.range(2, 3) : 1;
    std::vector<MGame> games(ngames);
    std::string text;
    if (c.chance(1, 12)) text += "%leading escape line\n";
    for (int i = 0; i < ngames; i++) { text += genGame(c, games[i], c.range(1, 60)); if (c.flip()) text += "\n"; }
    Value k = pgnCase(text, games);
    vh::setCurrent(sub, k);
    st.evaluations++;
    std::string e = checkPgn(text, games);
    if (!e.empty()) vh::fail(k, e);
    vh::clearCurrent();
    bool var = false, cm = false, sfx = false, dol = false, semi = false, pre = false, fen = false, esc = false;
    int depth = 0, nodes = 0;
    for (auto& g : games) {
        depth = std::max(depth, g.maxVarDepth); nodes += g.nodes;
        classifyTree(g.root, cm, sfx, dol, semi, pre);
        if (!g.startFen.empty()) fen = true;
        for (auto& t : g.tags) if (t.second.find('"') != std::string::npos || t.second.find('\\') != std::string::npos) esc = true;
    }
    var = depth >= 1;
    auto mk = [&]() { Value v = Value::object(); v["pgn"] = text.substr(0, 600); return v; };
    if (var) st.clsSample("tree with variations", mk);
    if (depth >= 2) st.clsSample("nested variations (depth>=2)", mk);
    if (depth >= 4) st.clsSample("variation depth 4", mk);
    if (cm) st.clsSample("comments", mk);
    if (pre) st.clsSample("pre-move comment", mk);
    if (semi) st.clsSample("rest-of-line comment", mk);
    if (sfx) st.clsSample("!?-style suffix", mk);
    if (dol) st.clsSample("$NAG", mk);
    if (fen) st.clsSample("FEN start position", mk);
    if (esc) st.clsSample("escaped characters in a tag", mk);
    if (ngames > 1) st.clsSample("several games in one stream", mk);
    st.count("tree nodes", nodes);
    if (var || cm || sfx || dol) st.nt(text); else st.cls("plain move list");
}

// ------------------------------------------------ fuzz artefact replay ----
std::string fuzzBin(const std::string& target) {
    char exe[4096];
    ssize_t k = readlink("/proc/self/exe", exe, sizeof exe - 1);
    if (k <= 0) return "";
    exe[k] = 0;
    std::string p = exe; // <build>/<variant>/bin/c17
    for (int i = 0; i < 3; i++) p = p.substr(0, p.rfind('/'));
    return p + "/fuzz/bin/" + target;
}
int replayFuzz(const std::string& target, const std::string& file) {
    std::string bin = fuzzBin(target);
    printf("replaying fuzz artefact through %s\n", bin.c_str());
    fflush(stdout);
    execl(bin.c_str(), bin.c_str(), "--replay", file.c_str(), (char*)nullptr);
    perror("exec fuzz target");
    return 2;
}

// --------------------------------------------------------- seed corpora ----
void writeSeed(const std::string& dir, const std::string& name, const std::string& content) {
    std::ofstream os(dir + "/" + name, std::ios::binary);
    os << content;
}
int mkCorpus(const std::string& root, const std::string& fenFile) {
    std::vector<std::string> fens;
    { std::ifstream is(fenFile); std::string l; while (std::getline(is, l)) if (!l.empty()) fens.push_back(l); }
    for (const char* t : {"c17_fen", "c17_move", "c17_pgn", "c17_uci"}) if (system(("mkdir -p '" + root + "/" + t + "'").c_str())) return 2;
    int nf = 0, nm = 0, nu = 0, np = 0;
    char buf[64];
    for (size_t i = 0; i < fens.size(); i++) {
        snprintf(buf, sizeof buf, "t%04zu", i);
        writeSeed(root + "/c17_fen", buf, fens[i]); nf++;
        ref::Pos p;
        try { TextIO::readFEN(fens[i]); } catch (...) { continue; }
        if (!ref::fromFEN(fens[i], p) || !ref::sane(p)) continue;
        std::vector<ref::Move> lm = ref::legalMoves(p);
        if (lm.empty() || i % 4) continue;
        for (int k = 0; k < 3; k++) {
            const ref::Move& m = lm[(i * 7 + k * 13) % lm.size()];
            std::string txt = k == 0 ? ref::san(p, m) : k == 1 ? refLan(p, m) : m.uci();
            snprintf(buf, sizeof buf, "t%04zu_%d", i, k);
            writeSeed(root + "/c17_move", buf, fens[i] + "\n" + txt); nm++;
        }
        if (i % 16 == 0) {
            snprintf(buf, sizeof buf, "t%04zu", i);
            ref::Pos n = ref::make(p, lm[0]);
            std::vector<ref::Move> l2 = ref::legalMoves(n);
            std::string s = "uci\nisready\nposition fen " + fens[i] + " moves " + lm[0].uci() + (l2.empty() ? "" : " " + l2[0].uci()) + "\ngo depth 2\nisready\nquit\n";
            writeSeed(root + "/c17_uci", buf, s); nu++;
        }
    }
    // generated PGN seeds (this harness's writer, fixed choice streams)
    for (int i = 0; i < 24; i++) {
        std::vector<uint32_t> raw;
        uint64_t z = 1234567 + i;
        for (int k = 0; k < 1500; k++) { z = vh::mix(z); raw.push_back((uint32_t)(z >> 20) & 0x3fffffff); }
        Choices c(raw);
        MGame g;
        std::string text = genGame(c, g, 10 + i * 2);
        if (text.size() > 3000) continue;
        snprintf(buf, sizeof buf, "g%02d", i);
        writeSeed(root + "/c17_pgn", buf, text); np++;
    }
    printf("corpus: %d fen, %d move, %d uci, %d generated pgn seeds\n", nf, nm, nu, np);
    return 0;
}

} // namespace

int main(int argc, char** argv) {
    vh::Args a = vh::parseArgs(argc, argv);
    ComputerPlayer::initEngine(); // what texel's main() does first
    if (!a.str("mkcorpus").empty()) return mkCorpus(a.str("mkcorpus"), a.str("fens"));
    vh::installDeathHooks();
    vh::Stats& st = vh::ctx().stats;
    if (!a.replay.empty()) {
        // libFuzzer artefacts: JSON wrapper with sub "fuzz:<target>", or a raw file C17-<target>-<kind>-<sha>
        std::string base = a.replay.substr(a.replay.rfind('/') + 1);
        std::string target;
        try {
            Value r = vj::parseFile(a.replay);
            std::string sub = r.t == Value::Obj ? r.getStr("sub") : "";
            if (sub.rfind("fuzz:", 0) == 0) target = sub.substr(5);
            else if (r.t != Value::Obj || !r.has("case")) throw std::runtime_error("not a replay file");
        } catch (...) {
            size_t p = base.find("c17_");
            if (p == std::string::npos) { printf("REPLAY-ERROR: %s is neither a replay JSON nor a C17 fuzz artefact\n", a.replay.c_str()); return 2; }
            size_t e = base.find('-', p);
            target = base.substr(p, e == std::string::npos ? std::string::npos : e - p);
        }
        if (!target.empty()) return replayFuzz(target, a.replay);
        return vh::runReplay([&](const std::string& sub, const Value& k) {
            if (sub == "pgn") {
                std::vector<MGame> games;
                if (const Value* g = k.find("games")) for (auto& e : g->a) games.push_back(gameFrom(e));
                vh::setCurrent(sub, k);
                std::string e = checkPgn(k.getStr("pgn"), games);
                if (!e.empty()) vh::fail(k, e);
                vh::clearCurrent();
            } else {
                ref::Pos r;
                if (!ref::fromFEN(k.getStr("fen"), r) || !ref::sane(r)) vh::fail(k, "replay file does not hold a usable FEN");
                runPos(sub, r, st, "replay");
            }
        });
    }
    long n = a.cases;           // positions
    long trees = a.num("trees", n / 30);
    vh::runProp("moves-placed", n / 2, 1.0, [&](Choices& c) {
        gen::Placed p;
        int k = c.pick(10);
        if (k < 3) p = placeRect(c);
        else if (k < 5) p = gen::place(c, gen::T_MANYLIKE);
        else if (k < 7) p = gen::place(c, gen::T_PROMO);
        else p = gen::place(c);
        if (!p.ok) { st.discarded++; return; }
        runPos("moves-placed", p.p, st, p.tmpl < 0 ? "rect" : gen::tmplName(p.tmpl));
    });
    vh::runProp("moves-games", (n - n / 2) / 25, 4.0, [&](Choices& c) {
        gen::Game g = gen::game(c, 200);
        // every 8th position of the game and the last one
        for (size_t i = 0; i < g.pos.size(); i++) {
            if (i % 8 != 0 && i + 1 != g.pos.size() && g.pos.size() > 25) continue;
            ref::Pos r = g.pos[i];
            ref::normalizeEp(r);
            Value k = posCase(ref::toFEN(r));
            vh::setCurrent("moves-games", k);
            st.evaluations++;
            std::string e = checkMoves(r, st, "game");
            if (!e.empty()) vh::fail(k, e + "  [fen " + ref::toFEN(r) + "]");
            vh::clearCurrent();
        }
    });
    vh::runProp("pgn", trees, 14.0, [&](Choices& c) { runPgn("pgn", c, st); });
    return vh::finish();
}
