// Shared skeleton of the libFuzzer targets (C17 text-format targets, C18 polyglot
// target).  No rapidcheck here: the semantic oracle lives inside each target.
//  * counters: executions, "accepted" inputs (the non-trivial class: the parser
//    took the input and the semantic oracle ran), clean rejections, class
//    histogram, a few samples, 64-bit hashes of the accepted inputs.  They are
//    dumped to the file named by $VERIF_FUZZ_STATS every 4096 executions, at
//    exit() and right before an oracle trap.
//  * oracle failure: print the message, dump the counters, __builtin_trap();
//    libFuzzer then saves the input as a crash- artefact.
//  * replay: `<target> --prop Cxx --replay FILE` (the harness CLI): a raw artefact
//    becomes a single-input libFuzzer run; the bytes of the JSON wrapper written by
//    tools/fuzzshard.py ({"case":{"hex":"..."}}) are run directly from memory.
#pragma once
#include "common/json.hpp"
#include "common/refchess.hpp"
#include <cstdint>
#include <cstdio>
#include <cstdlib>
#include <cstring>
#include <map>
#include <string>
#include <unistd.h>
#include <unordered_set>
#include <vector>

namespace fz {

inline uint64_t fnv(const uint8_t* d, size_t n, uint64_t h = 1469598103934665603ULL) {
    for (size_t i = 0; i < n; i++) { h ^= d[i]; h *= 1099511628211ULL; }
    return h;
}

struct Stats {
    long execs = 0, accepted = 0, rejected = 0, suspect = 0;
    // keyed by a hash of the label: comparing label strings would feed libFuzzer's
    // table of recent compares with our own text
    struct Cls { std::string name; long n = 0; std::vector<std::string> samples; };
    std::map<uint64_t, Cls> classes;
    std::unordered_set<uint64_t> hashes;
};
inline Stats& stats() { static Stats* s = new Stats(); return *s; } // leaked on purpose (used from atexit)

inline std::string printable(const uint8_t* d, size_t n, size_t cap = 200) {
    std::string s;
    for (size_t i = 0; i < n && i < cap; i++) {
        unsigned char c = d[i];
        if (c == '\n') s += "\\n";
        else if (c < 0x20 || c >= 0x7f) { char b[8]; snprintf(b, sizeof b, "\\x%02x", c); s += b; }
        else s += (char)c;
    }
    if (n > cap) s += "...";
    return s;
}

inline void dump() {
    const char* fn = getenv("VERIF_FUZZ_STATS");
    if (!fn || !*fn) return;
    Stats& s = stats();
    vj::Value v = vj::Value::object();
    v["execs"] = s.execs; v["accepted"] = s.accepted; v["rejected"] = s.rejected; v["suspect"] = s.suspect;
    vj::Value cl = vj::Value::object();
    vj::Value sm = vj::Value::object();
    for (auto& kv : s.classes) {
        cl.o.emplace_back(kv.second.name, vj::Value(kv.second.n));
        if (kv.second.samples.empty()) continue;
        vj::Value a = vj::Value::array();
        for (auto& x : kv.second.samples) a.push(vj::Value(x));
        sm.o.emplace_back(kv.second.name, a);
    }
    v["classes"] = cl;
    v["samples"] = sm;
    std::string tmp = std::string(fn) + ".tmp";
    vj::writeFile(tmp, v);
    rename(tmp.c_str(), fn);
    std::string hf = std::string(fn) + ".hashes";
    FILE* f = fopen((hf + ".tmp").c_str(), "wb");
    if (f) {
        for (uint64_t h : s.hashes) fwrite(&h, 8, 1, f);
        fclose(f);
        rename((hf + ".tmp").c_str(), hf.c_str());
    }
}

inline void tick() {
    Stats& s = stats();
    static bool reg = false;
    if (!reg) { reg = true; atexit(dump); }
    if ((++s.execs & 4095) == 0) dump();
}
// class label + sample (first two inputs of each class are kept, printable form)
inline void cls(const std::string& c, const uint8_t* d = nullptr, size_t n = 0) {
    Stats::Cls& e = stats().classes[fnv((const uint8_t*)c.data(), c.size())];
    if (e.n++ == 0) e.name = c;
    if (e.samples.size() < 2 && d) e.samples.push_back(printable(d, n));
}
inline void accepted(const uint8_t* d, size_t n) {
    Stats& s = stats();
    s.accepted++;
    if (s.hashes.size() < 2000000) s.hashes.insert(fnv(d, n));
}
inline void rejected() { stats().rejected++; }
inline void suspect(const std::string& what, const uint8_t* d, size_t n) {
    stats().suspect++;
    cls("suspect: " + what, d, n);
}

[[noreturn]] inline void oracleFail(const std::string& msg, const uint8_t* d, size_t n) {
    fprintf(stderr, "\nORACLE-FAIL: %s\n  input (%zu bytes): %s\n", msg.c_str(), n, printable(d, n, 4096).c_str());
    fflush(stderr);
    dump();
    __builtin_trap();
}

// ---- harness-CLI replay support ------------------------------------------------
inline bool fromHex(const std::string& h, std::string& out) {
    out.clear();
    if (h.size() % 2) return false;
    auto v = [](char c) { return c >= '0' && c <= '9' ? c - '0' : c >= 'a' && c <= 'f' ? c - 'a' + 10 : c >= 'A' && c <= 'F' ? c - 'A' + 10 : -1; };
    for (size_t i = 0; i < h.size(); i += 2) {
        int a = v(h[i]), b = v(h[i + 1]);
        if (a < 0 || b < 0) return false;
        out += (char)(a * 16 + b);
    }
    return true;
}

// Call first in LLVMFuzzerInitialize.  Rewrites `--replay FILE` into a plain
// single-input run for a raw artefact; the bytes of a JSON wrapper are kept in
// memory and run by runPendingReplay() (no temporary file that a crashing replay
// would leave behind).
inline std::string& pendingReplay() { static std::string s; return s; }
inline bool& hasPendingReplay() { static bool b = false; return b; }
inline void rewriteArgs(int* argc, char*** argv) {
    std::string file;
    for (int i = 1; i < *argc; i++)
        if (!strcmp((*argv)[i], "--replay") && i + 1 < *argc) file = (*argv)[i + 1];
    if (file.empty()) return;
    try {
        vj::Value r = vj::parseFile(file);
        if (r.t == vj::Value::Obj && r.has("case") && r.at("case").has("hex")) {
            std::string bytes;
            if (fromHex(r.at("case").getStr("hex"), bytes)) { pendingReplay() = bytes; hasPendingReplay() = true; }
        }
    } catch (...) {
        // not JSON: a raw artefact
    }
    static std::vector<std::string> store;
    static std::vector<char*> ptrs;
    store = {(*argv)[0], "-exact_artifact_path=/dev/null", "-timeout=600", file};
    ptrs.clear();
    for (auto& s : store) ptrs.push_back(const_cast<char*>(s.c_str()));
    ptrs.push_back(nullptr);
    *argc = (int)store.size();
    *argv = ptrs.data();
}
} // namespace fz
extern "C" int LLVMFuzzerTestOneInput(const uint8_t* data, size_t size);
namespace fz {
// Call last in LLVMFuzzerInitialize (after the target's own initialisation).
inline void runPendingReplay() {
    if (!hasPendingReplay()) return;
    const std::string& b = pendingReplay();
    fprintf(stderr, "replaying %zu bytes from the JSON wrapper\n", b.size());
    LLVMFuzzerTestOneInput((const uint8_t*)b.data(), b.size());
    fprintf(stderr, "REPLAY-PASS (no crash, no oracle failure)\n");
    fflush(stderr);
    exit(0);
}

// ---- small helpers on refchess ---------------------------------------------------
// Domain of positions that legal play can produce as far as counting goes:
// <= 16 men a side, <= 8 pawns, promoted extras covered by missing pawns.
inline bool plausibleMaterial(const ref::Pos& p) {
    for (int side = 0; side < 2; side++) {
        auto n = [&](char c) { return p.count(side ? c : ref::upper(c)); };
        int pawns = n('p'), q = n('q'), r = n('r'), b = n('b'), kn = n('n'), k = n('k');
        if (k != 1 || pawns > 8) return false;
        int extra = std::max(0, q - 1) + std::max(0, r - 2) + std::max(0, b - 2) + std::max(0, kn - 2);
        if (extra > 8 - pawns) return false;
        if (pawns + q + r + b + kn + k > 16) return false;
    }
    return true;
}

// Move counters every FEN reader must carry through unchanged; outside of this
// range the targets compare nothing about the counters (a reader may ignore or
// clamp absurd values).
inline bool clocksSane(long hmc, long fmc) { return hmc >= 0 && hmc <= 1000 && fmc >= 0 && fmc <= 50000; } // well inside the ranges the reader accepts ([0,10000) and [0,100000))
// C17_EXCLUDE_CLOCKS=1 (off by default): keep positions with absurd counters away
// from move making / searching, so that a campaign can continue past the known
// finding "readFEN stores any int as half-move clock".
inline bool excludeClocks() {
    static int v = -1;
    if (v < 0) { const char* e = getenv("C17_EXCLUDE_CLOCKS"); v = e && *e && strcmp(e, "0") ? 1 : 0; }
    return v == 1;
}

} // namespace fz
