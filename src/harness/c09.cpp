// C09  Multi-threaded operation is free of data races.
// Generated concurrency-heavy UCI sessions against the ThreadSanitizer build of
// the real engine, and in-process ProofGameFilter runs on worker pools (this
// harness itself is built with -fsanitize=thread).  Oracle: zero TSan reports
// (halt_on_error, exit code 66) + the C05 transcript monitor so that a session
// is known to have exercised what it claims.  See DESIGN.md §3 C09.
#include "common/vh.hpp"
#include "harness/session.hpp"
#include "proofgamefilter.hpp"
#include <fstream>
#include <sstream>

using vh::Value;
using vh::Choices;

namespace {

std::string gExe, gNet, gWork;
std::vector<sess::Option> gOpts;

std::vector<sess::Option> probeOptions() {
    uci::Engine e;
    e.start(gExe, {"TEXEL_VERIF_NET=" + gNet}, gWork + "/probe.err");
    e.send("uci");
    e.waitLine("uciok", 60000);
    std::vector<std::string> lines = e.received();
    e.send("quit");
    e.waitExit(30000);
    return sess::parseOptions(lines);
}

Value caseJson(const sess::Session& s, const sess::RunResult* r) {
    Value k = s.toJson();
    if (r) {
        Value a = Value::array();
        size_t start = r->log.size() > 200 ? r->log.size() - 200 : 0;
        for (size_t i = start; i < r->log.size(); i++) a.push(std::string(1, r->log[i].dir) + " " + r->log[i].line);
        k["transcript_tail"] = a;
        k["exit"] = r->exitDesc;
        k["stderr"] = r->stderrText.substr(0, 6000);
    }
    return k;
}

void runSession(const std::string& sub, const sess::Session& s, vh::Stats& st, int repeat) {
    for (int rep = 0; rep < repeat; rep++) {
        sess::RunCfg rc;
        rc.exe = gExe; rc.net = gNet; rc.stderrPath = gWork + "/engine.err";
        rc.env = {"TSAN_OPTIONS=halt_on_error=1:exitcode=66:second_deadlock_stack=1:report_signal_unsafe=0"};
        rc.exitTimeoutMs = 90000;
        sess::RunResult r = sess::execute(s, rc);
        st.evaluations++;
        if (r.stderrText.find("ThreadSanitizer") != std::string::npos) {
            // first line of the report names the kind (data race / lock-order-inversion / ...)
            size_t p = r.stderrText.find("WARNING: ThreadSanitizer");
            std::string head = r.stderrText.substr(p == std::string::npos ? 0 : p, 1500);
            vh::fail(caseJson(s, &r), "ThreadSanitizer report: " + head);
        }
        bool inc = false;
        std::string e = sess::monitor(s, r, inc);
        if (inc) { st.inconclusive++; continue; }
        if (rep == 0) {
            bool threads = false;
            for (auto& c : s.cmds) if (c.text.find("Threads value") != std::string::npos) threads = true;
            auto mk = [&]() { Value v = Value::array(); for (auto& c : s.cmds) v.push(c.text); return v; };
            if (r.cmdsDuringSearch > 0 && threads) { st.nt(vj::dump(s.toJson())); st.clsSample("protocol command while >=2 engine threads were searching", mk); }
            else st.cls("no command during a multi-threaded search");
            for (auto& c : s.cmds) {
                if (c.kind == "ponderhit") { st.cls("ponderhit"); break; }
            }
            for (auto& c : s.cmds) if (c.text.find("Clear Hash") != std::string::npos) { st.cls("Clear Hash"); break; }
            for (auto& c : s.cmds) if (c.text.find("name Hash value") != std::string::npos) { st.cls("Hash resize"); break; }
        }
        if (!e.empty()) vh::fail(caseJson(s, &r), "session monitor: " + e);
    }
}

// ---- ProofGameFilter on worker pools (in-process, this binary is TSan-instrumented)
void runFilter(const std::string& sub, const std::vector<std::string>& fens, int workers, vh::Stats& st) {
    Value k = Value::object();
    k["fens"] = Value::arrayOf(fens); k["workers"] = workers;
    vh::setCurrent(sub, k);
    std::stringstream in, out;
    for (auto& f : fens) in << f << "\n";
    ProofGameFilter pgf(workers);
    pgf.filterFens(in, out);
    st.evaluations++;
    st.count("filter fens", (long)fens.size());
    std::string o = out.str();
    size_t lines = std::count(o.begin(), o.end(), '\n');
    if (lines < fens.size()) vh::fail(k, "filterFens produced " + std::to_string(lines) + " lines for " + std::to_string(fens.size()) + " FENs");
    if (workers >= 2 && fens.size() >= 4) st.nt(vj::dump(k));
    auto mk = [&]() { Value v = Value::object(); v["workers"] = workers; v["n"] = (long)fens.size(); v["first"] = fens.empty() ? "" : fens[0]; return v; };
    st.clsSample("proof-game filter run", mk);
    vh::clearCurrent();
}

} // namespace

int main(int argc, char** argv) {
    vh::Args a = vh::parseArgs(argc, argv);
    vh::installDeathHooks();
    vh::Stats& st = vh::ctx().stats;
    vh::ctx().shrinkBudget = a.num("shrink", 25);
    gExe = a.str("engine", "/verif/build/tsan/bin/texel");
    gNet = a.str("net", "/verif/build/nets/material-1.net");
    gWork = "/tmp/verif-c09-" + std::to_string(getpid());
    if (system(("mkdir -p " + gWork).c_str())) {}
    std::string mode = a.str("mode", "sessions");
    int rc;
    if (!a.replay.empty()) {
        rc = vh::runReplay([&](const std::string& sub, const Value& k) {
            if (sub == "filter") runFilter(sub, k.strs("fens"), (int)k.getInt("workers", 4), st);
            else { sess::Session s = sess::Session::fromJson(k); runSession(sub, s, st, (int)a.num("repeat", 5)); }
        });
    } else if (mode == "filter") {
        vh::runProp("filter", a.cases, 3.0, [&](Choices& c) {
            int workers = c.range(2, 16);
            int n = c.range(4, (int)a.num("max-fens", 24));
            std::vector<std::string> fens;
            for (int i = 0; i < n && !c.empty(); i++) {
                std::string start = gen::seedFens()[0];
                gen::Game g = gen::game(c, 24, &start);
                ref::Pos p = g.pos.back(); ref::normalizeEp(p);
                fens.push_back(ref::toFEN(p));
            }
            if (fens.empty()) fens.push_back(gen::seedFens()[0]);
            runFilter("filter", fens, workers, st);
        });
        rc = vh::finish();
    } else {
        gOpts = probeOptions();
        if (gOpts.size() < 10) { fprintf(stderr, "c09: could not read the engine's option list\n"); return 2; }
        sess::GenCfg cfg;
        cfg.concurrencyHeavy = true; cfg.maxCmds = 40; cfg.maxThreads = 8; cfg.minThreads = 2; cfg.maxHash = 64; cfg.maxDepth = 5;
        vh::runProp("sessions", a.cases, 3.0, [&](Choices& c) {
            sess::Session s;
            sess::Cmd t; t.kind = "setoption"; t.text = "setoption name Threads value " + std::to_string(c.range(2, 8)); s.cmds.push_back(t);
            sess::Session rest = sess::genSession(c, gOpts, cfg);
            for (auto& x : rest.cmds) s.cmds.push_back(x);
            runSession("sessions", s, st, 1);
        }, -1, 20);
        rc = vh::finish();
    }
    if (system(("rm -rf " + gWork).c_str())) {}
    return rc;
}
