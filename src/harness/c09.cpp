// C09  Multi-threaded operation is free of data races.
// Generated concurrency-heavy UCI sessions against the ThreadSanitizer build of
// the real engine, and in-process ProofGameFilter runs on worker pools (this
// harness itself is built with -fsanitize=thread).  Oracle: zero TSan reports
// (halt_on_error, exit code 66) + the C05 transcript monitor so that a session
// is known to have exercised what it claims.  See DESIGN.md §3 C09.
#include "common/vh.hpp"
#include "harness/session.hpp"
#include "proofgamefilter.hpp"
#include <fstream>
#include <sstream>

using vh::Value;
using vh::Choices;

namespace {

std::string gExe, gNet, gWork;
std::vector<sess::Option> gOpts;

std::vector<sess::Option> probeOptions() {
    uci::Engine e;
    e.start(gExe, {"TEXEL_VERIF_NET=" + gNet}, gWork + "/probe.err");
    e.send("uci");
    e.waitLine("uciok", 60000);
    std::vector<std::string> lines = e.received();
    e.send("quit");
    e.waitExit(30000);
    return sess::parseOptions(lines);
}

Value caseJson(const sess::Session& s, const sess::RunResult* r) {
    Value k = s.toJson();
    if (r) {
        Value a = Value::array();
        size_t start = r->log.size() > 200 ? r->log.size() - 200 : 0;
        for (size_t i = start; i < r->log.size(); i++) a.push(std::string(1, r->log[i].dir) + " " + r->log[i].line);
        k["transcript_tail"] = a;
        k["exit"] = r->exitDesc;
        k["stderr"] = r->stderrText.substr(0, 24000);
    }
    return k;
}

void runSession(const std::string& sub, const sess::Session& s, vh::Stats& st, int repeat) {
    for (int rep = 0; rep < repeat; rep++) {
        sess::RunCfg rc;
        rc.exe = gExe; rc.net = gNet; rc.stderrPath = gWork + "/engine.err";
        rc.env = {"TSAN_OPTIONS=halt_on_error=1:exitcode=66:second_deadlock_stack=1:report_signal_unsafe=0"};
        rc.exitTimeoutMs = 90000;
        sess::RunResult r = sess::execute(s, rc);
        st.evaluations++;
        if (r.stderrText.find("ThreadSanitizer") != std::string::npos) {
            // first line of the report names the kind (data race / lock-order-inversion / ...)
            size_t p = r.stderrText.find("WARNING: ThreadSanitizer");
            // the report without the standard library's own frames (they push the second stack out of a short excerpt)
            std::string head;
            {
                std::istringstream is(r.stderrText.substr(p == std::string::npos ? 0 : p));
                std::string l;
                while (std::getline(is, l) && head.size() < 2500) {
                    if (l.find("/usr/include/c++") != std::string::npos || l.find("libstdc++") != std::string::npos) continue;
                    head += l + "\n";
                }
            }
            vh::fail(caseJson(s, &r), "ThreadSanitizer report: " + head);
        }
        bool inc = false;
        std::string e = sess::monitor(s, r, inc);
        if (inc) { st.inconclusive++; continue; }
        if (rep == 0) {
            bool threads = false;
            for (auto& c : s.cmds) if (c.text.find("Threads value") != std::string::npos) threads = true;
            auto mk = [&]() { Value v = Value::array(); for (auto& c : s.cmds) v.push(c.text); return v; };
            if (r.cmdsDuringSearch > 0 && threads) { st.nt(vj::dump(s.toJson())); st.clsSample("protocol command while >=2 engine threads were searching", mk); }
            else st.cls("no command during a multi-threaded search");
            for (auto& c : s.cmds) {
                if (c.kind == "ponderhit") { st.cls("ponderhit"); break; }
            }
            for (auto& c : s.cmds) if (c.text.find("Clear Hash") != std::string::npos) { st.cls("Clear Hash"); break; }
            for (auto& c : s.cmds) if (c.text.find("name Hash value") != std::string::npos) { st.cls("Hash resize"); break; }
        }
        if (!e.empty()) vh::fail(caseJson(s, &r), "session monitor: " + e);
    }
}

// ---- ProofGameFilter on worker pools (in-process, this binary is TSan-instrumented)
void runFilter(const std::string& sub, const std::vector<std::string>& fens, int workers, vh::Stats& st) {
    Value k = Value::object();
    k["fens"] = Value::arrayOf(fens); k["workers"] = workers;
    vh::setCurrent(sub, k);
    std::stringstream in, out;
    for (auto& f : fens) in << f << "\n";
    ProofGameFilter pgf(workers);
    pgf.filterFens(in, out);
    st.evaluations++;
    st.count("filter fens", (long)fens.size());
    std::string o = out.str();
    size_t lines = std::count(o.begin(), o.end(), '\n');
    if (lines < fens.size()) vh::fail(k, "filterFens produced " + std::to_string(lines) + " lines for " + std::to_string(fens.size()) + " FENs");
    if (workers >= 2 && fens.size() >= 4) st.nt(vj::dump(k));
    auto mk = [&]() { Value v = Value::object(); v["workers"] = workers; v["n"] = (long)fens.size(); v["first"] = fens.empty() ? "" : fens[0]; return v; };
    st.clsSample("proof-game filter run", mk);
    vh::clearCurrent();
}

} // namespace

int main(int argc, char** argv) {
    vh::Args a = vh::parseArgs(argc, argv);
    vh::installDeathHooks();
    vh::Stats& st = vh::ctx().stats;
    vh::ctx().shrinkBudget = a.num("shrink", 25);
    gExe = a.str("engine", "/verif/build/tsan/bin/texel");
    gNet = a.str("net", "/verif/build/nets/material-1.net");
    gWork = "/tmp/verif-c09-" + std::to_string(getpid());
    if (system(("mkdir -p " + gWork).c_str())) {}
    std::string mode = a.str("mode", "sessions");
    int rc;
    if (!a.replay.empty()) {
        rc = vh::runReplay([&](const std::string& sub, const Value& k) {
            if (sub == "filter") runFilter(sub, k.strs("fens"), (int)k.getInt("workers", 4), st);
            else { sess::Session s = sess::Session::fromJson(k); runSession(sub, s, st, (int)a.num("repeat", 5)); }
        });
    } else if (mode == "filter") {
        vh::runProp("filter", a.cases, 3.0, [&](Choices& c) {
            int workers = c.range(2, 16);
            int n = c.range(4, (int)a.num("max-fens", 24));
            std::vector<std::string> fens;
            for (int i = 0; i < n && !c.empty(); i++) {
                std::string start = gen::seedFens()[0];
                gen::Game g = gen::game(c, (int)a.num("max-plies", 24), &start);
                ref::Pos p = g.pos.back(); ref::normalizeEp(p);
                fens.push_back(ref::toFEN(p));
            }
            if (fens.empty()) fens.push_back(gen::seedFens()[0]);
            runFilter("filter", fens, workers, st);
        });
        rc = vh::finish();
    } else {
        gOpts = probeOptions();
        if (gOpts.size() < 10) { fprintf(stderr, "c09: could not read the engine's option list\n"); return 2; }
        sess::GenCfg cfg;
        cfg.concurrencyHeavy = true; cfg.maxCmds = 40; cfg.maxThreads = 8; cfg.minThreads = 2; cfg.maxHash = 64; cfg.maxDepth = 5;
        // on-demand tablebase hand-over: a 3-man pawnless root is searched without a time limit (the table is generated and stays
        // resident in the hash memory), then 1..3 searches start from roots with one more (capturable) man, so that several
        // threads probe the resident table while the root itself is "not suitable" for it
        auto tbHandOver = [&](Choices& c) {
            sess::Session s;
            auto add = [&](const std::string& kind, const std::string& text, int pace = sess::P_NOW, int arg = 0) {
                sess::Cmd x; x.kind = kind; x.text = text; x.pace = pace; x.paceArg = arg; s.cmds.push_back(x); return &s.cmds.back();
            };
            add("setoption", "setoption name Threads value " + std::to_string(c.range(2, 4)));
            add("setoption", "setoption name Hash value " + std::to_string(c.of(std::vector<int>{8, 16, 32})));
            struct Pair { const char* tb; std::vector<const char*> next; };
            static const std::vector<Pair> pairs = {
                {"8/8/8/4k3/8/8/Q7/1K6 w - - 0 1", {"8/8/8/4k3/8/8/Q2p4/1K6 w - - 0 1", "8/8/8/4k3/8/8/Q4n2/1K6 w - - 0 1", "8/8/4k3/8/Q2p4/8/8/1K6 w - - 0 1"}},
                {"8/8/8/4k3/8/8/R7/1K6 w - - 0 1", {"8/8/8/4k3/8/8/R4p2/1K6 w - - 0 1", "8/8/8/4k3/8/8/R2b4/1K6 w - - 0 1", "4k3/8/8/8/R3p3/8/8/1K6 w - - 0 1"}},
                {"1k6/q7/8/8/4K3/8/8/8 b - - 0 1", {"1k6/q7/8/8/4K3/8/q4P2/8 b - - 0 1", "1k6/q7/8/3P4/4K3/8/8/8 b - - 0 1"}},
            };
            const Pair& pr = pairs[(size_t)c.pick((int)pairs.size())];
            add("position", std::string("position fen ") + pr.tb);
            sess::Cmd* g = add("go", "go infinite"); g->goFen = pr.tb; g->goInfinite = true;
            add("stop", "stop", sess::P_DEPTH_LONG, c.range(1, 4)); // the first "info depth" line appears when the table has been generated (~0.7 s in the ThreadSanitizer build on an idle machine)
            int n = c.range(1, 3);
            for (int i = 0; i < n; i++) {
                const char* f = pr.next[(size_t)c.pick((int)pr.next.size())];
                add("position", std::string("position fen ") + f, sess::P_BESTMOVE);
                int k = c.pick(3);
                sess::Cmd* g2 = add("go", k == 0 ? "go movetime " + std::to_string(c.range(200, 1200)) : k == 1 ? "go depth " + std::to_string(c.range(5, 9)) : "go infinite");
                g2->goFen = f; g2->goInfinite = k == 2; g2->goHasLimit = k != 2;
                if (k == 2) add("stop", "stop", sess::P_DEPTH, c.range(4, 8));
                if (c.chance(1, 4)) add("isready", "isready", sess::P_NEXT_INFO);
            }
            add("quit", "quit", sess::P_BESTMOVE);
            return s;
        };
        // worker-tree churn: with Threads >= 6 a helper thread has helper children; the tree is torn down and rebuilt whenever
        // the effective number of search threads changes between two searches (Threads, Strength < 1000, UCI_LimitStrength)
        auto treeChurn = [&](Choices& c) {
            sess::Session s;
            auto add = [&](const std::string& kind, const std::string& text, int pace = sess::P_NOW, int arg = 0) {
                sess::Cmd x; x.kind = kind; x.text = text; x.pace = pace; x.paceArg = arg; s.cmds.push_back(x); return &s.cmds.back();
            };
            // a helper has up to four helper children from Threads = 21 on, one child with 6..9 threads; the more children
            // acknowledge to the same parent, the more often that parent polls them once more after its last message
            const int big = c.of(std::vector<int>{16, 12, 16, 8, 7, 6}); // (small generator sizes pick the front of the list)
            add("setoption", "setoption name Threads value " + std::to_string(big));
            const std::string start = gen::seedFens()[0];
            int n = 10 - c.range(0, 6);
            bool running = false;       // the previous search may still be running when the next command is sent
            std::string restore;        // non-empty: the command that brings the full helper tree back
            for (int i = 0; i < n; i++) {
                // half of the time the next search is requested while the previous one is still running: the engine stops it,
                // applies the pending option and rebuilds the worker tree right after the helpers have acknowledged the stop
                auto pace = [&]() { return (running && c.flip()) ? sess::P_NOW : sess::P_BESTMOVE; };
                add("position", "position startpos", i ? pace() : sess::P_NOW);
                int k = c.pick(4);
                sess::Cmd* g = add("go", k == 0 ? "go depth " + std::to_string(c.range(1, 3)) : k == 1 ? "go nodes " + std::to_string(c.range(100, 4000))
                                       : k == 2 ? "go movetime " + std::to_string(c.range(5, 200)) : "go infinite");
                g->goFen = start; g->goHasLimit = k != 3; g->goInfinite = k == 3;
                running = true;
                int pc = k == 3 ? sess::P_NOW : pace();
                if (c.chance(1, 5)) { if (c.flip()) add("isready", "isready", c.flip() ? sess::P_NOW : sess::P_BESTMOVE); }
                else if (restore.empty()) {     // the tree is up: shrink it (four ways to get fewer search threads)
                    int w = c.pick(4);
                    if (w == 0) { add("setoption", "setoption name Threads value " + std::to_string(c.range(1, 5)), pc); restore = "setoption name Threads value " + std::to_string(c.flip() ? big : c.range(6, 8)); }
                    else if (w == 1) { add("setoption", "setoption name Strength value " + std::to_string(c.range(0, 999)), pc); restore = "setoption name Strength value 1000"; }
                    else if (w == 2) { add("setoption", "setoption name UCI_LimitStrength value true", pc); restore = "setoption name UCI_LimitStrength value false"; }
                    else { add("setoption", "setoption name MaxNPS value " + std::to_string(c.range(50000, 1000000)), pc); restore = "setoption name MaxNPS value 0"; }
                } else { add("setoption", restore, pc); restore.clear(); }
                if (k == 3 && (i + 1 == n || c.flip())) add("stop", "stop", sess::P_DEPTH, c.range(1, 4));
            }
            add("quit", "quit", c.chance(1, 3) ? sess::P_NOW : sess::P_BESTMOVE);
            return s;
        };
        // ponder sessions on roots with one legal move or very few: ponderhit changes the time limits of a running search from
        // the protocol thread (EngineControl::ponderHit has a branch of its own for a forced move)
        auto forcedPonder = [&](Choices& c) {
            sess::Session s;
            auto add = [&](const std::string& kind, const std::string& text, int pace = sess::P_NOW, int arg = 0) {
                sess::Cmd x; x.kind = kind; x.text = text; x.pace = pace; x.paceArg = arg; s.cmds.push_back(x); return &s.cmds.back();
            };
            add("setoption", "setoption name Threads value " + std::to_string(c.range(2, 4)));
            add("setoption", "setoption name Ponder value true");
            static const std::vector<std::string> roots = {   // legal-move counts checked with refchess
                "4r1k1/ppp2ppp/8/8/8/3n4/PPP2PPP/RNBQKB1R w KQ - 0 1",              // double check: 1 legal move
                "4k3/8/8/8/8/8/4q3/4K3 w - - 0 1",                                  // 1 legal move (Kxe2)
                "rnbqkbnr/ppppp1pp/8/5p1Q/4P3/8/PPPP1PPP/RNB1KBNR b KQkq - 1 2",    // 1 legal move (g6)
                "7k/8/8/8/8/8/5q2/6K1 w - - 0 1", "8/8/8/8/8/8/1k1p4/3K4 w - - 0 1", // 2 legal moves
                "r3k3/8/8/8/8/8/7p/R3K2r w Q - 0 1",                                // 3 legal moves
                "rnbqkbnr/pppppppp/8/8/8/8/PPPPPPPP/RNBQKBNR w KQkq - 0 1"};
            int n = c.range(1, 4);
            for (int i = 0; i < n; i++) {
                const std::string& f = roots[(size_t)c.pick((int)roots.size())];
                add("position", "position fen " + f, i ? sess::P_BESTMOVE : sess::P_NOW);
                int k = c.pick(3);
                sess::Cmd* g = add("go", k == 0 ? "go ponder wtime " + std::to_string(c.range(1000, 60000)) + " btime " + std::to_string(c.range(1000, 60000))
                                       : k == 1 ? "go ponder movetime " + std::to_string(c.range(50, 500)) : "go ponder wtime 3000 btime 3000 winc 100 binc 100");
                g->goFen = f; g->goPonder = true; g->goHasLimit = true;
                int w = c.pick(3);
                add("ponderhit", "ponderhit", w == 0 ? sess::P_NOW : w == 1 ? sess::P_DEPTH : sess::P_SLEEP, w == 1 ? c.range(1, 4) : c.range(5, 120));
                if (c.chance(1, 3)) add("isready", "isready", sess::P_NOW);
                add("stop", "stop", sess::P_SLEEP, c.range(20, 400)); // a forced move is answered at once after ponderhit; otherwise cut the search short
            }
            add("quit", "quit", sess::P_BESTMOVE);
            return s;
        };
        vh::runProp("sessions", a.cases, 3.0, [&](Choices& c) {
            int tmpl = c.pick(6);
            if (tmpl == 2) {
                sess::Session s = forcedPonder(c);
                st.cls("ponder / ponderhit session on forced-move roots");
                runSession("sessions", s, st, 1);
                return;
            }
            if (tmpl == 1) {
                sess::Session s = treeChurn(c);
                st.cls("worker-tree churn session (Threads >= 6, thread count changes between searches)");
                runSession("sessions", s, st, 1);
                return;
            }
            if (tmpl == 0) {
                sess::Session s = tbHandOver(c);
                st.cls("tablebase hand-over session (resident on-demand table probed from a larger root)");
                runSession("sessions", s, st, 1);
                return;
            }
            sess::Session s;
            sess::Cmd t; t.kind = "setoption"; t.text = "setoption name Threads value " + std::to_string(c.range(2, 8)); s.cmds.push_back(t);
            sess::Session rest = sess::genSession(c, gOpts, cfg);
            for (auto& x : rest.cmds) s.cmds.push_back(x);
            runSession("sessions", s, st, 1);
        }, -1, 20);
        rc = vh::finish();
    }
    if (system(("rm -rf " + gWork).c_str())) {}
    return rc;
}
