// C16  Proof-game tool: a position reached by a legal game from the initial position is
// never declared illegal; every proof game that is printed is a valid game to exactly the
// requested position.  Code under test: lib/texelutillib/pg/*.cpp.  See DESIGN.md §3 C16
// and notes/C16.md.
//
//  sub "games" : random legal games from the standard start (1..150 plies, >= 26 men at the
//                end by construction).  (i) the first pass of ProofGameFilter on the final FEN
//                must not answer "illegal:"; a "legal: proof:" answer is replayed in refchess.
//                (ii) with one ProofGame(start, final, analyzeLastMoves=false): for every
//                prefix P_i computeBlocked is true, the played move touches no blocked square,
//                distLowerBound(P_i) != INT_MAX and <= remaining plies.
//  sub "short" : games of <= 12 plies: ProofGame::search with 1:1 weights must not return
//                "no solution"; its proof game and every proof printed by up to `iters`
//                filter iterations is replayed in refchess.
//  sub "iter"  : (thorough) `iters` iterations of the filter on final FENs of full games.
//
// Known finding D8 (key "D8-castling-bound"): an overshoot of the bound is put in that class
// iff excess <= 4 plies and some side castles in the continuation of the game; such
// overshoots are counted and do not stop the search, every other overshoot does.
#include "common/vh.hpp"
#include "common/gen.hpp"
#include "common/tx.hpp"
#include "chessError.hpp"
#include "proofgame.hpp"
#include "proofgamefilter.hpp"
#include <climits>
#include <iostream>
#include <sstream>

using vh::Value;
using vh::Choices;

// Declared friend of ProofGame, ProofGameFilter and MultiBoard in the repository.
class ProofGameTest {
public:
    static int bound(ProofGame& pg, const Position& p) { return pg.distLowerBound(p); }
    static bool iteration(ProofGameFilter& f, std::istream& is, std::ostream& os, bool first, int& maxNodes) {
        return f.runOneIteration(is, os, first, false, false, maxNodes);
    }
};

namespace {

const char* START = "rnbqkbnr/pppppppp/8/8/8/8/PPPPPPPP/RNBQKBNR w KQkq - 0 1";
const int MAX_CAPTURES = 6;   // 32 - 6 = 26 men

// ---------------------------------------------------------------- generator
enum Theme { TH_UNIFORM = 0, TH_CASTLE, TH_PROMO, TH_EP, TH_HOME, TH_QUIET, TH_CAPTURES, TH_PAWNS, TH_SCRIPT, TH_ROOKSAC, NTHEMES };
const char* themeName(int t) {
    static const char* n[] = {"uniform", "develop+castle", "promotion race", "e.p.", "king/rook out and home", "quiet", "captures", "pawns", "scripted opening", "castle, then the castled rook is captured"};
    return n[t];
}

// Scripted openings (legal from the initial position; checked move by move when used): situations the
// proof-kernel rules single out and random play practically never builds.  A random continuation follows.
const std::vector<std::vector<std::string>>& scripts() {
    static const std::vector<std::vector<std::string>> v = {
        // white promotes to a bishop on a8 behind the unmoved pawn b7 (trapped promoted bishop)
        {"b2b4", "a7a5", "b4a5", "a8a6", "g1f3", "a6h6", "a5a6", "g8f6", "a6a7", "f6g8", "a7a8b"},
        // black promotes to a bishop on a1 behind the unmoved pawn b2
        {"h2h4", "b7b5", "a2a4", "b5a4", "a1a3", "g8f6", "a3h3", "a4a3", "h4h5", "a3a2", "h5h6", "a2a1b"},
        // the same on the h-file
        {"g2g4", "h7h5", "g4h5", "h8h6", "b1c3", "h6a6", "h5h6", "b8c6", "h6h7", "c6b8", "h7h8b"},
        {"a2a4", "g7g5", "h2h4", "g5h4", "h1h3", "b8c6", "h3a3", "h4h3", "a4a5", "h3h2", "a5a6", "h2h1b"},
        // a white pawn captures five times: a2 x b3 x c4 x d5 x e6 x f7
        {"g1f3", "b8c6", "f3g1", "c6a5", "g1f3", "a5b3", "a2b3", "g8f6", "f3g1", "f6d5", "g1f3", "d5b6", "f3g1", "b6c4",
         "b3c4", "d7d5", "c4d5", "e7e6", "d5e6", "a7a6", "e6f7", "e8e7"},
        // a black pawn captures five times: h7 x g6 x f5 x e4 x d3 x c2
        {"g1f3", "g8f6", "f3h4", "f6g8", "h4g6", "h7g6", "b1c3", "g8f6", "c3d5", "f6g8", "d5e3", "g8f6", "e3f5", "g6f5",
         "e2e4", "f5e4", "d2d3", "e4d3", "a2a3", "d3c2"},
    };
    return v;
}

struct GameInfo {
    gen::Game g;
    int captures = 0, promotions = 0, castles = 0, epCaptures = 0, theme = 0;
    bool pawnTakesRookAfterCastle = false;
    std::vector<char> isCastle; // per move
    bool scriptBroken = false; std::string brokenAt;
};

bool givesPseudoEp(const ref::Pos& p, const ref::Move& m) { return ref::make(p, m).ep >= 0; }

int moveWeight(const ref::Pos& p, const ref::Move& m, int theme, bool capturesAllowed) {
    char pc = ref::lower(p.b[m.from]);
    bool cap = ref::isCapture(p, m);
    if (cap && !capturesAllowed) return 0;
    bool w = p.wtm;
    int adv = w ? ref::Y(m.to) : 7 - ref::Y(m.to);         // rank reached, from the mover's side
    int home = w ? 0 : 7;
    int wt = 4;
    switch (theme) {
    case TH_UNIFORM: break;
    case TH_CASTLE:
        if (ref::isCastle(p, m)) wt += 400;
        else if (pc == 'k') wt = 1;
        else if (pc == 'r') wt = 1;
        else if ((pc == 'n' || pc == 'b' || pc == 'q') && ref::Y(m.from) == home) wt += 16;
        else if (pc == 'p' && ref::Y(m.from) == (w ? 1 : 6)) wt += 8;
        break;
    case TH_PROMO:
        if (m.promo) wt += 150;
        else if (pc == 'p') wt += (cap ? 40 : 6) + adv * adv;
        else if (cap) wt += 10;
        break;
    case TH_EP:
        if (ref::isEp(p, m)) wt += 300;
        else if (pc == 'p' && givesPseudoEp(p, m)) wt += 120;
        else if (pc == 'p' && adv == 4 && !cap) wt += 30;   // a pawn on its 5th rank waits for a neighbour's double push
        else if (pc == 'p') wt += 4;
        break;
    case TH_HOME: {
        bool toHome = (pc == 'k' && m.to == ref::SQ(4, home)) || (pc == 'r' && (m.to == ref::SQ(0, home) || m.to == ref::SQ(7, home)));
        if (ref::isCastle(p, m)) wt = 1;
        else if (toHome) wt += 200;
        else if (pc == 'k' || pc == 'r') wt += 30;
        else if (pc == 'p' && ref::Y(m.from) == (w ? 1 : 6)) wt += 6;
        break;
    }
    case TH_ROOKSAC: {
        // develop and castle; afterwards rooks that have left their corners advance and pawns take rooks: the pieces a
        // castling move placed are captured later in the game
        bool corner = m.from == ref::SQ(0, home) || m.from == ref::SQ(7, home);
        if (ref::isCastle(p, m)) wt += 400;
        else if (cap && pc == 'p' && ref::lower(p.b[m.to]) == 'r') wt += 600;
        else if (pc == 'r' && !corner) wt += 10 + 6 * adv * adv;
        else if (pc == 'k' || pc == 'r') wt = 1;
        else if ((pc == 'n' || pc == 'b' || pc == 'q') && ref::Y(m.from) == home) wt += 16;
        else if (pc == 'p' && ref::Y(m.from) == (w ? 1 : 6)) wt += 8;
        break;
    }
    case TH_QUIET: if (!cap && pc != 'p') wt += 20; break;
    case TH_CAPTURES: if (cap) wt += 60; break;
    case TH_PAWNS: if (pc == 'p') wt += 20; break;
    }
    return wt;
}

GameInfo genGame(Choices& c, int maxPlies, bool longBias = false) {
    GameInfo gi;
    gen::Game& g = gi.g;
    g.startFen = START;
    g.pos.push_back(ref::startPos());
    int theme = gi.theme = g.profile = c.pick(NTHEMES);
    int plies = c.range(1, maxPlies);
    if (longBias) plies = std::max(plies, c.range(1, maxPlies));
    auto play = [&](const ref::Move& m) {
        const ref::Pos p = g.pos.back();
        if (ref::isCapture(p, m)) gi.captures++;
        if (ref::isEp(p, m)) gi.epCaptures++;
        if (m.promo) gi.promotions++;
        bool cs = ref::isCastle(p, m);
        if (gi.castles && ref::isCapture(p, m) && ref::lower(p.b[m.from]) == 'p' && ref::lower(p.b[m.to]) == 'r') gi.pawnTakesRookAfterCastle = true;
        if (cs) gi.castles++;
        gi.isCastle.push_back(cs);
        g.moves.push_back(m);
        g.pos.push_back(ref::make(p, m));
    };
    if (theme == TH_SCRIPT) {
        const std::vector<std::string>& sc = scripts()[c.pick((int)scripts().size())];
        size_t len = sc.size();
        if ((int)len > maxPlies) len = (size_t)maxPlies;
        for (size_t i = 0; i < len; i++) {
            ref::Move m = ref::Move::fromUci(sc[i]);
            if (!ref::isLegal(g.pos.back(), m)) { gi.scriptBroken = true; gi.brokenAt = sc[0] + "... move " + std::to_string(i) + " " + sc[i]; break; }
            play(m);
        }
        theme = c.flip() ? TH_QUIET : TH_UNIFORM;
    }
    for (int i = (int)g.moves.size(); i < plies; i++) {
        if (i > 0 && c.empty()) break;
        const ref::Pos& p = g.pos.back();
        std::vector<ref::Move> lm = ref::legalMoves(p);
        if (lm.empty()) break;
        if (i % 16 == 15 && c.chance(1, 3)) theme = c.pick(NTHEMES);
        bool capturesAllowed = gi.captures < MAX_CAPTURES;
        std::vector<int> wts(lm.size());
        long tot = 0;
        bool last = i + 1 == plies || c.left() <= 3;   // the choice stream ends the game too
        bool wantEp = last && c.chance(1, 3);
        for (size_t k = 0; k < lm.size(); k++) {
            wts[k] = moveWeight(p, lm[k], theme, capturesAllowed);
            if (wantEp && wts[k] > 0 && givesPseudoEp(p, lm[k])) wts[k] += 5000;
            tot += wts[k];
        }
        if (tot == 0) break;              // only captures are legal and the capture budget is spent: the game ends here
        long r = c.pick((int)tot);
        size_t k = 0;
        while (r >= wts[k]) { r -= wts[k]; k++; }
        play(lm[k]);
        if (wantEp && g.pos.back().ep >= 0) break;   // keep the double push as the final move
    }
    return gi;
}

bool gameInfoFrom(const std::vector<std::string>& ucis, GameInfo& gi) {
    gi = GameInfo();
    if (!gen::gameFrom(START, ucis, gi.g)) return false;
    for (size_t i = 0; i < gi.g.moves.size(); i++) {
        const ref::Pos& p = gi.g.pos[i];
        const ref::Move& m = gi.g.moves[i];
        if (ref::isCapture(p, m)) gi.captures++;
        if (ref::isEp(p, m)) gi.epCaptures++;
        if (m.promo) gi.promotions++;
        bool cs = ref::isCastle(p, m);
        if (cs) gi.castles++;
        gi.isCastle.push_back(cs);
    }
    return true;
}

// ---------------------------------------------------------------- helpers
struct NullBuf : std::streambuf { int overflow(int ch) override { return ch; } std::streamsize xsputn(const char*, std::streamsize n) override { return n; } };
std::ostream& nullLog() { static std::ostream os(nullptr); return os; } // badbit set: every << is a no-op

// goal FEN = final position with the e.p. target only if an e.p. capture is legal (what texel's
// FEN reader keeps; ProofGame rejects any other spelling as "Lossy FEN conversion").
std::string goalFenOf(const ref::Pos& fin) {
    ref::Pos q = fin;
    ref::normalizeEp(q);
    return ref::toFEN(q);
}

bool sameIdentity(const ref::Pos& a, const ref::Pos& goal, std::string& why) { // goal has legal-ep notion
    if (!a.sameBoard(goal)) { why = "placement differs"; return false; }
    if (a.wtm != goal.wtm) { why = "side to move differs"; return false; }
    if (a.cK != goal.cK || a.cQ != goal.cQ || a.ck != goal.ck || a.cq != goal.cq) { why = "castling rights " + ref::castleStr(a) + " instead of " + ref::castleStr(goal); return false; }
    int ea = ref::legalEp(a) ? a.ep : -1;
    if (ea != goal.ep) { why = "e.p. target " + (ea >= 0 ? ref::sqName(ea) : std::string("-")) + " instead of " + (goal.ep >= 0 ? ref::sqName(goal.ep) : std::string("-")); return false; }
    return true;
}

// Lenient reader for texel's short algebraic move text (e.g. Nbd2, exd5, e8Q, O-O+): the legal
// move of refchess that fits the text; exactly one must fit.
bool sanToMove(const ref::Pos& p, std::string s, ref::Move& out) {
    while (!s.empty() && strchr("+#!?", s.back())) s.pop_back();
    std::vector<ref::Move> lm = ref::legalMoves(p), fit;
    if (s == "O-O" || s == "O-O-O") {
        for (auto& m : lm) if (ref::isCastle(p, m) && (ref::X(m.to) == 6) == (s == "O-O")) fit.push_back(m);
    } else {
        std::string t;
        for (char ch : s) if (ch != 'x' && ch != '=' && ch != '-') t += ch;
        char piece = 'p', promo = 0;
        if (!t.empty() && strchr("KQRBN", t[0])) { piece = (char)(t[0] - 'A' + 'a'); t.erase(0, 1); }
        if (!t.empty() && strchr("QRBN", t.back())) { promo = (char)(t.back() - 'A' + 'a'); t.pop_back(); }
        if (t.size() < 2) return false;
        int to = ref::sqFromName(t, t.size() - 2);
        if (to < 0) return false;
        t.erase(t.size() - 2);
        int fx = -1, fy = -1;
        for (char ch : t) { if (ch >= 'a' && ch <= 'h') fx = ch - 'a'; else if (ch >= '1' && ch <= '8') fy = ch - '1'; else return false; }
        for (auto& m : lm) {
            if (m.to != to || ref::lower(p.b[m.from]) != piece || m.promo != promo) continue;
            if (piece == 'k' && ref::isCastle(p, m)) continue;
            if (fx >= 0 && ref::X(m.from) != fx) continue;
            if (fy >= 0 && ref::Y(m.from) != fy) continue;
            fit.push_back(m);
        }
    }
    if (fit.size() != 1) return false;
    out = fit[0];
    return true;
}

// (iii) replay a printed proof game from the initial position
std::string checkProofText(const std::vector<std::string>& sans, const ref::Pos& goal) {
    ref::Pos p = ref::startPos();
    for (size_t i = 0; i < sans.size(); i++) {
        ref::Move m;
        if (!sanToMove(p, sans[i], m)) return "proof move " + std::to_string(i + 1) + " '" + sans[i] + "' is not a (unique) legal move in " + ref::toFEN(p);
        p = ref::make(p, m);
    }
    std::string why;
    if (!sameIdentity(p, goal, why)) return "proof game of " + std::to_string(sans.size()) + " plies ends in " + ref::toFEN(p) + ": " + why;
    return "";
}
std::string checkProofMoves(const std::vector<Move>& mv, const ref::Pos& goal) {
    ref::Pos p = ref::startPos();
    for (size_t i = 0; i < mv.size(); i++) {
        ref::Move m = tx::toRef(mv[i]);
        if (!ref::isLegal(p, m)) return "proof move " + std::to_string(i + 1) + " " + m.uci() + " is illegal in " + ref::toFEN(p);
        p = ref::make(p, m);
    }
    std::string why;
    if (!sameIdentity(p, goal, why)) return "proof game of " + std::to_string(mv.size()) + " plies ends in " + ref::toFEN(p) + ": " + why;
    return "";
}

struct Verdict { std::string kind, detail; std::vector<std::string> proof; std::string line; };
// parse one output line of the filter: "<6 fen fields> token: data... token: data..."
Verdict parseLine(const std::string& line) {
    Verdict v; v.line = line;
    std::istringstream is(line);
    std::vector<std::string> a; std::string tok;
    while (is >> tok) a.push_back(tok);
    std::string cur;
    for (size_t i = 6; i < a.size(); i++) {
        if (!a[i].empty() && a[i].back() == ':') {
            cur = a[i].substr(0, a[i].size() - 1);
            if (cur == "illegal" || cur == "unknown" || cur == "legal") v.kind = cur;
        } else if (cur == "proof") v.proof.push_back(a[i]);
        else if (cur == "illegal" || cur == "info" || cur == "forced") { if (!v.detail.empty()) v.detail += ' '; v.detail += a[i]; }
    }
    if (v.kind == "unknown") {
        if (line.find(" fail:") != std::string::npos) v.kind = "unknown-fail";
        else if (line.find(" path:") != std::string::npos) v.kind = "unknown-path";
        else if (line.find(" extKernel:") != std::string::npos) v.kind = "unknown-kernel";
    }
    return v;
}

Value gameCase(const GameInfo& gi, const char* mode, int prefix = -1) {
    Value k = Value::object();
    k["mode"] = mode;
    k["moves"] = Value::arrayOf(gi.g.uciMoves());
    k["final_fen"] = goalFenOf(gi.g.pos.back());
    if (prefix >= 0) { k["prefix"] = prefix; k["prefix_fen"] = ref::toFEN(gi.g.pos[prefix]); }
    return k;
}

struct D8 { bool set = false; Value kase; std::string msg; size_t plies = 0; long count = 0; };

struct Checker {
    vh::Stats& st;
    D8 d8;
    bool strictD8 = false;   // replay mode: a D8-class overshoot fails like any other
    int iters = 1;
    explicit Checker(vh::Stats& s) : st(s) {}

    // classes / non-triviality of one game (rule from DESIGN.md)
    void classify(const GameInfo& gi, const std::string& goalFen, const char* sub) {
        const ref::Pos& f = gi.g.pos.back();
        bool epRight = ref::legalEp(f);
        bool pseudoOnly = f.ep >= 0 && !epRight;
        bool lostHome = (f.b[4] == 'K' && ((f.b[7] == 'R' && !f.cK) || (f.b[0] == 'R' && !f.cQ))) ||
                        (f.b[60] == 'k' && ((f.b[63] == 'r' && !f.ck) || (f.b[56] == 'r' && !f.cq)));
        auto mk = [&]() { Value v = Value::object(); v["final_fen"] = goalFen; v["plies"] = (long)gi.g.moves.size(); v["theme"] = themeName(gi.theme); return v; };
        std::string pre = std::string(sub) + ": ";
        if (gi.promotions) st.clsSample(pre + "game with >=1 promotion", mk);
        if (epRight) st.clsSample(pre + "e.p. right in the final position", mk);
        if (pseudoOnly) st.clsSample(pre + "final double push beside an enemy pawn, e.p. capture illegal", mk);
        if (gi.captures >= 3) st.clsSample(pre + ">=3 captures", mk);
        if (lostHome) st.clsSample(pre + "castling right lost, king and rook at home", mk);
        if (gi.castles) st.clsSample(pre + "game with castling", mk);
        if (gi.pawnTakesRookAfterCastle) st.cls(pre + "game with castling and a later pawn-takes-rook capture");
        if (gi.epCaptures) st.clsSample(pre + "game with e.p. capture", mk);
        if (f.men() == 26) st.clsSample(pre + "26 men", mk);
        if (gi.theme == TH_SCRIPT) st.cls(pre + "scripted opening");
        if (gi.scriptBroken) st.cls("harness: scripted opening is not legal: " + gi.brokenAt);
        {   // bishop on its last rank whose diagonal exits are the opponent's unmoved pawns (trapped; promoted if it is not on c/f)
            bool trapped = false;
            for (int x = 0; x < 8; x++) {
                auto pawnAt = [&](int xx, int y, char pc) { return xx < 0 || xx > 7 || f.b[ref::SQ(xx, y)] == pc; };
                if (f.b[ref::SQ(x, 7)] == 'B' && pawnAt(x - 1, 6, 'p') && pawnAt(x + 1, 6, 'p')) trapped = true;
                if (f.b[ref::SQ(x, 0)] == 'b' && pawnAt(x - 1, 1, 'P') && pawnAt(x + 1, 1, 'P')) trapped = true;
            }
            if (trapped) st.clsSample(pre + "promoted bishop trapped behind unmoved pawns", mk);
        }
        if (ref::inCheck(f)) st.clsSample(pre + "final position in check", mk);
        if (gi.promotions || epRight || gi.captures >= 3 || lostHome) st.nt(pre + goalFen); else st.cls(pre + "plain");
    }

    std::string goalOrFail(const GameInfo& gi, const Value& kase) {
        const ref::Pos& fin = gi.g.pos.back();
        if (fin.men() < 26) vh::fail(kase, "harness: generated final position has fewer than 26 men");
        std::string goalFen = goalFenOf(fin);
        std::string back = TextIO::toFEN(TextIO::readFEN(goalFen));
        if (back != goalFen) vh::fail(kase, "precondition (C17 territory): texel's FEN round trip changes '" + goalFen + "' into '" + back + "'");
        return goalFen;
    }

    // run `n` filter iterations on one FEN; returns the verdict lines of each iteration
    std::vector<Verdict> runFilter(const std::string& fen, int n, const Value& kase) {
        std::vector<Verdict> out;
        std::string cur = fen + "\n";
        try {
            ProofGameFilter f(1, 0, false);
            int maxNodes = 0;
            for (int it = 0; it < n; it++) {
                std::istringstream in(cur);
                std::ostringstream os;
                bool more = ProofGameTest::iteration(f, in, os, it == 0, maxNodes);
                cur = os.str();
                std::string line = cur;
                while (!line.empty() && (line.back() == '\n' || line.back() == '\r')) line.pop_back();
                if (line.find('\n') != std::string::npos || line.compare(0, fen.size(), fen) != 0)
                    vh::fail(kase, "filter output for one input line is not one line starting with the FEN: '" + line.substr(0, 300) + "'");
                out.push_back(parseLine(line));
                if (!more) break;
            }
        } catch (const vh::CaseFailed&) {
            throw;
        } catch (const std::exception& e) {
            vh::fail(kase, std::string("ProofGameFilter threw ") + e.what() + " on a reachable position");
        }
        return out;
    }

    void judgeVerdicts(const std::vector<Verdict>& vs, const ref::Pos& goal, const Value& kase, const char* sub) {
        std::string pre = std::string(sub) + ": ";
        for (size_t it = 0; it < vs.size(); it++) {
            const Verdict& v = vs[it];
            if (v.line.find(" illegal:") != std::string::npos || v.kind == "illegal")
                vh::fail(kase, "filter iteration " + std::to_string(it) + " declares a reachable position illegal: '" + v.detail + "'   [" + v.line.substr(0, 400) + "]");
            if (v.kind == "legal") {
                if (v.line.find(" proof:") == std::string::npos) vh::fail(kase, "'legal:' without 'proof:'  [" + v.line.substr(0, 300) + "]");
                std::string e = checkProofText(v.proof, goal);
                if (!e.empty()) vh::fail(kase, "invalid proof game (filter iteration " + std::to_string(it) + "): " + e + "  [" + v.line.substr(0, 600) + "]");
                st.count(pre + "proof games replayed in refchess");
            }
        }
        const Verdict& l = vs.back();
        std::string k = l.kind.empty() ? "no verdict token" : l.kind;
        if (k == "unknown-fail") st.inconclusive++;
        st.clsSample(pre + "verdict after " + std::to_string(vs.size()) + " iteration(s): " + k, [&]() {
            Value v = Value::object(); v["output_line"] = l.line.substr(0, 500); return v; });
    }

    // (ii)
    void checkBounds(const GameInfo& gi, const std::string& goalFen, const char* sub) {
        const gen::Game& g = gi.g;
        const size_t n = g.moves.size();
        const ref::Pos& fin = g.pos.back();
        if (fin.ep >= 0 && !ref::legalEp(fin)) {
            // the search reaches the final placement with a (pseudo) e.p. square set, which texel does not
            // identify with the goal: "remaining plies" is not a distance in texel's sense.
            st.count("bound: games skipped (final double push leaves a non-capturable e.p. square)");
            return;
        }
        std::unique_ptr<ProofGame> pg;
        try {
            pg.reset(new ProofGame(START, goalFen, false, {}, false, nullLog()));
        } catch (const std::exception& e) {
            vh::fail(gameCase(gi, sub), std::string("ProofGame constructor rejects a reachable goal: ") + e.what());
        }
        Position chain = TextIO::readFEN(START);
        int lastCastle = -1;
        for (size_t i = 0; i < n; i++) if (gi.isCastle[i]) lastCastle = (int)i;
        for (size_t i = 0; i <= n; i++) {
            const int rem = (int)(n - i);
            U64 blocked = 0;
            if (!pg->computeBlocked(chain, blocked))
                vh::fail(gameCase(gi, sub, (int)i), "computeBlocked returns false (goal unreachable) for a position " + std::to_string(rem) + " plies before the goal");
            if (i < n) {
                const ref::Move& m = g.moves[i];
                U64 touched = (1ULL << m.from) | (1ULL << m.to);
                if (ref::isCastle(g.pos[i], m)) touched |= 1ULL << (ref::X(m.to) == 6 ? m.from + 3 : m.from - 4);
                if (touched & blocked)
                    vh::fail(gameCase(gi, sub, (int)i), "computeBlocked marks a square of the move " + m.uci() + " as blocked although the game reaches the goal through it (the search skips such moves)");
            }
            int b = ProofGameTest::bound(*pg, chain);
            st.count("bound: prefix positions checked");
            if (b == INT_MAX)
                vh::fail(gameCase(gi, sub, (int)i), "distLowerBound = INT_MAX (unreachable) for a position " + std::to_string(rem) + " plies before the goal");
            if (b < 0) vh::fail(gameCase(gi, sub, (int)i), "distLowerBound is negative");
            if (b > rem) {
                int excess = b - rem;
                bool castleAhead = lastCastle >= (int)i;
                std::string msg = "distLowerBound = " + std::to_string(b) + " > " + std::to_string(rem) + " remaining plies (excess " + std::to_string(excess) +
                                  (castleAhead ? ", a castling move follows" : ", no castling move follows") + ")  [prefix " + ref::toFEN(g.pos[i]) + " -> goal " + goalFen + "]";
                if (excess <= 4 && castleAhead && !strictD8) {
                    // known finding D8: counted, excluded from the search for other overshoots
                    d8.count++;
                    st.count("bound: overshoots of class D8-castling-bound (excess <= 4, castling in the continuation)");
                    if (!d8.set || n < d8.plies) { d8.set = true; d8.plies = n; d8.kase = gameCase(gi, sub, (int)i); d8.msg = msg; }
                } else {
                    vh::fail(gameCase(gi, sub, (int)i), msg);
                }
            } else if (b == rem && rem > 0) st.count("bound: tight (= remaining plies)");
            if (i == n && b != 0) vh::fail(gameCase(gi, sub, (int)i), "distLowerBound(goal) = " + std::to_string(b));
            if (i < n) {
                UndoInfo ui;
                chain.makeMove(tx::toTexel(g.moves[i], g.pos[i].wtm), ui);
            }
        }
        {   // precondition: the chain really is the game
            std::string d;
            for (int s = 0; s < 64 && d.empty(); s++) if (tx::pieceChar(chain.getPiece(Square(s))) != fin.b[s]) d = "square " + ref::sqName(s);
            if (!d.empty()) vh::fail(gameCase(gi, sub), "precondition (C01/C02 territory): texel and refchess disagree on the final position: " + d);
        }
        st.count("bound: games");
    }

    // sub "games": (i) + first-pass proofs + (ii)
    void runGame(const GameInfo& gi, const char* sub, bool bounds, int nIter) {
        Value kase = gameCase(gi, sub);
        vh::setCurrent(sub, kase);
        std::string goalFen = goalOrFail(gi, kase);
        ref::Pos goal;
        ref::fromFEN(goalFen, goal);
        st.evaluations++;
        classify(gi, goalFen, sub);
        if (nIter > 0) {
            std::vector<Verdict> vs = runFilter(goalFen, nIter, kase);
            if (vs.empty()) vh::fail(kase, "filter wrote no output line for the FEN");
            judgeVerdicts(vs, goal, kase, sub);
        }
        if (bounds) checkBounds(gi, goalFen, sub);
        vh::clearCurrent();
    }

    // sub "short": exhaustive search on short games
    void runShort(const GameInfo& gi, long maxNodes, int nIter) {
        const char* sub = "short";
        Value kase = gameCase(gi, sub);
        vh::setCurrent(sub, kase);
        std::string goalFen = goalOrFail(gi, kase);
        ref::Pos goal;
        ref::fromFEN(goalFen, goal);
        st.evaluations++;
        classify(gi, goalFen, sub);
        try {
            ProofGame ps(START, goalFen, true, {}, false, nullLog());
            ProofGame::Result res;
            int best = ps.search(ProofGame::Options().setMaxNodes(maxNodes), res);
            st.count("short: search nodes", res.numNodes);
            if (best == INT_MAX) vh::fail(kase, "ProofGame::search (weights 1:1) reports that no solution exists for a position reached in " + std::to_string(gi.g.moves.size()) + " plies");
            if (best == -1) { st.inconclusive++; st.cls("short: search gave up at the node budget"); }
            else {
                if ((int)res.proofGame.size() != best) vh::fail(kase, "search returns length " + std::to_string(best) + " but a proof game of " + std::to_string(res.proofGame.size()) + " plies");
                std::string e = checkProofMoves(res.proofGame, goal);
                if (!e.empty()) vh::fail(kase, "invalid proof game from ProofGame::search: " + e);
                st.count("short: proof games replayed in refchess");
                if (best > (int)gi.g.moves.size()) st.cls("short: proof longer than the generating game");
                else if (best < (int)gi.g.moves.size()) st.cls("short: proof shorter than the generating game");
                else st.cls("short: proof as long as the generating game");
            }
        } catch (const vh::CaseFailed&) {
            throw;
        } catch (const std::exception& e) {
            vh::fail(kase, std::string("ProofGame (analyzeLastMoves) throws on a reachable goal: ") + e.what());
        }
        if (nIter > 0) {
            std::vector<Verdict> vs = runFilter(goalFen, nIter, kase);
            if (vs.empty()) vh::fail(kase, "filter wrote no output line for the FEN");
            judgeVerdicts(vs, goal, kase, sub);
        }
        checkBounds(gi, goalFen, sub);
        vh::clearCurrent();
    }
};

} // namespace

int main(int argc, char** argv) {
    vh::Args a = vh::parseArgs(argc, argv);
    vh::installDeathHooks();
    vh::Stats& st = vh::ctx().stats;
    std::clog.rdbuf(nullptr);    // the filter logs to std::clog
    Checker ck(st);
    const int iters = (int)a.num("iters", 3);
    const long shortNodes = a.num("short-nodes", 200000);
    if (a.num("selftest", 0)) {   // every scripted opening must be a legal game
        int bad = 0;
        for (auto& sc : scripts()) {
            gen::Game g;
            bool ok = gen::gameFrom(START, sc, g);
            printf("script %s... %zu plies: %s  -> %s\n", sc[0].c_str(), sc.size(), ok ? "legal" : "ILLEGAL", ok ? ref::toFEN(g.pos.back()).c_str() : "");
            bad += !ok;
        }
        return bad ? 2 : 0;
    }
    if (!a.replay.empty()) {
        ck.strictD8 = true;
        return vh::runReplay([&](const std::string& sub, const Value& k) {
            GameInfo gi;
            if (!gameInfoFrom(k.strs("moves"), gi) || gi.g.moves.empty()) vh::fail(k, "replay file does not describe a legal game from the standard start");
            std::string mode = k.getStr("mode", sub);
            if (mode == "short") ck.runShort(gi, shortNodes, iters);
            else if (mode == "iter") ck.runGame(gi, "iter", false, iters);
            else ck.runGame(gi, "games", true, 1);
        });
    }
    const long nGames = a.num("games", a.cases), nShort = a.num("short", 0), nIter = a.num("iter", 0);
    const int maxPlies = (int)a.num("plies", 150);
    vh::runProp("games", nGames, 3.0, [&](Choices& c) {
        GameInfo gi = genGame(c, maxPlies);
        ck.runGame(gi, "games", true, 1);
    });
    vh::ctx().shrinkBudget = 600;   // the oracles below are expensive; bound the shrinking effort
    vh::runProp("short", nShort, 1.0, [&](Choices& c) {
        GameInfo gi = genGame(c, (int)a.num("short-plies", 12), true);
        ck.runShort(gi, shortNodes, iters);
    });
    vh::ctx().shrinkBudget = 150;
    vh::runProp("iter", nIter, 3.0, [&](Choices& c) {
        GameInfo gi = genGame(c, maxPlies);
        ck.runGame(gi, "iter", false, iters);
    });
    if (ck.d8.set) {
        // one representative (shortest game) of the known class; the runner matches `key`
        // against known_findings.json and prints KNOWN-FINDING or VIOLATION.
        vh::Ctx& cx = vh::ctx();
        std::string msg = ck.d8.msg + "  (" + std::to_string(ck.d8.count) + " overshoots of this class in this shard)";
        std::string fn = vh::writeReplay("games", ck.d8.kase, msg);
        Value v = Value::object();
        v["sub"] = "games"; v["replay"] = fn; v["message"] = msg; v["key"] = "D8-castling-bound";
        cx.violations.push_back(v);
        printf("FINDING-CLASS property=%s key=D8-castling-bound replay=%s\n  %s\n", cx.args.prop.c_str(), fn.c_str(), msg.c_str());
    }
    return vh::finish();
}
