// C12  On-demand endgame tables hold the exact distance to mate.
// See DESIGN.md §3 C12 and notes/C12.md.
//
// Oracle = validity predicate (no second generator): at every legal placement p of a
// pawnless <= 4-man material (refchess decides legality and produces the successors)
// the value returned by probeDTM must satisfy the minimax recurrence over the probed
// values of all successors.  A labelling that satisfies it everywhere is *the*
// distance-to-mate labelling (induction on the distance).  Both storages are checked:
// TBGenerator<VectorStorage> directly, and TBGenerator<TTStorage> through
// TranspositionTable::updateTB / probeDTM on a 16 MiB table.
//
// Fault sweep: generation inside updateTB is aborted at every clock call (the clock hook
// verif::clockNanosHook is a call counter, so "at the k-th time check" is exact) either by
// a stop (maxTimeMillis := 0) or by the time limit, ordinary hash traffic follows, then
// every placement is probed: probeDTM must miss or be exact; a later successful updateTB
// must leave an exact table.
//
// Modes (chosen from --tier/--shard, or explicitly with --mode):
//   quick     one seeded 3-man class complete (both storages) + its share of that class's
//             fault sweep + one sampled 4-man table (random placements) + one 4-man fault point
//   item      thorough work item number --shard: 0..43 = table complete (3-man: + full fault
//             sweep), 44.. = slices of the fault sweep of two seeded 4-man classes
//   asan      small sample for the ASan+UBSan build
#include "common/vh.hpp"
#include "common/refchess.hpp"
#include "common/tx.hpp"
#include "tbgen.hpp"
#include "transpositionTable.hpp"
#include "constants.hpp"
#include "verifhook.hpp"
#include <algorithm>
#include <functional>
#include <memory>

using vh::Value;
using vh::Choices;

namespace {

const int MATE0 = SearchConst::MATE0;
const int16_t NF = -32768;           // "not found"
const U64 TT_ENTRIES = 1 << 20;      // 16 MiB

// ---- deterministic expansion of a seed drawn from the choice stream / VERIF_SEED ----------
struct Rng {
    uint64_t s;
    explicit Rng(uint64_t seed) : s(seed) {}
    uint64_t next() { s += 0x9e3779b97f4a7c15ULL; uint64_t z = s; z = (z ^ (z >> 30)) * 0xbf58476d1ce4e5b9ULL; z = (z ^ (z >> 27)) * 0x94d049bb133111ebULL; return z ^ (z >> 31); }
    int pick(int n) { return (int)(next() % (uint64_t)n); }
};

// ---- tables ------------------------------------------------------------------------------
struct Table {
    std::string name;          // e.g. KQvKR
    PieceCount pc;
    std::vector<char> men;     // refchess piece letters: K, white extras (Q R B N), k, black extras
    int nMen() const { return (int)men.size(); }
};

Table mkTable(const std::string& w, const std::string& b) {  // w, b: extra piece letters (upper case) of each side
    Table t;
    t.pc = PieceCount{0, 0, 0, 0, 0, 0, 0, 0};
    t.men.push_back('K');
    for (char c : w) { t.men.push_back(c); if (c == 'Q') t.pc.nwq++; if (c == 'R') t.pc.nwr++; if (c == 'B') t.pc.nwb++; if (c == 'N') t.pc.nwn++; }
    t.men.push_back('k');
    for (char c : b) { t.men.push_back(ref::lower(c)); if (c == 'Q') t.pc.nbq++; if (c == 'R') t.pc.nbr++; if (c == 'B') t.pc.nbb++; if (c == 'N') t.pc.nbn++; }
    t.name = "K" + w + "vK" + b;
    return t;
}

std::vector<Table> allTables() {   // 8 three-man tables first, then the 36 four-man tables
    std::vector<Table> v;
    const std::string P = "QRBN";
    for (char c : P) v.push_back(mkTable(std::string(1, c), ""));
    for (char c : P) v.push_back(mkTable("", std::string(1, c)));
    for (int i = 0; i < 4; i++) for (int j = i; j < 4; j++) v.push_back(mkTable(std::string(1, P[i]) + P[j], ""));
    for (int i = 0; i < 4; i++) for (int j = i; j < 4; j++) v.push_back(mkTable("", std::string(1, P[i]) + P[j]));
    for (int i = 0; i < 4; i++) for (int j = 0; j < 4; j++) v.push_back(mkTable(std::string(1, P[i]), std::string(1, P[j])));
    return v;
}
const Table* findTable(const std::vector<Table>& ts, const std::string& n) { for (auto& t : ts) if (t.name == n) return &t; return nullptr; }

// ---- value decoding ------------------------------------------------------------------------
enum Kind { K_NF, K_DRAW, K_WIN, K_LOSS, K_BAD };
struct DV { Kind k; int d; };  // d = plies to mate
// texel's convention (constants.hpp): 32000 = can take king, -31999 = is mated, 31998 = mate in one
// => |score| = MATE0 - 1 - (plies to mate) at ply 0
DV decode(int16_t raw) {
    if (raw == NF) return {K_NF, 0};
    if (raw == 0) return {K_DRAW, 0};
    int d = MATE0 - 1 - std::abs((int)raw);
    if (d < 0 || d > 400) return {K_BAD, d};
    return {raw > 0 ? K_WIN : K_LOSS, d};
}
std::string valStr(int16_t raw) {
    DV v = decode(raw);
    switch (v.k) {
    case K_NF: return "not found";
    case K_DRAW: return "draw";
    case K_WIN: return "win in " + std::to_string(v.d) + " plies (score " + std::to_string(raw) + ")";
    case K_LOSS: return "loss in " + std::to_string(v.d) + " plies (score " + std::to_string(raw) + ")";
    default: return "score " + std::to_string(raw) + " (not a mate score, not 0)";
    }
}

// What the recurrence demands at a legal position, given the successors' values.
// Returns "" if v is right, else the reason.  cls receives the evidence class of the position.
std::string judge(bool inCheck, int16_t v, const std::vector<int16_t>& succ, const std::vector<ref::Move>& moves, std::string* cls) {
    DV a = decode(v);
    if (a.k == K_NF) return "legal position is not found in the table";
    if (a.k == K_BAD) return "value is " + valStr(v);
    DV exp;
    if (succ.empty()) exp = inCheck ? DV{K_LOSS, 0} : DV{K_DRAW, 0};
    else {
        int minLoss = 1 << 20, maxWin = -1;
        bool anyDraw = false;
        for (size_t i = 0; i < succ.size(); i++) {
            DV s = decode(succ[i]);
            if (s.k == K_NF || s.k == K_BAD) return "successor after " + moves[i].uci() + " is " + valStr(succ[i]);
            if (s.k == K_LOSS) minLoss = std::min(minLoss, s.d);
            else if (s.k == K_DRAW) anyDraw = true;
            else maxWin = std::max(maxWin, s.d);
        }
        if (minLoss < (1 << 20)) exp = {K_WIN, minLoss + 1};
        else if (anyDraw) exp = {K_DRAW, 0};
        else exp = {K_LOSS, maxWin + 1};
    }
    if (cls) {
        if (succ.empty()) *cls = inCheck ? "checkmate" : "stalemate";
        else if (exp.k == K_DRAW) *cls = "draw (not stalemate)";
        else if (exp.k == K_WIN) *cls = exp.d >= 3 ? "win, mate in >= 2 moves" : "win, mate in 1";
        else *cls = exp.d >= 4 ? "loss, mated in >= 2 moves" : "loss, mated in 1";
    }
    if (exp.k != a.k || exp.d != a.d) {
        std::string e = exp.k == K_DRAW ? "draw" : (exp.k == K_WIN ? "win in " : "loss in ") + std::to_string(exp.d) + " plies";
        std::string s = "table says " + valStr(v) + ", the recurrence over the successors demands " + e + "; successors:";
        for (size_t i = 0; i < succ.size() && i < 40; i++) s += " " + moves[i].uci() + "=" + (decode(succ[i]).k == K_DRAW ? "draw" : (decode(succ[i]).k == K_WIN ? "W" : "L") + std::to_string(decode(succ[i]).d));
        return s;
    }
    return "";
}
bool ntClass(const std::string& c) { return c == "draw (not stalemate)" || c == "win, mate in >= 2 moves" || c == "loss, mated in >= 2 moves"; }

// ---- texel positions ------------------------------------------------------------------------
// Bulk probing re-uses one Position and moves the men with the public setPiece(); a sample
// of the positions additionally goes through TextIO::readFEN and must give the same answer.
struct PosBuilder {
    Position pos;
    int occ[8]; int nOcc = 0;
    void clear() { for (int i = 0; i < nOcc; i++) pos.setPiece(Square(occ[i]), Piece::EMPTY); nOcc = 0; }
    void put(int sq, char c) { pos.setPiece(Square(sq), tx::pieceCode(c)); occ[nOcc++] = sq; }
    void from(const ref::Pos& p) {
        clear();
        for (int s = 0; s < 64; s++) if (p.b[s] != '.') put(s, p.b[s]);
        pos.setWhiteMove(p.wtm);
    }
};

using Prober = std::function<bool(const Position&, int, int&)>;
int16_t probeRaw(const Prober& pr, const Position& pos) {
    int score = 12345;
    if (!pr(pos, 0, score)) return NF;
    if (score < -32767 || score > 32767) return (int16_t)32767;   // decoded as K_BAD
    return (int16_t)score;
}

struct VecTB {
    VectorStorage vs;
    std::unique_ptr<TBGenerator<VectorStorage>> gen;
    bool build(const PieceCount& pc) {
        gen.reset(new TBGenerator<VectorStorage>(vs, pc));
        RelaxedShared<S64> mt(-1);
        return gen->generate(mt, false);
    }
    Prober prober() { return [this](const Position& p, int ply, int& s) { return gen->probeDTM(p, ply, s); }; }
};
Prober ttProber(TranspositionTable& tt) { return [&tt](const Position& p, int ply, int& s) { return tt.probeDTM(p, ply, s); }; }

// ---- dense reference arrays: one per material subset that captures can reach -------------------
struct Layout {
    unsigned mask = 0;               // bit i: man i of the table is on the board
    std::vector<int> men;            // present men, ascending
    int m = 0;
    std::vector<int16_t> val;        // index = sum sq[k] << 6k | wtm << 6m ; NF also for overlapping/illegal placements
    size_t idx(const int* sq, bool wtm) const { size_t r = 0; for (int k = 0; k < m; k++) r |= (size_t)sq[k] << (6 * k); return r | ((size_t)wtm << (6 * m)); }
};
struct RefTab {
    const Table* t = nullptr;
    std::vector<Layout> lay;         // lay[0] = full material
    Layout* find(unsigned mask) { for (auto& l : lay) if (l.mask == mask) return &l; return nullptr; }
};
void initLayouts(const Table& t, RefTab& r) {
    r.t = &t; r.lay.clear();
    int n = t.nMen();
    std::vector<int> extras;
    for (int i = 0; i < n; i++) if (ref::lower(t.men[i]) != 'k') extras.push_back(i);
    for (unsigned sub = 0; sub < (1u << extras.size()); sub++) {   // sub = set of removed extras
        Layout l;
        l.mask = (1u << n) - 1;
        for (size_t e = 0; e < extras.size(); e++) if (sub >> e & 1) l.mask &= ~(1u << extras[e]);
        for (int i = 0; i < n; i++) if (l.mask >> i & 1) l.men.push_back(i);
        l.m = (int)l.men.size();
        r.lay.push_back(l);
    }
}

struct Runner {
    vh::Stats& st;
    vh::Args& a;
    std::vector<Table> tables;
    PosBuilder pb;
    long fenEvery = 257, fenCtr = 0;
    Value extra = Value::object();    // written to <part>.c12.json
    bool failedHere = false;

    Runner(vh::Stats& s, vh::Args& ar) : st(s), a(ar), tables(allTables()) {
        extra["tables"] = Value::array(); extra["fault"] = Value::array();
    }

    Value posCase(const Table& t, const std::string& storage, const ref::Pos& p) {
        Value k = Value::object();
        k["kind"] = "placement"; k["table"] = t.name; k["storage"] = storage; k["fen"] = ref::toFEN(p);
        return k;
    }
    void violation(const std::string& sub, const Value& k, const std::string& msg) { failedHere = true; vh::recordViolation(sub, k, msg); }

    // A random legal placement of the full material (root for updateTB).
    ref::Pos randomLegal(const Table& t, Rng& r, unsigned mask = ~0u) {
        for (;;) {
            ref::Pos p; bool ok = true;
            for (int i = 0; i < t.nMen(); i++) {
                if (!(mask >> i & 1)) continue;
                int s = r.pick(64);
                if (p.b[s] != '.') { ok = false; break; }
                p.b[s] = t.men[i];
            }
            if (!ok) continue;
            p.wtm = r.pick(2);
            if (ref::inCheck(p, !p.wtm)) continue;
            return p;
        }
    }

    // Also probe through the FEN reader (every fenEvery-th call) and require the same answer.
    std::string fenPathCheck(const Prober& pr, const ref::Pos& p, int16_t viaSetPiece) {
        if (++fenCtr % fenEvery) return "";
        Position fp;
        try { fp = TextIO::readFEN(ref::toFEN(p)); } catch (const ChessParseError& e) { return std::string("readFEN rejects a legal position: ") + e.what(); }
        int16_t v = probeRaw(pr, fp);
        st.count("probes through readFEN");
        if (v != viaSetPiece) return "probeDTM of the position read from FEN gives " + valStr(v) + ", of the same position built with setPiece " + valStr(viaSetPiece);
        return "";
    }

    // ---- complete enumeration of one table -------------------------------------------------
    // Fill the reference arrays with prober's answers (every placement of every reachable
    // material subset); illegal placements must be "not found".
    bool fillArrays(const Table& t, const Prober& pr, const std::string& storage, RefTab& r, RefTab* cmp, const std::string& sub) {
        for (auto& l : r.lay) {
            if (!cmp) l.val.assign((size_t)2 << (6 * l.m), NF);
            Layout* cl = cmp ? cmp->find(l.mask) : nullptr;
            const int m = l.m;
            const size_t total = (size_t)1 << (6 * m);
            int sq[5];
            ref::Pos p;
            for (size_t code = 0; code < total; code++) {
                bool overlap = false;
                for (int k = 0; k < m; k++) { sq[k] = (int)(code >> (6 * k)) & 63; for (int j = 0; j < k; j++) if (sq[j] == sq[k]) overlap = true; }
                if (overlap) continue;
                for (int k = 0; k < m; k++) p.b[sq[k]] = t.men[l.men[k]];
                pb.clear();
                for (int k = 0; k < m; k++) pb.put(sq[k], t.men[l.men[k]]);
                for (int w = 0; w < 2; w++) {
                    p.wtm = w;
                    pb.pos.setWhiteMove(w);
                    bool legal = !ref::inCheck(p, !p.wtm);
                    int16_t v = probeRaw(pr, pb.pos);
                    st.evaluations++;
                    std::string e;
                    if (!legal) { st.count("illegal placements probed (must be not found)"); if (v != NF) e = "illegal placement (side not to move is in check) is answered: " + valStr(v); }
                    else {
                        if (v == NF) e = "legal position is not found in the table";
                        else if (decode(v).k == K_BAD) e = "value is " + valStr(v);
                        else e = fenPathCheck(pr, p, v);
                    }
                    if (e.empty() && cl) {
                        int16_t want = legal ? cl->val[cl->idx(sq, w)] : NF;
                        if (v != want) e = storage + " table gives " + valStr(v) + ", the VectorStorage table of the same class " + valStr(want);
                    }
                    if (!e.empty()) { violation(sub, posCase(t, storage, p), e + "  [" + ref::toFEN(p) + "]"); for (int k = 0; k < m; k++) p.b[sq[k]] = '.'; return false; }
                    if (!cmp && legal) l.val[l.idx(sq, w)] = v;
                }
                for (int k = 0; k < m; k++) p.b[sq[k]] = '.';
            }
        }
        return true;
    }

    // Recurrence at every legal placement, array lookups only.
    bool recurrenceAll(const Table& t, RefTab& r, const std::string& storage, const std::string& sub, long& ntCount) {
        std::vector<int16_t> succ;
        for (auto& l : r.lay) {
            const int m = l.m;
            const size_t total = (size_t)1 << (6 * m);
            int sq[5], nsq[5];
            ref::Pos p;
            for (size_t code = 0; code < total; code++) {
                bool overlap = false;
                for (int k = 0; k < m; k++) { sq[k] = (int)(code >> (6 * k)) & 63; for (int j = 0; j < k; j++) if (sq[j] == sq[k]) overlap = true; }
                if (overlap) continue;
                for (int k = 0; k < m; k++) p.b[sq[k]] = t.men[l.men[k]];
                for (int w = 0; w < 2; w++) {
                    p.wtm = w;
                    if (ref::inCheck(p, !p.wtm)) continue;
                    std::vector<ref::Move> mv = ref::legalMoves(p);
                    succ.clear();
                    for (auto& mo : mv) {
                        int mover = -1, victim = -1;
                        for (int k = 0; k < m; k++) { if (sq[k] == mo.from) mover = k; if (sq[k] == mo.to) victim = k; }
                        unsigned nmask = l.mask;
                        if (victim >= 0) nmask &= ~(1u << l.men[victim]);
                        Layout* nl = victim >= 0 ? r.find(nmask) : &l;
                        int c = 0;
                        for (int k = 0; k < m; k++) { if (k == victim) continue; nsq[c++] = k == mover ? mo.to : sq[k]; }
                        succ.push_back(nl->val[nl->idx(nsq, !w)]);
                    }
                    std::string cls;
                    std::string e = judge(ref::inCheck(p), l.val[l.idx(sq, w)], succ, mv, &cls);
                    st.count("recurrence checks");
                    if (!e.empty()) { violation(sub, posCase(t, storage, p), e + "  [" + ref::toFEN(p) + "]"); return false; }
                    if (st.cls(cls)) { st.sample(cls, posCase(t, storage, p)); }
                    if (ntClass(cls)) { ntCount++; if ((ntCount & 15) == 0 || m < 4) st.nt(vh::fnv(t.name) ^ vh::mix(code * 2 + w + ((uint64_t)l.mask << 40))); }
                }
                for (int k = 0; k < m; k++) p.b[sq[k]] = '.';
            }
        }
        return true;
    }

    ref::Pos rootOf(const Table& t, uint64_t seed) { Rng r(vh::mix(seed ^ vh::fnv(t.name))); return randomLegal(t, r); }

    bool installTT(TranspositionTable& tt, const Table& t, const ref::Pos& root, const std::string& sub) {
        RelaxedShared<S64> mt(-1);
        pb.from(root);
        bool ok = tt.updateTB(pb.pos, mt);
        if (!ok) { Value k = posCase(t, "TTStorage", root); k["kind"] = "updateTB"; violation(sub, k, "updateTB(root, maxTimeMillis=-1) on a 16 MiB table returns false"); }
        return ok;
    }

    // Out-of-scope probes against a resident table: pawns, castling rights, other material, 5 men.
    bool outOfScope(const Table& t, const Prober& pr, const std::string& storage, Rng& rng, int n, const std::string& sub) {
        static const char all[] = "QRBNqrbn";
        for (int i = 0; i < n; i++) {
            ref::Pos p = randomLegal(t, rng);
            std::string what;
            int kind = rng.pick(5);
            auto emptySq = [&](bool pawnOk) { for (;;) { int s = rng.pick(64); if (p.b[s] == '.' && (!pawnOk || (ref::Y(s) > 0 && ref::Y(s) < 7))) return s; } };
            if (kind == 0) { p.b[emptySq(true)] = rng.pick(2) ? 'P' : 'p'; what = "extra pawn"; }
            else if (kind == 1) {                         // replace an extra by a pawn (or add a pawn when it stands on a back rank)
                int s = -1;
                for (int q = 0; q < 64; q++) if (p.b[q] != '.' && ref::lower(p.b[q]) != 'k' && ref::Y(q) > 0 && ref::Y(q) < 7) s = q;
                if (s < 0) { s = emptySq(true); p.b[s] = 'P'; } else p.b[s] = ref::isWhite(p.b[s]) ? 'P' : 'p';
                what = "man replaced by a pawn";
            } else if (kind == 2) {                       // a man of a kind (or colour) the table does not have
                std::vector<char> cand;
                for (char c : all) if (c && std::find(t.men.begin(), t.men.end(), c) == t.men.end()) cand.push_back(c);
                int s = -1;
                for (int q = 0; q < 64; q++) if (p.b[q] != '.' && ref::lower(p.b[q]) != 'k') s = q;
                p.b[s] = cand[rng.pick((int)cand.size())];
                what = "other material";
            } else if (kind == 3) {                       // one more man than the table has of that kind (4-man tables: 5 men)
                p.b[emptySq(false)] = all[rng.pick(8)];
                what = t.nMen() == 4 ? "5 men" : "extra man";
            } else {                                      // castling right
                ref::Pos q;
                bool white = rng.pick(2);
                bool hasRook = std::find(t.men.begin(), t.men.end(), white ? 'R' : 'r') != t.men.end();
                if (!hasRook) { i--; continue; }
                q.b[white ? 4 : 60] = white ? 'K' : 'k';
                q.b[white ? (rng.pick(2) ? 7 : 0) : (rng.pick(2) ? 63 : 56)] = white ? 'R' : 'r';
                bool placed = true;
                bool rookUsed = false;
                for (int j = 0; j < t.nMen() && placed; j++) {
                    char c = t.men[j];
                    if (c == (white ? 'K' : 'k')) continue;
                    if (c == (white ? 'R' : 'r') && !rookUsed) { rookUsed = true; continue; }
                    int s = -1;
                    for (int tries = 0; tries < 200 && s < 0; tries++) { int x = rng.pick(64); if (q.b[x] == '.') s = x; }
                    if (s < 0) placed = false; else q.b[s] = c;
                }
                q.wtm = rng.pick(2);
                if (!placed || ref::inCheck(q, !q.wtm)) { i--; continue; }
                int rs = -1; for (int x = 0; x < 64; x++) if (q.b[x] == (white ? 'R' : 'r') && (x == 0 || x == 7 || x == 56 || x == 63)) rs = x;
                if (white) { q.cK = rs == 7; q.cQ = rs == 0; } else { q.ck = rs == 63; q.cq = rs == 56; }
                p = q; what = "castling right";
            }
            if (ref::inCheck(p, !p.wtm)) { i--; continue; }
            Position tp;
            try { tp = TextIO::readFEN(ref::toFEN(p)); } catch (const ChessParseError&) { i--; continue; }
            if (what == "castling right" && tp.getCastleMask() == 0) { i--; continue; }
            int16_t v = probeRaw(pr, tp);
            st.evaluations++;
            st.cls("out of scope: " + what);
            if (v != NF) { Value k = posCase(t, storage, p); k["kind"] = "out-of-scope"; violation(sub, k, "position outside the table (" + what + ") is answered: " + valStr(v) + "  [" + ref::toFEN(p) + "]"); return false; }
        }
        return true;
    }

    // probeDTM(pos, ply) == probeDTM(pos, 0) shifted by ply towards zero
    bool plyShift(const Table& t, const Prober& pr, const std::string& storage, Rng& rng, int n, const std::string& sub) {
        for (int i = 0; i < n; i++) {
            ref::Pos p = randomLegal(t, rng);
            pb.from(p);
            int s0 = 0, s1 = 0, ply = 1 + rng.pick(120);
            bool f0 = pr(pb.pos, 0, s0), f1 = pr(pb.pos, ply, s1);
            int want = s0 > 0 ? s0 - ply : s0 < 0 ? s0 + ply : 0;
            st.count("ply-shift checks");
            if (f0 != f1 || (f0 && s1 != want)) { Value k = posCase(t, storage, p); k["ply"] = ply; violation(sub, k, "probeDTM at ply " + std::to_string(ply) + " gives " + std::to_string(s1) + ", at ply 0 " + std::to_string(s0)); return false; }
        }
        return true;
    }

    // Everything for one table, complete.  Leaves the validated arrays in `r` and the table resident in `tt`.
    bool tableComplete(const Table& t, RefTab& r, TranspositionTable& tt, const std::string& sub) {
        failedHere = false;
        Value info = Value::object();
        info["table"] = t.name; info["men"] = t.nMen(); info["mode"] = "complete";
        long before = st.evaluations, ntCount = 0;
        VecTB vec;
        initLayouts(t, r);
        bool ok = vec.build(t.pc);
        if (!ok) { Value k = Value::object(); k["kind"] = "generate"; k["table"] = t.name; violation(sub, k, "TBGenerator<VectorStorage>::generate(maxTimeMillis=-1) returns false"); }
        Rng rng(vh::mix(a.seed ^ vh::fnv(t.name) ^ 0xC12));
        ok = ok && fillArrays(t, vec.prober(), "VectorStorage", r, nullptr, sub);
        ok = ok && recurrenceAll(t, r, "VectorStorage", sub, ntCount);
        ok = ok && outOfScope(t, vec.prober(), "VectorStorage", rng, 400, sub);
        ok = ok && plyShift(t, vec.prober(), "VectorStorage", rng, 200, sub);
        if (ok) {
            tt.clear();
            ok = installTT(tt, t, rootOf(t, a.seed), sub);
            RefTab dummy; initLayouts(t, dummy);
            ok = ok && fillArrays(t, ttProber(tt), "TTStorage", dummy, &r, sub);
            ok = ok && outOfScope(t, ttProber(tt), "TTStorage", rng, 400, sub);
            ok = ok && plyShift(t, ttProber(tt), "TTStorage", rng, 200, sub);
        }
        info["complete"] = ok;
        info["probes"] = (long long)(st.evaluations - before);
        info["nontrivial_placements"] = (long long)ntCount;
        extra["tables"].push(info);
        if (ok) st.count(t.nMen() == 3 ? "3-man tables enumerated completely (both storages)" : "4-man tables enumerated completely (both storages)");
        return ok;
    }

    // ---- random placements of one table (quick tier, 4 men) ----------------------------------
    // value of p and of every successor straight from the prober(s)
    std::string checkPlacement(const Table& t, const ref::Pos& p, const Prober& vec, const Prober* ttp, std::string* cls, std::string* storageOut) {
        pb.from(p);
        int16_t v = probeRaw(vec, pb.pos);
        st.evaluations++;
        *storageOut = "VectorStorage";
        std::string e = fenPathCheck(vec, p, v);
        if (!e.empty()) return e;
        if (ttp) { int16_t w = probeRaw(*ttp, pb.pos); if (w != v) { *storageOut = "TTStorage"; return "TTStorage table gives " + valStr(w) + ", VectorStorage table " + valStr(v); } }
        std::vector<ref::Move> mv = ref::legalMoves(p);
        std::vector<int16_t> succ;
        for (auto& mo : mv) {
            ref::Pos q = ref::make(p, mo);
            pb.from(q);
            int16_t sv = probeRaw(vec, pb.pos);
            succ.push_back(sv);
            if (ttp) { int16_t w = probeRaw(*ttp, pb.pos); if (w != sv) { *storageOut = "TTStorage"; return "after " + mo.uci() + ": TTStorage table gives " + valStr(w) + ", VectorStorage table " + valStr(sv); } }
        }
        return judge(ref::inCheck(p), v, succ, mv, cls);
    }

    void sampleTable(const Table& t, VecTB& vec, TranspositionTable& tt, long nPlacements) {
        const std::string sub = "sample-" + t.name;
        failedHere = false;
        Prober vp = vec.prober(), tp = ttProber(tt);
        long done = 0, ntc = 0;
        const long batch = 500;
        long saveBudget = vh::ctx().shrinkBudget;
        vh::ctx().shrinkBudget = 20;
        vh::runProp(sub, (nPlacements + batch - 1) / batch, 1.0, [&](Choices& c) {
            uint64_t s = (uint64_t)c.raw() << 32;
            s ^= c.raw();
            s ^= vh::mix(a.seed * 31 + a.shard);
            Rng rng(vh::mix(s + done));
            for (long i = 0; i < batch; i++) {
                unsigned mask = ~0u;
                if (rng.pick(16) == 0) { int n = t.nMen(); for (int j = 0; j < n; j++) if (ref::lower(t.men[j]) != 'k' && rng.pick(2)) mask &= ~(1u << j); }
                ref::Pos p = randomLegal(t, rng, mask);
                std::string cls, storage;
                std::string e = checkPlacement(t, p, vp, &tp, &cls, &storage);
                done++;
                if (!e.empty()) vh::fail(posCase(t, storage, p), e + "  [" + ref::toFEN(p) + "]");
                if (st.cls(cls)) st.sample(cls, posCase(t, "both", p));
                if (ntClass(cls)) { ntc++; st.nt(ref::boardStr(p) + (p.wtm ? "w" : "b")); }
            }
        }, 100);
        vh::ctx().shrinkBudget = saveBudget;
        Value info = Value::object();
        info["table"] = t.name; info["men"] = t.nMen(); info["mode"] = "sampled"; info["complete"] = false;
        info["placements"] = (long long)done; info["nontrivial_placements"] = (long long)ntc;
        extra["tables"].push(info);
        st.count("random placements checked against the recurrence", done);
    }

    // ---- fault sweep ---------------------------------------------------------------------------
    struct FaultSpec { std::string table; std::string mode; long call; std::string prior; uint64_t seed; long inserts; long samples; };
    Value faultCase(const FaultSpec& f) {
        Value k = Value::object();
        k["kind"] = "fault"; k["table"] = f.table; k["mode"] = f.mode; k["clock_call"] = (long long)f.call; k["prior"] = f.prior;
        k["seed"] = std::to_string(f.seed); k["inserts"] = (long long)f.inserts; k["samples"] = (long long)f.samples;
        return k;
    }
    static long long hookCalls, hookTrigger; static int hookMode; static RelaxedShared<S64>* hookMT; static long long hookBig;
    static long long clockHook() {
        hookCalls++;
        long long t = hookCalls * 1000;                 // strictly increasing, 1 us per call
        if (hookTrigger > 0 && hookCalls >= hookTrigger) {
            if (hookMode == 1) hookMT->set(0);          // UCI stop
            else if (hookMode == 2) t += hookBig;       // the time limit has passed
        }
        return t;
    }
    long classPoints = 0;             // number of abort points of the whole class when faultSweep gets a subset
    S64 reqModel = 3000;              // model of updateTB's static requiredTime
    int limitAborts = 0;

    void ordinaryTraffic(TranspositionTable& tt, Rng& rng, long n) {
        for (long i = 0; i < n; i++) {
            uint64_t key = rng.next();
            int sel = (int)(i & 3);
            if (sel == 1) key = (key & 0x0000ffffffffffffULL) | ((uint64_t)(0xB000 + rng.pick(0x5000)) << 48);   // the last 5 MiB of 16 MiB
            else if (sel == 2) key = (key & 0x0000ffffffffffffULL) | ((uint64_t)(0xFE00 + rng.pick(0x200)) << 48); // the last 128 KiB
            int from = rng.pick(64), to = (from + 1 + rng.pick(63)) & 63;
            Move m(Square(from), Square(to), rng.pick(8) == 0 ? Piece::WQUEEN + rng.pick(4) : Piece::EMPTY);
            int score = rng.pick(8) == 0 ? (rng.pick(2) ? 1 : -1) * (MATE0 - 1 - rng.pick(100)) : rng.pick(6001) - 3000;
            int ply = rng.pick(60);
            if (std::abs(score) > MATE0 - 1 - ply) ply = 0;
            m.setScore(score);
            tt.insert(key, m, 1 + rng.pick(3), ply, rng.pick(40), rng.pick(4001) - 2000);
        }
    }

    // total clock calls of a complete generation with time checks on, and the iteration count
    struct Shape { long nPos, P, total, iters; };
    Shape shapeOf(const Table& t, TranspositionTable& tt) {
        Shape s;
        TBPosition tp(t.pc);
        s.nPos = tp.nPositions();
        s.P = (s.nPos + 65535) / 65536;
        tt.clear();
        RelaxedShared<S64> mt(reqModel);
        hookCalls = 0; hookTrigger = 0; hookMode = 0; hookMT = &mt;
        verif::clockNanosHook = clockHook;
        pb.from(rootOf(t, a.seed));
        bool ok = tt.updateTB(pb.pos, mt);
        verif::clockNanosHook = nullptr;
        s.total = ok ? hookCalls : 0;
        s.iters = (s.total - (2 + 2 * s.P)) / 2;
        return s;
    }
    // phase of clock call c: 1, 2 = time check of that phase; 3 = before/inside the retrograde loop
    static int phaseOfCall(const Shape& s, long c) { return c <= 1 + s.P ? 1 : c <= 1 + 2 * s.P ? 2 : 3; }

    // the list of abort points of one class: (mode, call)
    std::vector<std::pair<std::string, long>> faultPoints(const Shape& s) {
        std::vector<std::pair<std::string, long>> v;
        for (long c = 2; c <= 1 + 2 * s.P; c++) v.push_back({"stop", c});
        v.push_back({"stop", 2 + 2 * s.P});                                   // at t1: before iteration 1
        for (long n = 1; n <= s.iters; n++) v.push_back({"stop", 2 + 2 * s.P + 2 * n - 1});  // inside iteration n: before iteration n+1 (the last one completes)
        for (long c = 2; c <= 1 + 2 * s.P; c++) v.push_back({"limit", c});
        return v;
    }

    // One fault case.  `ref` (complete arrays) or `vec` (the VectorStorage table) is the exact reference.
    // Returns the outcome class ("" when the case could not be run).
    std::string runFault(const Table& t, const FaultSpec& f, TranspositionTable& tt, RefTab* ref, VecTB* vec, const Shape& sh) {
        const std::string sub = "fault-" + t.name;
        Value kase = faultCase(f);
        vh::setCurrent(sub, kase);
        Rng rng(f.seed);
        // prior state of the table
        tt.clear();
        if (f.prior == "other-class") {
            const Table& oo = tables[t.name == tables[0].name ? 1 : 0];   // another class (KQvK, or KRvK when KQvK is under test) is resident first
            RelaxedShared<S64> mt0(-1);
            pb.from(rootOf(oo, f.seed));
            tt.updateTB(pb.pos, mt0);
            ordinaryTraffic(tt, rng, 20000);
        } else if (f.prior == "traffic") ordinaryTraffic(tt, rng, 50000);
        ref::Pos root = rootOf(t, f.seed);
        // aborted (or completed) generation
        S64 M = reqModel;
        RelaxedShared<S64> mt(M);
        hookCalls = 0; hookTrigger = f.call; hookMode = f.mode == "stop" ? 1 : 2; hookMT = &mt; hookBig = (long long)M * 1000000LL;
        verif::clockNanosHook = clockHook;
        pb.from(root);
        bool ret = tt.updateTB(pb.pos, mt);
        verif::clockNanosHook = nullptr;
        long calls = hookCalls;
        if (calls == 0) { st.inconclusive++; vh::clearCurrent(); return ""; }   // updateTB refused to start (requiredTime model mismatch)
        if (!ret && f.mode == "limit") { reqModel = std::max(M, reqModel) * 2; limitAborts++; }
        std::string outcome;
        if (ret) outcome = "completed";
        else { int ph = phaseOfCall(sh, calls); outcome = ph == 1 ? "abort in phase 1" : ph == 2 ? "abort in phase 2" : "abort before a retrograde iteration"; }
        // ordinary hash traffic
        ordinaryTraffic(tt, rng, f.inserts);
        // probe everything: miss or exact (when updateTB said true: found and exact)
        std::string tag = std::string(ret ? "after completed generation" : "after aborted generation") + " (" + f.mode + " at clock call " + std::to_string(f.call) + ", " + outcome + ") and " + std::to_string(f.inserts) + " inserts: ";
        bool ok = probeAll(t, tt, ref, vec, rng, f.samples, ret, tag, sub, kase);
        // a later successful updateTB leaves an exact table
        if (ok) {
            RelaxedShared<S64> mt2(-1);
            pb.from(root);
            bool r2 = tt.updateTB(pb.pos, mt2);
            if (!r2) { violation(sub, kase, tag + "a later updateTB(root, maxTimeMillis=-1) returns false"); ok = false; }
            else {
                ordinaryTraffic(tt, rng, f.inserts / 4);
                ok = probeAll(t, tt, ref, vec, rng, f.samples, true, tag + "then updateTB returned true and more inserts: ", sub, kase);
            }
        }
        vh::clearCurrent();
        st.evaluations++;
        st.cls("fault: " + outcome);
        st.cls("fault mode: " + f.mode + (ret ? " (completed)" : " (aborted)"));
        if (ok) st.nt(vh::fnv(t.name + f.mode + std::to_string(f.call) + f.prior));
        return ok ? outcome : "violation";
    }

    // mustFind=false: every answer is a miss or exact.  mustFind=true: every legal placement is found and exact, illegal ones miss.
    bool probeAll(const Table& t, TranspositionTable& tt, RefTab* ref, VecTB* vec, Rng& rng, long samples, bool mustFind,
                  const std::string& tag, const std::string& sub, const Value& kase) {
        Prober tp = ttProber(tt);
        auto bad = [&](const ref::Pos& p, int16_t got, int16_t want) {
            Value k = kase; k["fen"] = ref::toFEN(p);
            violation(sub, k, tag + "probeDTM(" + ref::toFEN(p) + ") = " + valStr(got) + ", exact value: " + valStr(want));
            return false;
        };
        long hits = 0, probes = 0;
        if (ref) {
            for (auto& l : ref->lay) {
                const int m = l.m;
                const size_t total = (size_t)1 << (6 * m);
                int sq[5];
                ref::Pos p;
                for (size_t code = 0; code < total; code++) {
                    bool overlap = false;
                    for (int k = 0; k < m; k++) { sq[k] = (int)(code >> (6 * k)) & 63; for (int j = 0; j < k; j++) if (sq[j] == sq[k]) overlap = true; }
                    if (overlap) continue;
                    pb.clear();
                    for (int k = 0; k < m; k++) pb.put(sq[k], t.men[l.men[k]]);
                    for (int w = 0; w < 2; w++) {
                        pb.pos.setWhiteMove(w);
                        int16_t want = l.val[l.idx(sq, w)];          // NF for illegal placements
                        int16_t got = probeRaw(tp, pb.pos);
                        probes++;
                        if (got != NF) hits++;
                        if (got == want || (!mustFind && got == NF)) continue;
                        for (int k = 0; k < m; k++) p.b[sq[k]] = t.men[l.men[k]];
                        p.wtm = w;
                        return bad(p, got, want);
                    }
                }
            }
        } else {
            Prober vp = vec->prober();
            for (long i = 0; i < samples; i++) {
                unsigned mask = ~0u;
                if (rng.pick(16) == 0) { int n = t.nMen(); for (int j = 0; j < n; j++) if (ref::lower(t.men[j]) != 'k' && rng.pick(2)) mask &= ~(1u << j); }
                ref::Pos p = randomLegal(t, rng, mask);
                pb.from(p);
                int16_t want = probeRaw(vp, pb.pos), got = probeRaw(tp, pb.pos);
                probes++;
                if (got != NF) hits++;
                if (got == want || (!mustFind && got == NF)) continue;
                return bad(p, got, want);
            }
        }
        st.count(mustFind ? "fault: probes after a successful updateTB" : "fault: probes after an abort", probes);
        if (!mustFind) st.count("fault: probes answered after an abort", hits);
        return true;
    }

    // run the points `pts[i]` with i % nParts == part
    void faultSweep(const Table& t, TranspositionTable& tt, RefTab* ref, VecTB* vec, const Shape& sh,
                    const std::vector<std::pair<std::string, long>>& pts, int part, int nParts, long inserts, long samples, int replica, long maxPoints = 1 << 30) {
        Value info = Value::object();
        info["table"] = t.name; info["men"] = t.nMen();
        info["clock_calls_total"] = (long long)sh.total; info["time_checks_per_phase"] = (long long)sh.P; info["retrograde_iterations"] = (long long)sh.iters;
        info["points_total"] = (long long)(classPoints > 0 ? classPoints : (long)pts.size());
        classPoints = 0;
        Value done = Value::array();
        static const char* priors[] = {"clear", "other-class", "traffic"};
        long ran = 0;
        for (size_t i = 0; i < pts.size(); i++) {
            if ((int)(i % nParts) != part || ran >= maxPoints) continue;
            if (pts[i].first == "limit" && limitAborts >= 28) { st.count("fault: limit-mode points skipped (requiredTime doubles per abort)"); continue; }
            FaultSpec f{t.name, pts[i].first, pts[i].second, priors[(i / nParts + i + a.seed + replica) % 3], vh::mix(a.seed * 1000003ULL + i * 7919 + replica * 104729 + vh::fnv(t.name)), inserts, samples};
            std::string out = runFault(t, f, tt, ref, vec, sh);
            if (out.empty()) continue;
            ran++;
            Value d = Value::object(); d["i"] = (long long)i; d["mode"] = f.mode; d["clock_call"] = (long long)f.call; d["outcome"] = out;
            done.push(d);
            if (out == "violation") break;
        }
        info["points_done"] = done;
        extra["fault"].push(info);
    }

    void writeExtra() { if (!a.part.empty()) vj::writeFile(a.part + ".c12.json", extra); }
};
long long Runner::hookCalls = 0, Runner::hookTrigger = 0, Runner::hookBig = 0; int Runner::hookMode = 0; RelaxedShared<S64>* Runner::hookMT = nullptr;

// seeded permutation
std::vector<int> perm(int n, uint64_t seed) {
    std::vector<int> v(n); for (int i = 0; i < n; i++) v[i] = i;
    Rng r(vh::mix(seed));
    for (int i = n - 1; i > 0; i--) std::swap(v[i], v[r.pick(i + 1)]);
    return v;
}

} // namespace

int main(int argc, char** argv) {
    vh::Args a = vh::parseArgs(argc, argv);
    vh::installDeathHooks();
    vh::Stats& st = vh::ctx().stats;
    Runner rn(st, a);
    TranspositionTable tt(TT_ENTRIES);
    const std::vector<Table>& T = rn.tables;

    if (!a.replay.empty()) {
        int rc = vh::runReplay([&](const std::string& sub, const Value& k) {
            const Table* t = findTable(T, k.getStr("table"));
            if (!t) vh::fail(k, "replay file names an unknown table");
            std::string kind = k.getStr("kind");
            if (kind == "fault") {
                RefTab ref; VecTB vec;
                Runner::Shape sh = rn.shapeOf(*t, tt);
                Runner::FaultSpec f{t->name, k.getStr("mode"), (long)k.getInt("clock_call", 2), k.getStr("prior"), strtoull(k.getStr("seed").c_str(), 0, 10),
                                    (long)k.getInt("inserts", 100000), (long)k.getInt("samples", 200000)};
                bool ok;
                if (t->nMen() == 3) { ok = rn.tableComplete(*t, ref, tt, sub); if (ok) ok = rn.runFault(*t, f, tt, &ref, nullptr, sh) != "violation"; }
                else { vec.build(t->pc); ok = rn.runFault(*t, f, tt, nullptr, &vec, sh) != "violation"; }
                if (!ok) throw vh::CaseFailed{"fault case fails (see the VIOLATION line above)"};
                return;
            }
            if (kind == "generate" || kind == "updateTB") {
                RefTab ref;
                if (t->nMen() == 3) { if (!rn.tableComplete(*t, ref, tt, sub)) throw vh::CaseFailed{"table check fails"}; }
                else { VecTB vec; if (!vec.build(t->pc)) vh::fail(k, "generate returns false"); if (!rn.installTT(tt, *t, rn.rootOf(*t, a.seed), sub)) throw vh::CaseFailed{"updateTB returns false"}; }
                return;
            }
            ref::Pos p;
            if (!ref::fromFEN(k.getStr("fen"), p)) vh::fail(k, "replay file: bad FEN");
            VecTB vec;
            if (!vec.build(t->pc)) vh::fail(k, "generate returns false");
            tt.clear();
            if (!rn.installTT(tt, *t, rn.rootOf(*t, a.seed), sub)) throw vh::CaseFailed{"updateTB returns false"};
            Prober vp = vec.prober(), tp = ttProber(tt);
            rn.fenEvery = 1;
            if (kind == "out-of-scope") {
                Position tpz = TextIO::readFEN(k.getStr("fen"));
                int16_t v1 = probeRaw(vp, tpz), v2 = probeRaw(tp, tpz);
                if (v1 != NF || v2 != NF) vh::fail(k, "position outside the table is answered: VectorStorage " + valStr(v1) + ", TTStorage " + valStr(v2));
                return;
            }
            if (ref::inCheck(p, !p.wtm)) {
                rn.pb.from(p);
                int16_t v1 = probeRaw(vp, rn.pb.pos), v2 = probeRaw(tp, rn.pb.pos);
                if (v1 != NF || v2 != NF) vh::fail(k, "illegal placement is answered: VectorStorage " + valStr(v1) + ", TTStorage " + valStr(v2));
                return;
            }
            if (k.has("ply")) {
                rn.pb.from(p);
                for (const Prober* pr : {&vp, &tp}) {
                    int s0 = 0, s1 = 0, ply = (int)k.getInt("ply", 1);
                    bool f0 = (*pr)(rn.pb.pos, 0, s0), f1 = (*pr)(rn.pb.pos, ply, s1);
                    int want = s0 > 0 ? s0 - ply : s0 < 0 ? s0 + ply : 0;
                    if (f0 != f1 || (f0 && s1 != want)) vh::fail(k, "probeDTM at ply " + std::to_string(ply) + " gives " + std::to_string(s1) + ", at ply 0 " + std::to_string(s0));
                }
            }
            std::string cls, storage;
            std::string e = rn.checkPlacement(*t, p, vp, &tp, &cls, &storage);
            if (!e.empty()) vh::fail(k, e);
        });
        return rc;
    }

    std::string mode = a.str("mode", a.tier == "quick" ? "quick" : "item");
    const int nsh = (int)a.num("nshards", 16);

    if (mode == "quick" || mode == "asan") {
        // ---- a 3-man class, complete, + its share of the fault sweep ----------------------------
        // even shards: one of the four decisive classes, odd shards: one of the other seven (both seeded)
        std::vector<int> dec = perm(4, a.seed * 77 + 1);
        static const int decisive[4] = {0, 1, 4, 5};           // KQvK KRvK KvKQ KvKR
        int ia = decisive[dec[0]];
        std::vector<int> rest;
        for (int i = 0; i < 8; i++) if (i != ia) rest.push_back(i);
        int ib = rest[perm(7, a.seed * 77 + 5)[0]];
        const Table& t3 = T[a.shard % 2 == 0 ? ia : ib];
        RefTab ref3;
        if (rn.tableComplete(t3, ref3, tt, "table-" + t3.name)) {
            Runner::Shape sh = rn.shapeOf(t3, tt);
            if (sh.total == 0) st.inconclusive++;
            else {
                auto pts = rn.faultPoints(sh);
                if (mode == "asan") {
                    long want = std::max(1L, a.num("points", 4));
                    int np = (int)std::max(1L, ((long)pts.size() + want - 1) / want);
                    rn.faultSweep(t3, tt, &ref3, nullptr, sh, pts, (int)(a.seed % np), np, a.num("inserts", 50000), 0, 0);
                } else {
                    const int groups = (int)a.num("fgroups", 4);
                    const int slot = a.shard / 2;                 // shards of the same class: 0..nsh/2-1
                    rn.faultSweep(t3, tt, &ref3, nullptr, sh, pts, slot % groups, groups, a.num("inserts", 200000), 0, slot / groups);
                }
            }
        }
        if (mode == "quick") {
            // ---- a 4-man table, sampled ---------------------------------------------------------
            std::vector<int> p4 = perm(36, a.seed * 77 + 2);
            const Table& t4 = T[8 + p4[a.shard % 36]];
            VecTB vec;
            const std::string sub = "sample-" + t4.name;
            if (!vec.build(t4.pc)) { Value k = Value::object(); k["kind"] = "generate"; k["table"] = t4.name; rn.violation(sub, k, "TBGenerator<VectorStorage>::generate(maxTimeMillis=-1) returns false"); }
            else {
                tt.clear();
                if (rn.installTT(tt, t4, rn.rootOf(t4, a.seed), sub)) {
                    rn.sampleTable(t4, vec, tt, a.cases);
                    Rng rng(vh::mix(a.seed * 13 + a.shard));
                    bool ok = !rn.failedHere;
                    ok = ok && rn.outOfScope(t4, vec.prober(), "VectorStorage", rng, 300, sub);
                    ok = ok && rn.outOfScope(t4, ttProber(tt), "TTStorage", rng, 300, sub);
                    ok = ok && rn.plyShift(t4, ttProber(tt), "TTStorage", rng, 200, sub);
                    // ---- one seeded abort point of that 4-man class, sampled probes ----------------
                    if (ok) {
                        Runner::Shape sh = rn.shapeOf(t4, tt);
                        if (sh.total == 0) st.inconclusive++;
                        else {
                            auto pts = rn.faultPoints(sh);
                            // stratified: retrograde-iteration points (stop), phase-1/2 time checks (stop and limit)
                            std::vector<std::pair<std::string, long>> some, iterPts, chkPts;
                            for (auto& pt : pts) (pt.first == "stop" && Runner::phaseOfCall(sh, pt.second) == 3 ? iterPts : chkPts).push_back(pt);
                            Rng r2(vh::mix(a.seed * 101 + a.shard));
                            for (long j = 0; j < a.num("fpoints4", 3); j++) {
                                auto& from = (j % 2 == 0 && !iterPts.empty()) ? iterPts : chkPts;
                                some.push_back(from[r2.pick((int)from.size())]);
                            }
                            rn.classPoints = (long)pts.size();
                            rn.faultSweep(t4, tt, nullptr, &vec, sh, some, 0, 1, a.num("inserts", 200000), a.num("fsamples", 150000), 0);
                        }
                    }
                }
            }
        }
    } else if (mode == "item") {
        // thorough work items
        const int item = (int)a.num("item", a.shard);
        st.hashCap = 400000;
        if (item < 44) {
            const Table& t = T[item];
            RefTab ref;
            bool ok = rn.tableComplete(t, ref, tt, "table-" + t.name);
            if (ok && t.nMen() == 3) {
                Runner::Shape sh = rn.shapeOf(t, tt);
                if (sh.total == 0) st.inconclusive++;
                else rn.faultSweep(t, tt, &ref, nullptr, sh, rn.faultPoints(sh), 0, 1, a.num("inserts", 1000000), 0, 0);
            }
        } else {
            // fault sweep of two seeded 4-man classes, `slices` slices each
            const int slices = (int)a.num("slices", 8);
            int k = item - 44;
            std::vector<int> p4 = perm(36, a.seed * 77 + 3);
            const Table& t = T[8 + p4[(k / slices) % 36]];
            VecTB vec;
            if (vec.build(t.pc)) {
                Runner::Shape sh = rn.shapeOf(t, tt);
                if (sh.total == 0) st.inconclusive++;
                else {
                    // 4 men: 321 + N points.  Order: retrograde-iteration points and seeded time-check points alternately
                    // (all iteration points come first), slice k takes every `slices`-th, at most `points`.
                    auto pts = rn.faultPoints(sh);
                    std::vector<std::pair<std::string, long>> iterPts, chkPts, sel;
                    for (auto& pt : pts) (pt.first == "stop" && Runner::phaseOfCall(sh, pt.second) == 3 ? iterPts : chkPts).push_back(pt);
                    std::vector<int> order = perm((int)chkPts.size(), a.seed * 77 + 4 + vh::fnv(t.name));
                    for (size_t i = 0; i < std::max(iterPts.size(), chkPts.size()); i++) {
                        if (i < iterPts.size()) sel.push_back(iterPts[i]);
                        if (i < chkPts.size()) sel.push_back(chkPts[order[i]]);
                    }
                    rn.classPoints = (long)pts.size();
                    rn.faultSweep(t, tt, nullptr, &vec, sh, sel, k % slices, slices, a.num("inserts", 1000000), a.num("fsamples", 400000), 0, a.num("points", 6));
                }
            }
        }
    } else if (mode == "table") {        // explicit: --table NAME
        const Table* t = findTable(T, a.str("table"));
        if (!t) { fprintf(stderr, "unknown table\n"); return 2; }
        RefTab ref;
        rn.tableComplete(*t, ref, tt, "table-" + t->name);
    } else { fprintf(stderr, "unknown mode\n"); return 2; }
    rn.writeExtra();
    return vh::finish();
}
