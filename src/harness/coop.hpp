// Cooperative scheduler + virtual clock + in-process engine runner (C06, C10).
//
// All engine threads are real std::threads but exactly one holds the baton.  The
// engine's blocking operations and scheduling points are delegated to this
// scheduler through verif::SchedHooks (guard TEXEL_VERIF): condition-variable
// waits, sleeps, thread start/exit/join, Communicator::poll, the search's stop
// test.  Mutex-protected sections contain no scheduling point, so they are
// atomic here (lock discipline is C09's job, under ThreadSanitizer).  Time is
// virtual: it advances by ns-per-node at every stop test of the main search
// thread and jumps forward when every thread sleeps.  Input is a script whose
// commands are released by conditions on the run's own history, so a run is a
// pure function of (script, schedule choices, ns-per-node).
//
// "No runnable thread although work is owed" is detected exactly (deadlock /
// lost wake-up), not by a timeout.  Each run executes in a fork()ed child of a
// warmed-up single-threaded parent.
#pragma once
#include "common/json.hpp"
#include "verifhook.hpp"
#include "uciprotocol.hpp"
#include "enginecontrol.hpp"
#include "parallel.hpp"
#include "computerPlayer.hpp"
#include <cerrno>
#include <condition_variable>
#include <cstdint>
#include <cstdio>
#include <cstring>
#include <iostream>
#include <memory>
#include <mutex>
#include <poll.h>
#include <signal.h>
#include <streambuf>
#include <string>
#include <sys/wait.h>
#include <thread>
#include <unistd.h>
#include <map>
#include <vector>

// Friend of Communicator / WorkerThread / EngineMainThread (declared under TEXEL_VERIF)
struct VerifParallelAccess {
    static std::vector<std::shared_ptr<WorkerThread>>& children(EngineMainThread& e) { return e.children; }
    static std::vector<std::shared_ptr<WorkerThread>>& children(WorkerThread& w) { return w.children; }
    static int jobId(WorkerThread& w) { return w.jobId; }
    static Communicator* comm(WorkerThread& w) { return w.comm.get(); }
    static Communicator* comm(EngineMainThread& e) { return e.comm.get(); }
    static int pendingSearchCmds(Communicator& c) {
        int n = 0;
        for (auto& cmd : c.cmdQueue)
            if (cmd->type == Communicator::START_SEARCH || cmd->type == Communicator::STOP_SEARCH || cmd->type == Communicator::REPORT_RESULT) n++;
        return n;
    }
    static bool searchFlag(EngineMainThread& e) { return e.search; }
};

namespace coop {

using vj::Value;

enum CondKind { C_NOW = 0, C_STEPS, C_BESTMOVES, C_NODES, C_VTIME_MS, C_INFO_LINES };
struct ScriptCmd { std::string text; int cond = C_NOW; long long arg = 0; }; // text "<EOF>" closes input
struct Preempt { long step; int thread; };

struct RunSpec {
    std::vector<ScriptCmd> script;
    long long nsPerNode = 1000;
    int strategy = 0;               // 0 non-preemptive, 1 uniform random, 2 PCT, 3 explicit preemptions
    uint64_t schedSeed = 1;
    int pctDepth = 2;
    long pctMaxSteps = 2000;        // horizon for PCT change points
    std::vector<Preempt> preempts;  // strategy 3
    long maxSteps = 3000000;
    int lockYield = 0;              // every n-th mutex acquisition is a scheduling point (0 = never)
    long long clockReadCostNs = 0;  // > 0: every clock read costs this much virtual time and is a scheduling point (code that
                                    // polls the clock instead of counting nodes, e.g. the tablebase generator, becomes observable)
    Value toJson() const {
        Value v = Value::object();
        Value a = Value::array();
        for (auto& c : script) { Value o = Value::object(); o["text"] = c.text; o["cond"] = c.cond; o["arg"] = c.arg; a.push(o); }
        v["script"] = a; v["ns_per_node"] = nsPerNode; v["strategy"] = strategy; v["sched_seed"] = (long long)schedSeed;
        v["pct_depth"] = pctDepth; v["pct_max_steps"] = pctMaxSteps; v["max_steps"] = maxSteps; v["lock_yield"] = lockYield; v["clock_read_cost_ns"] = clockReadCostNs;
        Value p = Value::array();
        for (auto& x : preempts) { Value o = Value::object(); o["step"] = x.step; o["thread"] = x.thread; p.push(o); }
        v["preempts"] = p;
        return v;
    }
    static RunSpec fromJson(const Value& v) {
        RunSpec r;
        for (auto& o : v.at("script").a) { ScriptCmd c; c.text = o.getStr("text"); c.cond = (int)o.getInt("cond", 0); c.arg = o.getInt("arg", 0); r.script.push_back(c); }
        r.nsPerNode = v.getInt("ns_per_node", 1000); r.strategy = (int)v.getInt("strategy", 0); r.schedSeed = (uint64_t)v.getInt("sched_seed", 1);
        r.pctDepth = (int)v.getInt("pct_depth", 2); r.pctMaxSteps = v.getInt("pct_max_steps", 2000); r.maxSteps = v.getInt("max_steps", 3000000); r.lockYield = (int)v.getInt("lock_yield", 0); r.clockReadCostNs = v.getInt("clock_read_cost_ns", 0);
        if (v.has("preempts")) for (auto& o : v.at("preempts").a) r.preempts.push_back({(long)o.getInt("step", 0), (int)o.getInt("thread", 0)});
        return r;
    }
};

struct OutLine { std::string text; long long vtimeNs; long step; };
struct InEvent { std::string text; long long vtimeNs; long step; bool forced; };
struct LimitEvent { int minT, maxT, early; long long vtimeNs; long step; };
struct QuiescentEvent { long step; bool ok; std::string detail; };

struct RunResult {
    // status: "ok" (main returned), "deadlock", "steps" (step budget), "stuck" (real-time watchdog), "crash"
    std::string status = "crash";
    std::string detail;
    std::vector<OutLine> out;
    std::vector<InEvent> in;
    std::vector<LimitEvent> limits;
    std::vector<QuiescentEvent> quiescent;
    long steps = 0, preemptions = 0, threadsCreated = 0, maxRunnable = 0;
    long long endVtimeNs = 0;
    long pollsThread0 = 0, helperResultsUsed = 0, clockReads = 0;
    std::string wrongResult;
    int nodesBetweenTimeCheck = 0;
    bool threadsAllExited = false;
    std::vector<std::pair<long, std::vector<int>>> decisionLog; // (step, runnable ids) at points where >1 runnable and current could continue
    Value toJson(size_t maxLines = 400) const {
        Value v = Value::object();
        v["status"] = status; v["detail"] = detail; v["steps"] = steps; v["preemptions"] = preemptions; v["threads"] = threadsCreated;
        Value o = Value::array();
        size_t s0 = out.size() > maxLines ? out.size() - maxLines : 0;
        for (size_t i = s0; i < out.size(); i++) o.push("[" + std::to_string(out[i].vtimeNs / 1000000) + "ms s" + std::to_string(out[i].step) + "] " + out[i].text);
        v["out"] = o;
        Value a = Value::array();
        for (auto& e : in) a.push("[" + std::to_string(e.vtimeNs / 1000000) + "ms s" + std::to_string(e.step) + (e.forced ? " forced] " : "] ") + e.text);
        v["in"] = a;
        return v;
    }
};

// ---- the scheduler (lives in the child process) ---------------------------------
class Sched : public verif::SchedHooks {
public:
    struct T {
        int id = 0;
        std::thread::id tid;
        enum St { RUN, BLOCKED, SLEEP, INPUT, EXITED } st = RUN;
        bool onMutex = false; // BLOCKED on a contended mutex (a wait that lasts nanoseconds on a real machine)
        const void* obj = nullptr;
        long long wake = 0;
        int prio = 0;
        std::condition_variable cv;
    };
    std::mutex m;
    std::vector<std::unique_ptr<T>> th;
    int cur = 0;
    long long now = 0; // virtual ns
    long step = 0;
    RunSpec spec;
    RunResult res;
    uint64_t rng = 1;
    std::vector<long> pctChange;
    size_t nextCmd = 0;
    long stepAtLastCmd = 0;
    long long vtimeAtLastCmd = 0;
    int bestmoves = 0, infoLines = 0;
    long long nodesAtGo = 0, nodes0 = 0; // main-thread nodes of the current search
    std::condition_variable regCv;
    int resultFd = -1;
    bool finished = false;

    static thread_local T* self;

    uint64_t rnd() { rng += 0x9e3779b97f4a7c15ULL; uint64_t z = rng; z = (z ^ (z >> 30)) * 0xbf58476d1ce4e5b9ULL; z = (z ^ (z >> 27)) * 0x94d049bb133111ebULL; return z ^ (z >> 31); }

    void init(const RunSpec& s) {
        spec = s; rng = s.schedSeed * 0x2545F4914F6CDD1DULL + 77;
        auto t = std::make_unique<T>(); t->id = 0; t->tid = std::this_thread::get_id(); t->prio = 1000;
        self = t.get(); th.push_back(std::move(t)); cur = 0;
        if (spec.strategy == 2) {
            self->prio = 1000 + (int)(rnd() % 1000);
            for (int i = 0; i < spec.pctDepth; i++) pctChange.push_back((long)(rnd() % (uint64_t)std::max<long>(1, spec.pctMaxSteps)));
        }
    }

    // ---- release conditions of the script
    bool inputReady() const {
        if (nextCmd >= spec.script.size()) return true; // EOF is always available
        const ScriptCmd& c = spec.script[nextCmd];
        switch (c.cond) {
        case C_NOW: return true;
        case C_STEPS: return step - stepAtLastCmd >= c.arg;
        case C_BESTMOVES: return bestmoves >= c.arg;
        case C_NODES: return nodes0 - nodesAtGo >= c.arg;
        case C_VTIME_MS: return now - vtimeAtLastCmd >= c.arg * 1000000LL;
        case C_INFO_LINES: return infoLines >= c.arg;
        }
        return true;
    }
    bool runnable(const T& t) const {
        switch (t.st) {
        case T::RUN: return true;
        case T::SLEEP: return t.wake <= now;
        case T::INPUT: return inputReady();
        default: return false;
        }
    }

    [[noreturn]] void finishChild(const std::string& status, const std::string& detail) {
        // called with m held or not; write the result and leave the process
        res.status = status; res.detail = detail; res.steps = step; res.endVtimeNs = now;
        res.threadsCreated = (long)th.size();
        bool all = true;
        for (auto& t : th) if (t->id != 0 && t->st != T::EXITED) all = false;
        res.threadsAllExited = all;
        writeResult();
        _exit(status == "ok" ? 0 : 3);
    }
    void writeResult();

    // Pick the next thread to run; called with m held by the thread `me` that is at a scheduling point.
    // canContinue: `me` itself is still runnable (yield) — switching away then counts as a pre-emption.
    int pickNext(T* me, bool canContinue) {
        for (;;) {
            std::vector<int> r;
            for (auto& t : th) if (runnable(*t)) r.push_back(t->id);
            if (r.empty()) {
                // idle: jump the clock to the earliest sleeper, or force the script, or deadlock
                long long w = -1;
                for (auto& t : th) if (t->st == T::SLEEP && (w < 0 || t->wake < w)) w = t->wake;
                // a pending time-based input condition is also a timer
                bool inputWaiter = false;
                for (auto& t : th) if (t->st == T::INPUT) inputWaiter = true;
                if (inputWaiter && nextCmd < spec.script.size() && spec.script[nextCmd].cond == C_VTIME_MS) {
                    long long t2 = vtimeAtLastCmd + spec.script[nextCmd].arg * 1000000LL;
                    if (w < 0 || t2 < w) w = t2;
                }
                // only sleepers are left: let time pass; but a script command whose (non-time) condition can no longer
                // become true while everybody just sleeps (e.g. "after N nodes" when the search is already over) is released
                if (w >= 0 && !(inputWaiter && ++idleJumps > 20)) { now = std::max(now, w); continue; }
                if (inputWaiter) { forceInput = true; for (auto& t : th) if (t->st == T::INPUT) return t->id; }
                std::string d = "no runnable thread at step " + std::to_string(step) + ":";
                for (auto& t : th) d += " t" + std::to_string(t->id) + "=" + (t->st == T::BLOCKED ? "blocked" : t->st == T::EXITED ? "exited" : "?");
                finishChild("deadlock", d);
            }
            res.maxRunnable = std::max<long>(res.maxRunnable, (long)r.size());
            bool meIn = canContinue && me && std::find(r.begin(), r.end(), me->id) != r.end();
            int choice;
            // fair baseline: round-robin among the runnable threads at every scheduling point (polling loops never starve others)
            auto roundRobin = [&]() { for (int id : r) if (me && id > me->id) return id; return r[0]; };
            switch (spec.strategy) {
            default:
            case 0: choice = roundRobin(); break;
            case 1: choice = r[rnd() % r.size()]; break;
            case 2: {
                for (long c : pctChange) if (c == step && me) me->prio = (int)(rnd() % 100); // lower the running thread's priority
                // fairness for polling loops: a thread that has been chosen 6 times in a row drops below everybody else
                if (me && meIn && consecutive >= 6) { int lo = me->prio; for (auto& t : th) lo = std::min(lo, t->prio); me->prio = lo - 1; }
                int best = r[0];
                for (int id : r) if (th[(size_t)id]->prio > th[(size_t)best]->prio) best = id;
                choice = best; break;
            }
            case 3: {
                choice = roundRobin();
                for (auto& p : spec.preempts) if (p.step == step && std::find(r.begin(), r.end(), p.thread) != r.end()) choice = p.thread;
                break;
            }
            }
            if (r.size() > 1 && res.decisionLog.size() < 20000) res.decisionLog.push_back({step, r});
            // a pre-emption = a choice that differs from the fair baseline's
            if (r.size() > 1 && choice != roundRobin()) res.preemptions++;
            if (choice == lastChoice) consecutive++; else { consecutive = 0; lastChoice = choice; }
            return choice;
        }
    }
    bool forceInput = false;
    int idleJumps = 0;
    int consecutive = 0, lastChoice = -1;

    // Give up the baton.  `me` has already set its own state.  Returns when `me` is scheduled again.
    void reschedule(std::unique_lock<std::mutex>& L, T* me, bool canContinue) {
        step++;
        if (step > spec.maxSteps) finishChild("steps", "step budget exhausted");
        int next = pickNext(me, canContinue);
        if (next != me->id) {
            cur = next;
            th[(size_t)next]->cv.notify_one();
            while (cur != me->id) me->cv.wait(L);
        }
        if (me->st == T::SLEEP || me->st == T::INPUT) me->st = T::RUN;
    }

    // ---- mutexes (pthread_mutex_lock/unlock are interposed by this binary, see the end of the file): taking a mutex is a
    // scheduling point, and a thread that finds it held yields cooperatively instead of blocking in the kernel, so
    // any other point (e.g. right after a notify inside a critical section) can safely be a scheduling point too
    bool mutexMode = true;
    bool clockCostActive = false;
    long lockOps = 0;
    void mutexYield() {
        std::unique_lock<std::mutex> L(m);
        T* me = self;
        if (!me || cur != me->id) return;
        // every lockYield-th mutex acquisition is a scheduling point (0 = none: a mutex then only matters when contended)
        if (spec.lockYield <= 0 || (++lockOps % spec.lockYield) != 0) return;
        reschedule(L, me, true);
    }
    void mutexBlocked(void* mtx) {
        std::unique_lock<std::mutex> L(m);
        T* me = self;
        if (!me) return;
        me->st = T::BLOCKED; me->obj = mtx; me->onMutex = true;
        reschedule(L, me, false);
        me->onMutex = false;
    }
    void mutexReleased(void* mtx) {
        std::unique_lock<std::mutex> L(m);
        for (auto& t : th) if (t->st == T::BLOCKED && t->obj == mtx) { t->st = T::RUN; t->obj = nullptr; }
    }

    // ---- SchedHooks
    void cvWait(void* cv, std::unique_lock<std::mutex>& userLock) override {
        userLock.unlock();
        {
            std::unique_lock<std::mutex> L(m);
            T* me = self;
            me->st = T::BLOCKED; me->obj = cv;
            reschedule(L, me, false);
        }
        userLock.lock();
    }
    void cvNotify(void* cv) override {
        std::unique_lock<std::mutex> L(m);
        for (auto& t : th) if (t->st == T::BLOCKED && t->obj == cv) { t->st = T::RUN; t->obj = nullptr; }
        // the moment right after a wake-up is where lost-wake-up windows open: make it a scheduling point
        T* me = self;
        if (mutexMode && me && cur == me->id) reschedule(L, me, true);
    }
    void yield(int) override {
        std::unique_lock<std::mutex> L(m);
        T* me = self;
        if (!me) return;
        reschedule(L, me, true);
    }
    void sleepMs(int ms) override {
        std::unique_lock<std::mutex> L(m);
        T* me = self;
        me->st = T::SLEEP; me->wake = now + (long long)std::max(ms, 0) * 1000000LL;
        reschedule(L, me, false);
    }
    void threadBegin() override {
        std::unique_lock<std::mutex> L(m);
        auto t = std::make_unique<T>();
        t->id = (int)th.size(); t->tid = std::this_thread::get_id();
        t->prio = spec.strategy == 2 ? 1000 + (int)(rnd() % 1000) : 1000 - t->id;
        T* me = t.get(); self = me;
        th.push_back(std::move(t));
        regCv.notify_all();
        while (cur != me->id) me->cv.wait(L);
    }
    void threadEnd() override {
        std::unique_lock<std::mutex> L(m);
        T* me = self;
        me->st = T::EXITED;
        for (auto& t : th) if (t->st == T::BLOCKED && t->obj == me) { t->st = T::RUN; t->obj = nullptr; }
        step++;
        int next = pickNext(me, false);
        cur = next;
        self = nullptr; // from here on this (exiting) thread uses the real primitives
        th[(size_t)next]->cv.notify_one();
    }
    void threadCreated() override {
        std::unique_lock<std::mutex> L(m);
        size_t want = ++expectedThreads;
        while (th.size() < want + 1) regCv.wait(L);
    }
    size_t expectedThreads = 0;
    void beforeJoin(std::thread& t) override {
        std::unique_lock<std::mutex> L(m);
        T* target = nullptr;
        for (auto& x : th) if (x->tid == t.get_id()) target = x.get();
        if (!target) return;
        T* me = self;
        while (target->st != T::EXITED) { me->st = T::BLOCKED; me->obj = target; reschedule(L, me, false); }
    }
    void searchPoll(int threadNo, long long totalNodes, int nbtc) override {
        std::unique_lock<std::mutex> L(m);
        struct Dbg { Sched* s; int t; long long n; int b; long long before; ~Dbg() { if (getenv("COOP_POLL_DEBUG")) fprintf(stderr, "POLL step=%ld thread=%d nodes=%lld nbtc=%d main=%d now=%lld->%lldus\n", s->step, t, n, b, s->th.empty() ? -1 : (int)s->th[0]->st, before / 1000, s->now / 1000); } } dbg{this, threadNo, totalNodes, nbtc, now};
        if (threadNo == 0) {
            mainWaiting = false;
            long long d = totalNodes - lastNodes0;
            if (d < 0) d = totalNodes; // a new search restarted its counter
            lastNodes0 = totalNodes;
            if (totalNodes < nodes0) nodesAtGo = 0;
            nodes0 = totalNodes;
            now += d * spec.nsPerNode;
            res.pollsThread0++;
            res.nodesBetweenTimeCheck = nbtc;
        } else if (!th.empty() && th[0]->st != T::RUN && !th[0]->onMutex) {
            // the main search thread sleeps or waits for an event while helpers keep searching: their nodes are the passage
            // of time.  (Not while it merely waits for a contended mutex: how long the holder stays descheduled is this
            // scheduler's choice, not engine behaviour.)
            // Helpers run in parallel with each other: each one's nodes since the main thread stopped running measure the
            // same stretch of time, so the clock follows the helper that has searched most since then (not the sum).
            if (!mainWaiting) { mainWaiting = true; waitStart = now; helperBase.clear(); }
            auto it = helperBase.find(threadNo);
            if (it == helperBase.end()) it = helperBase.emplace(threadNo, totalNodes - nbtc).first;  // its last interval counts as spent waiting
            if (totalNodes < it->second) it->second = totalNodes - nbtc;                           // a new search restarted its counter
            now = std::max(now, waitStart + (totalNodes - it->second) * spec.nsPerNode);
        } else mainWaiting = false;
    }
    bool mainWaiting = false;
    long long waitStart = 0;
    std::map<int, long long> helperBase;
    long long lastNodes0 = 0;
    void timeLimit(int minT, int maxT, int early) override {
        std::unique_lock<std::mutex> L(m);
        res.limits.push_back({minT, maxT, early, now, step});
    }
    void quiescent(void* emt) override;
    int lastReceivedJob = -2;
    void helperResult(int received, int current, bool accepted) override {
        std::unique_lock<std::mutex> L(m);
        if (!accepted) { lastReceivedJob = received; return; }
        res.helperResultsUsed++;
        if (lastReceivedJob != current && res.wrongResult.empty())
            res.wrongResult = "main thread acted on a helper result for job " + std::to_string(lastReceivedJob) + " while searching job " + std::to_string(current) + " (step " + std::to_string(step) + ")";
    }

    // ---- streams
    void outLine(const std::string& l) {
        std::unique_lock<std::mutex> L(m);
        res.out.push_back({l, now, step});
        if (l.rfind("bestmove", 0) == 0) bestmoves++;
        if (l.rfind("info depth", 0) == 0 || l.rfind("bestmove", 0) == 0) clockCostActive = false;
        if (l.rfind("info ", 0) == 0) infoLines++;
    }
    // returns false at EOF
    bool nextInput(std::string& line) {
        std::unique_lock<std::mutex> L(m);
        T* me = self;
        forceInput = false;
        if (!inputReady()) { me->st = T::INPUT; reschedule(L, me, false); }
        else { me->st = T::RUN; reschedule(L, me, true); } // reading a command is a scheduling point too
        bool forced = forceInput && !inputReady();
        forceInput = false;
        if (nextCmd >= spec.script.size()) { res.in.push_back({"<EOF>", now, step, false}); return false; }
        const ScriptCmd& c = spec.script[nextCmd++];
        stepAtLastCmd = step; vtimeAtLastCmd = now; idleJumps = 0;
        res.in.push_back({c.text, now, step, forced});
        if (c.text == "<EOF>") { nextCmd = spec.script.size(); return false; }
        if (c.text.rfind("go", 0) == 0) { nodesAtGo = 0; nodes0 = 0; lastNodes0 = 0; infoLines = 0; clockCostActive = true; }
        line = c.text;
        return true;
    }
};
thread_local Sched::T* Sched::self = nullptr;

static Sched* gSched = nullptr;
static long long clockHook() {
    Sched* s = gSched;
    std::unique_lock<std::mutex> L(s->m);
    Sched::T* me = Sched::self;
    // the cost applies from `go` until the search prints its first "info depth" line, i.e. to whatever runs before the
    // iterations start (the on-demand tablebase generator polls the clock there); the iterations themselves count nodes
    if (s->spec.clockReadCostNs > 0 && s->clockCostActive && me && s->cur == me->id) {
        s->now += s->spec.clockReadCostNs;
        s->res.clockReads++;
        if (getenv("COOP_CLK_DEBUG")) fprintf(stderr, "CLK step=%ld now=%lldus thread=%d\n", s->step, s->now / 1000, me->id);
        s->reschedule(L, me, true);
    }
    return s->now;
}

inline void Sched::quiescent(void* emtp) {
    EngineMainThread& e = *static_cast<EngineMainThread*>(emtp);
    // every helper must be idle: no job, no pending start/stop/result command
    std::string bad;
    std::vector<WorkerThread*> stack;
    for (auto& c : VerifParallelAccess::children(e)) if (c) stack.push_back(c.get());
    while (!stack.empty()) {
        WorkerThread* w = stack.back(); stack.pop_back();
        if (VerifParallelAccess::jobId(*w) != -1) bad += " worker" + std::to_string(w->getThreadNo()) + ".jobId=" + std::to_string(VerifParallelAccess::jobId(*w));
        Communicator* c = VerifParallelAccess::comm(*w);
        if (c && VerifParallelAccess::pendingSearchCmds(*c) > 0) bad += " worker" + std::to_string(w->getThreadNo()) + " has pending search commands";
        if (c && !c->hasStopAck()) bad += " worker" + std::to_string(w->getThreadNo()) + " lacks stop-ack";
        for (auto& cc : VerifParallelAccess::children(*w)) if (cc) stack.push_back(cc.get());
    }
    Communicator* mc = VerifParallelAccess::comm(e);
    if (mc && !mc->hasStopAck()) bad += " main communicator lacks stop-ack";
    std::unique_lock<std::mutex> L(m);
    res.quiescent.push_back({step, bad.empty(), bad});
}

// ---- stream buffers handed to std::cin / std::cout --------------------------------
class InBuf : public std::streambuf {
    std::string cur;
    bool eof = false;
protected:
    int_type underflow() override {
        if (eof) return traits_type::eof();
        std::string line;
        if (!gSched->nextInput(line)) { eof = true; return traits_type::eof(); }
        cur = line + "\n";
        setg(&cur[0], &cur[0], &cur[0] + cur.size());
        return traits_type::to_int_type(cur[0]);
    }
};
class OutBuf : public std::streambuf {
    std::string acc;
    std::mutex om;
protected:
    int_type overflow(int_type ch) override {
        if (ch == traits_type::eof()) return ch;
        std::string done;
        {
            std::lock_guard<std::mutex> L(om);
            if (ch == '\n') { done = acc; acc.clear(); gotLine = true; } else { acc += (char)ch; return ch; }
        }
        gSched->outLine(done);
        return ch;
    }
    std::streamsize xsputn(const char* s, std::streamsize n) override { for (std::streamsize i = 0; i < n; i++) overflow((unsigned char)s[i]); return n; }
    bool gotLine = false;
};

inline void Sched::writeResult() {
    if (resultFd < 0) return;
    Value v = Value::object();
    v["status"] = res.status; v["detail"] = res.detail; v["steps"] = res.steps; v["preemptions"] = res.preemptions;
    v["threads"] = res.threadsCreated; v["max_runnable"] = res.maxRunnable; v["end_vtime"] = res.endVtimeNs; v["polls0"] = res.pollsThread0;
    v["nbtc"] = res.nodesBetweenTimeCheck; v["all_exited"] = res.threadsAllExited;
    v["helper_results"] = res.helperResultsUsed; v["wrong_result"] = res.wrongResult; v["clock_reads"] = res.clockReads;
    Value o = Value::array();
    for (auto& l : res.out) { Value e = Value::array(); e.push(l.text); e.push(l.vtimeNs); e.push(l.step); o.push(e); }
    v["out"] = o;
    Value a = Value::array();
    for (auto& l : res.in) { Value e = Value::array(); e.push(l.text); e.push(l.vtimeNs); e.push(l.step); e.push(l.forced); a.push(e); }
    v["in"] = a;
    Value lim = Value::array();
    for (auto& l : res.limits) { Value e = Value::array(); e.push(l.minT); e.push(l.maxT); e.push(l.early); e.push(l.vtimeNs); e.push(l.step); lim.push(e); }
    v["limits"] = lim;
    Value q = Value::array();
    for (auto& l : res.quiescent) { Value e = Value::array(); e.push(l.step); e.push(l.ok); e.push(l.detail); q.push(e); }
    v["quiescent"] = q;
    Value d = Value::array();
    for (auto& l : res.decisionLog) { Value e = Value::array(); e.push(l.first); Value r = Value::array(); for (int id : l.second) r.push(id); e.push(r); d.push(e); }
    v["decisions"] = d;
    std::string s = vj::dump(v);
    size_t off = 0;
    while (off < s.size()) { ssize_t n = write(resultFd, s.data() + off, s.size() - off); if (n <= 0) break; off += (size_t)n; }
    close(resultFd);
}

inline RunResult parseResult(const std::string& s) {
    RunResult r;
    Value v = vj::parse(s);
    r.status = v.getStr("status"); r.detail = v.getStr("detail"); r.steps = (long)v.getInt("steps", 0); r.preemptions = (long)v.getInt("preemptions", 0);
    r.threadsCreated = (long)v.getInt("threads", 0); r.maxRunnable = (long)v.getInt("max_runnable", 0); r.endVtimeNs = v.getInt("end_vtime", 0);
    r.pollsThread0 = (long)v.getInt("polls0", 0); r.nodesBetweenTimeCheck = (int)v.getInt("nbtc", 0); r.threadsAllExited = v.getBool("all_exited", false);
    r.helperResultsUsed = (long)v.getInt("helper_results", 0); r.wrongResult = v.getStr("wrong_result"); r.clockReads = (long)v.getInt("clock_reads", 0);
    for (auto& e : v.at("out").a) r.out.push_back({e.a[0].s, e.a[1].num(), (long)e.a[2].num()});
    for (auto& e : v.at("in").a) r.in.push_back({e.a[0].s, e.a[1].num(), (long)e.a[2].num(), e.a[3].b});
    for (auto& e : v.at("limits").a) r.limits.push_back({(int)e.a[0].num(), (int)e.a[1].num(), (int)e.a[2].num(), e.a[3].num(), (long)e.a[4].num()});
    for (auto& e : v.at("quiescent").a) r.quiescent.push_back({(long)e.a[0].num(), e.a[1].b, e.a[2].s});
    for (auto& e : v.at("decisions").a) { std::vector<int> ids; for (auto& x : e.a[1].a) ids.push_back((int)x.num()); r.decisionLog.push_back({(long)e.a[0].num(), ids}); }
    return r;
}

// Warm the parent up once (network decompressed, static tables built) so that forked children start instantly.
inline void warmUp() {
    static bool done = false;
    if (done) return;
    done = true;
    ComputerPlayer::initEngine();
    Evaluate::getEvalHashTables();
}

// Run one scripted session under the scheduler in a forked child.
inline RunResult run(const RunSpec& spec, int realTimeoutMs = 60000) {
    warmUp();
    int fds[2];
    if (pipe(fds)) { RunResult r; r.detail = "pipe failed"; return r; }
    fflush(stdout); fflush(stderr);
    pid_t pid = fork();
    if (pid == 0) {
        close(fds[0]);
        Sched* s = new Sched();
        gSched = s;
        s->resultFd = fds[1];
        s->init(spec);
        InBuf* ib = new InBuf(); OutBuf* ob = new OutBuf();
        std::cin.rdbuf(ib); std::cout.rdbuf(ob);
        std::cin.clear();
        verif::clockNanosHook = clockHook;
        verif::sched = s;
        UCIProtocol::main(false);
        std::cout.flush();
        s->finishChild("ok", "");
    }
    close(fds[1]);
    std::string data;
    long long end = 0;
    { timespec ts; clock_gettime(CLOCK_MONOTONIC, &ts); end = (long long)ts.tv_sec * 1000 + ts.tv_nsec / 1000000 + realTimeoutMs; }
    bool timedOut = false;
    for (;;) {
        timespec ts; clock_gettime(CLOCK_MONOTONIC, &ts);
        long long nowMs = (long long)ts.tv_sec * 1000 + ts.tv_nsec / 1000000;
        if (nowMs >= end) { timedOut = true; break; }
        pollfd pfd{fds[0], POLLIN, 0};
        int pr = poll(&pfd, 1, (int)std::min<long long>(end - nowMs, 200));
        if (pr > 0) {
            char buf[65536];
            ssize_t n = read(fds[0], buf, sizeof buf);
            if (n > 0) data.append(buf, (size_t)n);
            else break;
        }
    }
    close(fds[0]);
    if (timedOut) kill(pid, SIGKILL);
    int st = 0;
    waitpid(pid, &st, 0);
    RunResult r;
    if (timedOut) { r.status = "stuck"; r.detail = "child did not finish in real time (unhooked blocking operation or harness defect)"; return r; }
    if (data.empty()) {
        r.status = "crash";
        r.detail = WIFSIGNALED(st) ? "child killed by signal " + std::to_string(WTERMSIG(st)) : "child exited with status " + std::to_string(WEXITSTATUS(st)) + " without a result";
        return r;
    }
    try { r = parseResult(data); } catch (const std::exception& e) { r.status = "crash"; r.detail = std::string("unparsable child result: ") + e.what(); }
    return r;
}

} // namespace coop

// ---- interposition of pthread_mutex_lock / pthread_mutex_unlock for this executable -------------------------------
// Threads registered with the scheduler take mutexes cooperatively; everything else (unregistered threads, the
// scheduler's own mutex, the time before a scheduler exists) goes straight to glibc.
#include <dlfcn.h>
#include <pthread.h>
namespace coop {
typedef int (*MutexFn)(pthread_mutex_t*);
inline MutexFn realFn(const char* name) { return (MutexFn)dlsym(RTLD_NEXT, name); }
static MutexFn realLock = realFn("pthread_mutex_lock");
static MutexFn realUnlock = realFn("pthread_mutex_unlock");
static MutexFn realTrylock = realFn("pthread_mutex_trylock");
inline bool coopMutex(pthread_mutex_t* mtx) {
    Sched* s = gSched;
    return s && s->mutexMode && Sched::self && mtx != s->m.native_handle() && realTrylock;
}
}
extern "C" int pthread_mutex_lock(pthread_mutex_t* mtx) {
    if (!coop::realLock) coop::realLock = coop::realFn("pthread_mutex_lock");
    if (!coop::coopMutex(mtx)) return coop::realLock(mtx);
    coop::gSched->mutexYield();
    for (;;) {
        int r = coop::realTrylock(mtx);
        if (r == 0) return 0;
        if (r != EBUSY) return r;
        coop::gSched->mutexBlocked(mtx);
    }
}
extern "C" int pthread_mutex_unlock(pthread_mutex_t* mtx) {
    if (!coop::realUnlock) coop::realUnlock = coop::realFn("pthread_mutex_unlock");
    int r = coop::realUnlock(mtx);
    if (coop::coopMutex(mtx)) coop::gSched->mutexReleased(mtx);
    return r;
}
