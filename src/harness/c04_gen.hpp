// C04 helpers: exhaustive AND/OR mate solver on refchess (same semantics as ref::canMateIn /
// ref::defends, but check flags are computed once per node and a hint move is tried first),
// mate-in-1 enumeration with a classification of the mating move, and the mate-pattern template
// generator that CONSTRUCTS positions containing mates (back-rank, smothered in 1/2/3, queen and
// knight promotion, en passant, discovered / double check, castling, ladder, king+queen).
#pragma once
#include "common/gen.hpp"
#include "common/refchess.hpp"
#include <string>
#include <vector>

namespace c04 {

using vh::Choices;

// ---- solver ---------------------------------------------------------------------------
struct Solver {
    long budget = 0; // node expansions left; < 0 => answers become "unknown" (-1)
    // can the side to move force mate within n of its own moves?  1 yes, 0 no, -1 unknown
    int attack(const ref::Pos& p, int n, const ref::Move* hint = nullptr) {
        if (n <= 0) return 0;
        if (--budget < 0) return -1;
        std::vector<ref::Move> lm = ref::legalMoves(p);
        struct C { ref::Move m; ref::Pos c; bool chk; };
        std::vector<C> first, rest;
        for (const ref::Move& m : lm) {
            C x{m, ref::make(p, m), false};
            x.chk = ref::inCheck(x.c, x.c.wtm);
            if (n == 1 && !x.chk) continue;
            if (hint && m == *hint) first.insert(first.begin(), x);
            else if (x.chk) first.push_back(x);
            else rest.push_back(x);
        }
        bool unknown = false;
        for (auto* v : {&first, &rest})
            for (const C& x : *v) {
                int r = defend(x.c, n - 1);
                if (r == 1) return 1;
                if (r < 0) unknown = true;
                if (budget < 0) return -1;
            }
        return unknown ? -1 : 0;
    }
    // side to move is the defender: 1 = it is checkmated now or the attacker mates within n moves
    // against every defence; 0 = some defence survives; -1 unknown
    int defend(const ref::Pos& p, int n) {
        if (--budget < 0) return -1;
        std::vector<ref::Move> lm = ref::legalMoves(p);
        if (lm.empty()) return ref::inCheck(p) ? 1 : 0;
        if (n <= 0) return 0;
        bool unknown = false;
        for (const ref::Move& m : lm) {
            int r = attack(ref::make(p, m), n);
            if (r == 0) return 0;
            if (r < 0) { unknown = true; if (budget < 0) return -1; }
        }
        return unknown ? -1 : 1;
    }
};

// ---- mate in one -----------------------------------------------------------------------
inline bool pieceAttacks(const ref::Pos& p, int from, int target) {
    char pc = p.b[from];
    if (pc == '.' || from == target) return false;
    int dx = ref::X(target) - ref::X(from), dy = ref::Y(target) - ref::Y(from);
    char t = ref::lower(pc);
    if (t == 'p') return abs(dx) == 1 && dy == (ref::isWhite(pc) ? 1 : -1);
    if (t == 'n') return abs(dx) * abs(dy) == 2;
    if (t == 'k') return std::max(abs(dx), abs(dy)) == 1;
    bool ortho = dx == 0 || dy == 0, diag = abs(dx) == abs(dy);
    if (!(ortho || diag)) return false;
    if (t == 'r' && !ortho) return false;
    if (t == 'b' && !diag) return false;
    int sx = (dx > 0) - (dx < 0), sy = (dy > 0) - (dy < 0);
    int x = ref::X(from) + sx, y = ref::Y(from) + sy;
    while (x != ref::X(target) || y != ref::Y(target)) { if (p.b[ref::SQ(x, y)] != '.') return false; x += sx; y += sy; }
    return true;
}
inline std::vector<int> checkers(const ref::Pos& p) { // men attacking the king of the side to move
    std::vector<int> r;
    int k = p.kingSq(p.wtm);
    for (int s = 0; s < 64; s++) if (p.b[s] != '.' && ref::isWhite(p.b[s]) != p.wtm && pieceAttacks(p, s, k)) r.push_back(s);
    return r;
}
struct MateMove { ref::Move m; std::string kind; };
inline std::vector<MateMove> mateMoves(const ref::Pos& p) {
    std::vector<MateMove> out;
    for (const ref::Move& m : ref::legalMoves(p)) {
        ref::Pos c = ref::make(p, m);
        if (!ref::inCheck(c, c.wtm) || !ref::legalMoves(c).empty()) continue;
        std::vector<int> ch = checkers(c);
        std::string k;
        bool castle = ref::isCastle(p, m);
        bool direct = false; for (int s : ch) if (s == m.to) direct = true;
        if (castle) k = "castling";
        else if (ref::isEp(p, m)) k = "en passant";
        else if (m.promo && m.promo != 'q') k = "underpromotion";
        else if (m.promo) k = "promotion";
        else if (ch.size() >= 2) k = "double check";
        else if (!direct) k = "discovered";
        else if (ref::isCapture(p, m)) k = "capture";
        else if (ref::lower(p.b[m.from]) == 'n') k = "knight";
        else if (ref::lower(p.b[m.from]) == 'p') k = "pawn";
        else k = "quiet";
        out.push_back({m, k});
    }
    return out;
}

// ---- templates -------------------------------------------------------------------------
inline int sq(const char* n) { return ref::sqFromName(n); }
inline void put(ref::Pos& p, const char* n, char pc) { p.b[sq(n)] = pc; }

// swap colours (mirror ranks, swap case, side to move, castling rights, e.p.)
inline ref::Pos flipColours(const ref::Pos& p) {
    ref::Pos r;
    for (int s = 0; s < 64; s++) {
        char c = p.b[s];
        if (c == '.') continue;
        r.b[s ^ 56] = ref::isWhite(c) ? ref::lower(c) : ref::upper(c);
    }
    r.wtm = !p.wtm; r.cK = p.ck; r.cQ = p.cq; r.ck = p.cK; r.cq = p.cQ;
    r.ep = p.ep >= 0 ? (p.ep ^ 56) : -1; r.hmc = p.hmc; r.fmc = p.fmc;
    return r;
}
inline ref::Pos mirrorFiles(const ref::Pos& p) { // only for positions without castling rights
    ref::Pos r = p;
    memset(r.b, '.', 64);
    for (int s = 0; s < 64; s++) if (p.b[s] != '.') r.b[s ^ 7] = p.b[s];
    r.ep = p.ep >= 0 ? (p.ep ^ 7) : -1;
    return r;
}

enum Tmpl { M_BACKRANK = 0, M_SMOTHER1, M_SMOTHER2, M_SMOTHER3, M_PROMO_Q, M_PROMO_N, M_EP, M_DISCOVERED, M_DOUBLE, M_CASTLE_K, M_CASTLE_Q, M_LADDER, M_KQ, M_EP_DEFENCE, M_SEE_DEFENCE, M_PROMO_CAPTURE_LINE, M_NTMPL };
inline const char* tmplName(int t) {
    static const char* n[] = {"backrank", "smother1", "smother2", "smother3", "promo-q", "promo-n", "ep", "discovered", "double", "castle-k", "castle-q", "ladder", "kq", "ep-defence", "see-defence", "promo-capture-line"};
    return n[t];
}

// a few men that (mostly) do not disturb the pattern: on empty squares of ranks lo..hi
inline void noise(Choices& c, ref::Pos& p, int n, const char* kinds, int lo, int hi) {
    size_t nk = strlen(kinds);
    for (int i = 0; i < n; i++) {
        int s = gen::emptySquare(c, p, lo, hi);
        if (s < 0) return;
        char pc = kinds[c.pick((int)nk)];
        if (ref::lower(pc) == 'p' && (ref::Y(s) == 0 || ref::Y(s) == 7)) continue;
        p.b[s] = pc;
    }
}

// White is the attacker and to move; the caller flips colours / mirrors afterwards.
inline ref::Pos buildTemplate(Choices& c, int t, bool& mirrorOk) {
    ref::Pos p; p.wtm = true; mirrorOk = true;
    switch (t) {
    case M_BACKRANK: case M_PROMO_Q: {
        int f = c.range(0, 7);
        p.b[ref::SQ(f, 7)] = 'k';
        for (int dx = -1; dx <= 1; dx++) if (f + dx >= 0 && f + dx < 8) p.b[ref::SQ(f + dx, 6)] = 'p';
        std::vector<int> files;
        for (int x = 0; x < 8; x++) if (abs(x - f) >= 2) files.push_back(x);
        int x = c.of(files);
        if (t == M_BACKRANK) p.b[ref::SQ(x, c.range(0, 6))] = c.flip() ? 'R' : 'Q';
        else p.b[ref::SQ(x, 6)] = 'P';
        int ks = gen::emptySquare(c, p, 0, 1); p.b[ks] = 'K';
        noise(c, p, c.range(0, 3), "PPNBpnb", 1, 5);
        break;
    }
    case M_SMOTHER1: {
        put(p, "h8", 'k'); put(p, "g8", 'r'); put(p, "g7", 'p'); put(p, "h7", 'p');
        static const char* from[] = {"h6", "g5", "e5", "d6", "d8"};
        put(p, from[c.pick(5)], 'N');
        p.b[gen::emptySquare(c, p, 0, 2)] = 'K';
        noise(c, p, c.range(0, 3), "PPBpn", 1, 4);
        break;
    }
    case M_SMOTHER2: {
        put(p, "h8", 'k'); put(p, "g7", 'p'); put(p, "h7", 'p'); put(p, "h6", 'N');
        static const char* rk[] = {"f8", "e8", "d8", "c8"};
        put(p, rk[c.pick(4)], 'r');
        static const char* qs[] = {"c4", "b3", "a2", "d5"};
        put(p, qs[c.pick(4)], 'Q');
        p.b[gen::emptySquare(c, p, 0, 0)] = 'K';
        noise(c, p, c.range(0, 2), "PPpp", 1, 3);
        break;
    }
    case M_SMOTHER3: {
        put(p, "g8", 'k'); put(p, "f8", 'r'); put(p, "g7", 'p'); put(p, "h7", 'p'); put(p, "f7", 'N');
        static const char* qs[] = {"c4", "b3", "a2", "d5"};
        put(p, qs[c.pick(4)], 'Q');
        p.b[gen::emptySquare(c, p, 0, 0)] = 'K';
        noise(c, p, c.range(0, 2), "PPpp", 1, 3);
        break;
    }
    case M_PROMO_N: {
        put(p, "h7", 'k'); put(p, "g8", 'b'); put(p, "h8", 'r'); put(p, "g7", 'p'); put(p, "g6", 'p'); put(p, "h6", 'p');
        if (c.flip()) put(p, "f7", 'P');
        else { put(p, "e7", 'P'); put(p, "f8", c.flip() ? 'n' : 'b'); if (c.flip()) put(p, "e8", 'n'); }
        p.b[gen::emptySquare(c, p, 0, 1)] = 'K';
        noise(c, p, c.range(0, 3), "PPNpp", 1, 4);
        break;
    }
    case M_EP: {
        put(p, "a5", 'R'); put(p, "d5", 'p'); put(p, c.flip() ? "e5" : "c5", 'P'); p.ep = sq("d6");
        put(p, "h5", 'k'); put(p, "h6", 'p'); put(p, "d3", 'B'); put(p, "g3", 'P'); put(p, "h3", 'P');
        put(p, c.flip() ? "a1" : "b1", 'K');
        if (c.chance(1, 3)) put(p, c.flip() ? "a7" : "b7", 'p');
        if (c.chance(1, 3)) put(p, "a2", 'P');
        break;
    }
    case M_EP_DEFENCE: {
        // not a mate: a double pawn push gives a check that would be mate if the defender could not capture the
        // pusher en passant (the capture is the only defence).  An engine that forgets that evasion announces a
        // false mate.  (mirrorFiles/flipColours of the caller cover both capture directions and both colours.)
        put(p, "h5", 'k'); put(p, "g6", 'p'); put(p, "h6", 'p'); put(p, "h4", 'p');
        put(p, "f4", 'P'); put(p, "g2", 'P');
        if (c.flip()) { put(p, "h3", 'P'); put(p, c.flip() ? "g1" : "f1", 'K'); }
        else { put(p, "f3", 'K'); put(p, "h1", 'R'); }
        if (c.chance(1, 3)) put(p, c.flip() ? "a7" : "b6", 'p');
        if (c.chance(1, 3)) put(p, c.flip() ? "a2" : "b3", 'P');
        if (c.chance(1, 4)) { put(p, "c8", 'b'); put(p, "d7", 'p'); }
        break;
    }
    case M_PROMO_CAPTURE_LINE: {
        // mate in one by a capture-promotion whose check runs back through the square the pawn leaves: g7xh8=Q(B)+ with
        // the king on the a1-h8 diagonal (or f7xg8=Q with the king on b3's diagonal ...); the straight promotion is no mate
        put(p, "a1", 'k'); put(p, "c2", 'K'); put(p, "b4", 'N'); put(p, "g7", 'P');
        put(p, "h8", "nbr"[c.pick(3)]);
        if (c.chance(1, 3)) put(p, "g8", c.flip() ? 'n' : 'b');      // the push square may be blocked as well
        if (c.chance(1, 3)) put(p, c.flip() ? "h5" : "e6", 'p');
        noise(c, p, c.range(0, 2), "Pp", 2, 5);
        break;
    }
    case M_SEE_DEFENCE: {
        // not a mate: the smothered-mate check Nf7+ is answered by taking the protected knight with a more valuable man
        // (the only defence, and a capture that loses material by static exchange).  An engine whose check evasions in
        // quiescence skip such captures announces a false mate.
        put(p, "h8", 'k'); put(p, "g8", c.chance(3, 4) ? 'r' : 'b'); put(p, "g7", 'p'); put(p, "h7", 'p');
        static const char* from[] = {"h6", "g5", "e5", "d6", "d8"};
        put(p, from[c.pick(5)], 'N');
        static const char* prot[] = {"c4", "b3", "a2", "d5"};
        put(p, prot[c.pick(4)], c.chance(2, 3) ? 'B' : 'Q');
        struct Def { const char* sq; char pc; };
        static const Def defs[] = {{"e7", 'q'}, {"e8", 'q'}, {"d7", 'q'}, {"f6", 'q'}, {"c7", 'q'}, {"e7", 'r'}, {"f6", 'r'}, {"f5", 'r'}, {"b7", 'r'}};
        const Def& d = defs[c.pick(9)];
        if (p.b[sq(d.sq)] == '.') put(p, d.sq, d.pc);
        p.b[gen::emptySquare(c, p, 0, 1)] = 'K';
        noise(c, p, c.range(0, 2), "PPpp", 1, 3);
        break;
    }
    case M_DISCOVERED: case M_DOUBLE: {
        put(p, "e8", 'k'); put(p, "d8", 'r'); put(p, "f8", 'r'); put(p, "d7", 'p'); put(p, "f7", 'p');
        static const char* back[] = {"e1", "e2", "e3"};
        put(p, back[c.pick(t == M_DOUBLE ? 3 : 3)], c.flip() ? 'R' : 'Q');
        if (t == M_DOUBLE) { put(p, "e4", 'N'); put(p, c.flip() ? "a3" : "h4", 'b'); }
        else if (c.flip()) put(p, c.flip() ? "e5" : "e4", 'N');
        else put(p, c.flip() ? "e4" : "e5", 'B');
        p.b[gen::emptySquare(c, p, 0, 0)] = 'K';
        if (p.b[sq("e1")] == 'K' || p.b[sq("e2")] == 'K') { /* king on the file would block: move it */ int k = p.kingSq(true); p.b[k] = '.'; put(p, "a1", 'K'); }
        noise(c, p, c.range(0, 2), "Ppp", 1, 2);
        break;
    }
    case M_CASTLE_Q: {
        mirrorOk = false;
        put(p, "e1", 'K'); put(p, "a1", 'R'); p.cQ = true;
        put(p, "d3", 'k'); put(p, "g1", 'N'); put(p, "b2", 'P'); put(p, "f2", 'P'); put(p, "c4", 'p'); put(p, "d4", 'p'); put(p, "e4", 'p');
        if (c.flip()) { put(p, "h1", 'R'); p.cK = c.flip(); }
        noise(c, p, c.range(0, 2), "Ppp", 4, 6);
        break;
    }
    case M_CASTLE_K: {
        mirrorOk = false;
        put(p, "e1", 'K'); put(p, "h1", 'R'); p.cK = true;
        put(p, "f3", 'k'); put(p, "c1", 'N'); put(p, "d2", 'P'); put(p, "h2", 'P'); put(p, "e4", 'p'); put(p, "f4", 'p'); put(p, "g4", 'p');
        if (c.flip()) { put(p, "a1", 'R'); p.cQ = c.flip(); }
        noise(c, p, c.range(0, 2), "Ppp", 4, 6);
        break;
    }
    case M_LADDER: {
        int x = c.range(0, 7), y = c.range(5, 7);
        p.b[ref::SQ(x, y)] = 'k';
        std::vector<int> files;
        for (int f = 0; f < 8; f++) if (abs(f - x) >= 2) files.push_back(f);
        p.b[ref::SQ(c.of(files), y - 1)] = c.flip() ? 'R' : 'Q';
        int s2 = ref::SQ(c.of(files), y - 2); if (p.b[s2] == '.') p.b[s2] = c.flip() ? 'R' : 'Q';
        p.b[gen::emptySquare(c, p, 0, 1)] = 'K';
        noise(c, p, c.range(0, 2), "Ppn", 1, 3);
        break;
    }
    case M_KQ: default: {
        int x = c.range(0, 7);
        p.b[ref::SQ(x, 7)] = 'k';
        int kx = std::min(7, std::max(0, x + c.range(-1, 1)));
        p.b[ref::SQ(kx, 5)] = 'K';
        int s = gen::emptySquare(c, p, 0, 6); p.b[s] = c.chance(3, 4) ? 'Q' : 'R';
        noise(c, p, c.range(0, 2), "Ppnb", 1, 4);
        break;
    }
    }
    return p;
}

struct Made { ref::Pos p; int tmpl = 0; bool ok = false; };
inline Made mateTemplate(Choices& c, int forced = -1) {
    Made m;
    m.tmpl = forced >= 0 ? forced : c.pick(M_NTMPL);
    bool mirrorOk = true;
    ref::Pos p = buildTemplate(c, m.tmpl, mirrorOk);
    if (mirrorOk && c.flip()) p = mirrorFiles(p);
    if (c.flip()) p = flipColours(p);
    m.ok = ref::sane(p);
    m.p = p;
    return m;
}

} // namespace c04
