// C03  Every search result is a legal, well-formed answer in any configuration.
// Generated (options x position x limits) configurations, 1..6 consecutive
// searches per engine process; validity predicates via refchess over the
// transcript.  See DESIGN.md §3 C03.
#include "common/vh.hpp"
#include <map>
#include "common/gen.hpp"
#include "common/uci.hpp"
#include <algorithm>

using vh::Value;
using vh::Choices;

namespace {

std::string gExe, gWork;
std::vector<std::string> gNets;
int gMaxDepth = 6, gAnswerMs = 120000, gMaxThreads = 8;

struct SearchCase {
    std::vector<std::string> setopts; // full "setoption ..." lines sent before this search
    std::string fen;
    std::vector<std::string> moves;
    std::string go;
    std::vector<std::string> searchMoves;
    bool infinite = false, ponder = false, hasLimit = false;
    int pace = 0, paceArg = 0;   // when to release an infinite/ponder search: 0 immediately, 1 after next info, 2 after depth>=arg, 3 after arg ms
    bool newGame = false;
    std::string shape;           // for statistics
};
struct Case { int net = 0; std::vector<SearchCase> s; };

Value toJson(const Case& k) {
    Value v = Value::object();
    v["net"] = k.net;
    Value a = Value::array();
    for (auto& s : k.s) {
        Value o = Value::object();
        o["setopts"] = Value::arrayOf(s.setopts); o["fen"] = s.fen; o["moves"] = Value::arrayOf(s.moves);
        o["go"] = s.go; o["searchmoves"] = Value::arrayOf(s.searchMoves);
        o["infinite"] = s.infinite; o["ponder"] = s.ponder; o["limit"] = s.hasLimit;
        o["pace"] = s.pace; o["arg"] = s.paceArg; o["newgame"] = s.newGame; o["shape"] = s.shape;
        a.push(o);
    }
    v["searches"] = a;
    return v;
}
Case fromJson(const Value& v) {
    Case k; k.net = (int)v.getInt("net", 0);
    for (auto& o : v.at("searches").a) {
        SearchCase s;
        s.setopts = o.strs("setopts"); s.fen = o.getStr("fen"); s.moves = o.strs("moves"); s.go = o.getStr("go");
        s.searchMoves = o.strs("searchmoves"); s.infinite = o.getBool("infinite", false); s.ponder = o.getBool("ponder", false);
        s.hasLimit = o.getBool("limit", false); s.pace = (int)o.getInt("pace", 0); s.paceArg = (int)o.getInt("arg", 0);
        s.newGame = o.getBool("newgame", false); s.shape = o.getStr("shape");
        k.s.push_back(s);
    }
    return k;
}

const std::vector<std::string>& specialRoots() {
    static const std::vector<std::string> v = {
        "7k/5Q2/6K1/8/8/8/8/8 b - - 0 1",            // stalemate
        "R5k1/5ppp/8/8/8/8/8/6K1 b - - 0 1",          // checkmate
        "rnb1kbnr/pppp1ppp/8/4p3/6Pq/5P2/PPPPP2P/RNBQKBNR w KQkq - 1 3", // mated
        "k7/8/1K6/8/8/8/8/7R w - - 0 1",              // mate in 1
        "7k/8/8/8/8/8/6q1/K7 w - - 0 1",              // single legal move? (Ka1: b1,a2,b2) few moves
        "k7/2Q5/8/8/8/8/8/K7 b - - 0 1",              // single legal move Ka8-? (a7? attacked) -> few
        "8/8/8/8/8/5k2/6q1/7K w - - 0 1",             // stalemate-ish / mate
        "8/8/8/4k3/8/8/3K4/1Q6 w - - 0 1", "8/8/4k3/8/8/3K4/8/R7 b - - 3 40", "8/8/8/3k4/8/8/3K4/BN6 w - - 0 1",
        "6k1/8/8/8/8/8/8/KQ5r w - - 0 1", "8/8/8/8/4k3/8/7r/K1R5 b - - 10 60", "8/8/8/8/8/2k5/8/K7 w - - 0 1",
        "4k3/8/8/8/8/8/4P3/4K3 w - - 0 1", "8/k7/3p4/p2P1p2/P2P1P2/8/8/K7 w - - 0 1",
    };
    return v;
}

std::vector<std::string> genSetopts(Choices& c, bool first, bool& throttled) {
    std::vector<std::string> out;
    auto add = [&](const std::string& n, const std::string& v) { out.push_back("setoption name " + n + " value " + v); };
    int n = first ? c.range(0, 5) : c.range(0, 2);
    for (int i = 0; i < n; i++) {
        switch (c.pick(14)) {
        case 0: add("Hash", std::to_string(c.of(std::vector<int>{1, 2, 3, 8, 16, 64}))); break;
        case 1: add("Threads", std::to_string(c.range(1, gMaxThreads))); break;
        case 2: case 3: add("MultiPV", std::to_string(c.range(1, 5))); break;
        case 4: add("Strength", std::to_string(c.chance(1, 3) ? c.range(0, 200) : c.range(0, 1000))); break;
        case 5: add("UCI_LimitStrength", c.flip() ? "true" : "false"); break;
        case 6: add("UCI_Elo", std::to_string(c.range(-625, 2900))); break;
        case 7: add("MaxNPS", c.flip() ? "0" : std::to_string(c.range(1000, 1000000))); break;
        case 8: add("UseNullMove", c.flip() ? "true" : "false"); break;
        case 9: add("UCI_AnalyseMode", c.flip() ? "true" : "false"); break;
        case 10: add("Contempt", std::to_string(c.range(-200, 200))); break;
        case 11: add("AnalyzeContempt", std::to_string(c.range(-200, 200))); break;
        case 12: add("OwnBook", c.flip() ? "true" : "false"); break;
        case 13: out.push_back("setoption name Clear Hash"); break;
        }
    }
    for (auto& o : out) if (o.find("MaxNPS value 0") == std::string::npos && (o.find("MaxNPS") != std::string::npos || o.find("LimitStrength value true") != std::string::npos)) throttled = true;
    return out;
}

SearchCase genSearch(Choices& c, bool first, bool& throttled) {
    SearchCase s;
    s.setopts = genSetopts(c, first, throttled);
    s.newGame = c.chance(1, 8);
    // position
    ref::Pos root;
    int kind = c.pick(10);
    if (kind <= 3) {
        gen::Game g = gen::game(c, 120);
        // give the engine a start + the last moves as history
        size_t from = g.moves.size() > 0 ? (size_t)c.pick((int)g.moves.size() + 1) : 0;
        s.fen = ref::toFEN(g.pos[from]);
        for (size_t i = from; i < g.moves.size(); i++) s.moves.push_back(g.moves[i].uci());
        root = g.pos.back(); s.shape = "game";
    } else if (kind <= 6) {
        gen::Placed p = gen::place(c);
        if (!p.ok) { ref::fromFEN(gen::seedFens()[0], p.p); }
        root = p.p; s.fen = ref::toFEN(root); s.shape = std::string("placement:") + gen::tmplName(p.tmpl);
    } else if (kind == 7) {
        s.fen = c.of(specialRoots()); ref::fromFEN(s.fen, root); s.shape = "special";
    } else if (kind == 8) {
        // promotion roots (both colours): printed under-promotions must name the right piece
        gen::Placed p = gen::place(c, gen::T_PROMO);
        if (!p.ok) ref::fromFEN("8/8/8/8/8/k7/2p5/K7 b - - 0 1", p.p);
        root = p.p; s.fen = ref::toFEN(root); s.shape = "promo-root";
        if (c.flip()) s.setopts.push_back("setoption name MultiPV value " + std::to_string(c.range(4, 8)));
    } else {
        gen::Placed p = gen::place(c, gen::T_ENDGAME);
        if (!p.ok) ref::fromFEN(specialRoots()[7], p.p);
        root = p.p; s.fen = ref::toFEN(root); s.shape = "endgame";
    }
    if (s.moves.empty() && c.chance(1, 6)) { // half-move clock close to the 50-move limit
        ref::Pos p; ref::fromFEN(s.fen, p); p.hmc = c.range(96, 100); p.ep = -1; s.fen = ref::toFEN(p); root = p; s.shape += "+hmc";
    }
    if (!ref::sane(root)) { s.fen = gen::seedFens()[0]; s.moves.clear(); ref::fromFEN(s.fen, root); s.shape = "fallback"; }
    std::vector<ref::Move> lm = ref::legalMoves(root);
    if (lm.empty()) s.shape += "+nomoves"; else if (lm.size() == 1) s.shape += "+onemove";
    std::string go = "go";
    if (c.chance(1, 7)) { s.ponder = true; go += " ponder"; }
    std::vector<ref::Move> under;
    for (auto& m : lm) if (m.promo && m.promo != 'q') under.push_back(m);
    if (s.shape.rfind("promo-root", 0) == 0 && !under.empty() && c.flip()) {
        go += " searchmoves";
        int n = c.range(1, std::min<int>(2, (int)under.size()));
        for (int i = 0; i < n; i++) { ref::Move m = under[c.pick((int)under.size())]; if (std::find(s.searchMoves.begin(), s.searchMoves.end(), m.uci()) == s.searchMoves.end()) { go += " " + m.uci(); s.searchMoves.push_back(m.uci()); } }
    } else if (!lm.empty() && c.chance(1, 4)) {
        go += " searchmoves";
        int n = c.range(1, std::min<int>(5, (int)lm.size()));
        std::vector<ref::Move> pool = lm;
        for (int i = 0; i < n && !pool.empty(); i++) { int k = c.pick((int)pool.size()); go += " " + pool[k].uci(); s.searchMoves.push_back(pool[k].uci()); pool.erase(pool.begin() + k); }
    }
    int lk = c.pick(12);
    if (throttled && (lk <= 3 || lk >= 8)) lk = 4 + c.pick(2);
    if (lk <= 3) { go += " depth " + std::to_string(c.range(1, gMaxDepth)); s.hasLimit = true; }
    else if (lk == 4) { go += " nodes " + std::to_string(c.range(1, throttled ? 2000 : 30000)); s.hasLimit = true; }
    else if (lk == 5) { go += " movetime " + std::to_string(c.range(1, 300)); s.hasLimit = true; }
    else if (lk <= 7) {
        go += " wtime " + std::to_string(c.range(1, 4000)) + " btime " + std::to_string(c.range(1, 4000));
        if (c.flip()) go += " winc " + std::to_string(c.range(0, 300)) + " binc " + std::to_string(c.range(0, 300));
        if (c.flip()) go += " movestogo " + std::to_string(c.range(0, 40));
        s.hasLimit = true;
    } else if (lk == 8) { go += " mate " + std::to_string(c.range(1, 4)); s.hasLimit = true; }
    else { go += " infinite"; s.infinite = true; }
    if (s.infinite || s.ponder) {
        s.pace = c.pick(4);
        s.paceArg = s.pace == 2 ? c.range(1, 6) : s.pace == 3 ? c.range(1, 200) : 0;
        if (throttled && s.pace == 2) s.paceArg = 1;
    }
    s.go = go;
    return s;
}

// A <=4-man pawnless root searched without limits (the engine builds its in-memory tablebase, Hash >= 8), followed by
// a 5-man root of the same material plus one more man of the weaker side: the second search's mate PVs are extended
// from the retained table once a capture enters its material.
void tbFollowUp(Choices& c, Case& k) {
    static const std::vector<std::string> base = {"KQkr", "KQkn", "KQkb", "KRkn", "KRkb", "KQkq", "KRkr", "KQk", "KRk"};
    std::string mat = c.of(base);
    auto placeAll = [&](const std::string& men, ref::Pos& p) {
        p = ref::Pos();
        for (char m : men) { int s = gen::emptySquare(c, p); if (s < 0) return false; p.b[s] = m; }
        p.wtm = c.flip(); p.hmc = 0; p.fmc = 1;
        return ref::sane(p) && !ref::legalMoves(p).empty();
    };
    ref::Pos p1, p2;
    if (!placeAll(mat, p1)) return;
    std::string extra(1, c.of(std::vector<char>{'n', 'b', 'r', 'n'}));
    if (!placeAll(mat + extra, p2)) return;
    SearchCase a; a.setopts = {"setoption name Hash value 16", "setoption name Strength value 1000", "setoption name UCI_LimitStrength value false", "setoption name MaxNPS value 0", "setoption name OwnBook value false"};
    a.fen = ref::toFEN(p1); a.go = "go infinite"; a.infinite = true; a.pace = 2; a.paceArg = 3; a.shape = "tb-root";
    SearchCase b; b.fen = ref::toFEN(p2); b.go = "go infinite"; b.infinite = true; b.pace = 2; b.paceArg = c.range(4, 7); b.shape = "tb-followup";
    k.s.push_back(a); k.s.push_back(b);
}

// ---- validation -------------------------------------------------------------------
std::string validate(const SearchCase& s, const std::vector<std::string>& lines, const std::string& best, const std::map<std::string, std::string>& opt = {}) {
    ref::Pos root;
    if (!ref::fromFEN(s.fen, root)) return "";
    for (auto& u : s.moves) root = ref::make(root, ref::Move::fromUci(u));
    std::vector<ref::Move> lm = ref::legalMoves(root);
    auto inSearchMoves = [&](const std::string& u) { return s.searchMoves.empty() || std::find(s.searchMoves.begin(), s.searchMoves.end(), u) != s.searchMoves.end(); };
    // Multi-PV bookkeeping: the engine numbers its lines (field `multipv k`) exactly when it searches more than one root move
    // for the report, i.e. min(MultiPV, number of root moves) > 1, the same for every line of one search.  The number of root
    // moves is known to us (= legal moves within searchmoves) unless strength limiting or a tablebase answer at the root
    // (only possible for pawnless <= 4-man roots without configured tablebases) may have removed root moves.
    auto optOf = [&](const char* n, const char* def) { auto it = opt.find(n); return it == opt.end() ? std::string(def) : it->second; };
    int rootMovesKnown = 0;
    for (auto& m : lm) if (inSearchMoves(m.uci())) rootMovesKnown++;
    bool pawns = root.count('P') + root.count('p') > 0;
    const bool reduced = atoi(optOf("strength", "1000").c_str()) < 1000 || optOf("uci_limitstrength", "false") == "true";
    const bool mustNumber = !opt.empty() && atoi(optOf("multipv", "1").c_str()) >= 2 && rootMovesKnown >= 2 && !reduced && (pawns || root.men() > 4);
    int numbered = 0, unnumbered = 0;
    std::string firstUnnumbered, firstNumbered;
    // info lines
    int lastMpv = 0;
    std::set<std::string> reportFirst;
    for (auto& l : lines) {
        uci::Kind k = uci::classify(l);
        if (k == uci::K_MALFORMED || k == uci::K_EMPTY) return "malformed line '" + l + "'";
        if (k != uci::K_INFO_PV) { if (k != uci::K_INFO_DEPTH && k != uci::K_INFO_CURRMOVE && k != uci::K_INFO_STATS && k != uci::K_INFO_STRING) { lastMpv = 0; reportFirst.clear(); } continue; }
        uci::Info inf; uci::parseInfo(l, inf);
        if (inf.mate) { if (inf.score == 0 || std::abs(inf.score) > 1000) return "mate distance out of range in '" + l + "'"; }
        else if (std::abs(inf.score) > 16000) return "cp score out of range in '" + l + "'";
        if (inf.upper && inf.lower) return "both bounds in '" + l + "'";
        ref::Pos p = root;
        for (size_t i = 0; i < inf.pv.size(); i++) {
            ref::Move m = ref::Move::fromUci(inf.pv[i]);
            if (!ref::isLegal(p, m)) return "pv move " + std::to_string(i + 1) + " (" + inf.pv[i] + ") is illegal in '" + l + "'";
            if (i == 0 && !inSearchMoves(inf.pv[0])) return "pv starts with a move outside searchmoves: '" + l + "'";
            p = ref::make(p, m);
        }
        if (inf.multipv > 0) { if (!numbered++) firstNumbered = l; } else { if (!unnumbered++) firstUnnumbered = l; }
        if (inf.multipv > 0) {
            if (inf.multipv <= lastMpv) reportFirst.clear();
            lastMpv = inf.multipv;
            if (!inf.pv.empty() && !reportFirst.insert(inf.pv[0]).second) return "two lines of one multi-PV report start with " + inf.pv[0] + ": '" + l + "'";
        } else { lastMpv = 0; reportFirst.clear(); }
    }
    if (numbered && unnumbered) return "pv lines with and without a multipv number in one search: '" + firstNumbered.substr(0, 120) + "' and '" + firstUnnumbered.substr(0, 120) + "'";
    if (mustNumber && unnumbered) return "MultiPV " + optOf("multipv", "1") + " and " + std::to_string(rootMovesKnown) + " root moves, but a pv line carries no multipv number: '" + firstUnnumbered.substr(0, 160) + "'";
    std::vector<std::string> t = uci::split(best);
    if (t.size() < 2 || t[0] != "bestmove") return "no bestmove line";
    if (lm.empty()) { if (t[1] != "0000") return "position without legal moves but bestmove " + t[1]; return ""; }
    if (t[1] == "0000") return "bestmove 0000 although the position has " + std::to_string(lm.size()) + " legal moves";
    ref::Move bm = ref::Move::fromUci(t[1]);
    if (!ref::isLegal(root, bm)) return "illegal bestmove " + t[1];
    if (!inSearchMoves(t[1])) return "bestmove " + t[1] + " is not one of the searchmoves";
    if (t.size() >= 4) {
        if (t[2] != "ponder") return "malformed bestmove line";
        ref::Pos n = ref::make(root, bm);
        if (!ref::isLegal(n, ref::Move::fromUci(t[3]))) return "illegal ponder move " + t[3] + " after " + t[1];
    }
    return "";
}

// runs the case; returns "" or error; inconclusive flag when the engine did not answer in time
std::string runCase(const Case& k, vh::Stats& st, bool& inconclusive, std::string& transcript) {
    uci::Engine e;
    std::string net = gNets[(size_t)k.net % gNets.size()];
    if (!e.start(gExe, {"TEXEL_VERIF_NET=" + net}, gWork + "/engine.err")) return "spawn failed";
    e.send("uci");
    if (e.waitLine("uciok", 30000) < 0) { inconclusive = true; return ""; }
    std::string err;
    int idx = 0;
    std::map<std::string, std::string> opt{{"multipv", "1"}};   // option state of the process (lower-case names)
    for (const SearchCase& s : k.s) {
        idx++;
        for (auto& o : s.setopts) {
            e.send(o);
            size_t a = o.find("name "), b = o.find(" value ");
            if (a != std::string::npos && b != std::string::npos && b > a) {
                std::string n = o.substr(a + 5, b - a - 5), v = o.substr(b + 7);
                for (auto& ch : n) ch = (char)tolower((unsigned char)ch);
                opt[n] = v;
            }
        }
        if (s.newGame) e.send("ucinewgame");
        std::string pos = "position fen " + s.fen;
        if (!s.moves.empty()) { pos += " moves"; for (auto& m : s.moves) pos += " " + m; }
        e.send(pos);
        e.send("isready");
        if (e.waitLine("readyok", 60000) < 0) { if (e.tryReap()) { err = "engine died: " + e.exitDesc(); break; } inconclusive = true; break; }
        size_t from = e.log.size();
        e.send(s.go);
        if (s.infinite || s.ponder) {
            if (s.pace == 1) e.waitPrefix("info ", 300);
            else if (s.pace == 2) { int want = s.paceArg; e.waitFor([&](const std::string& l) { uci::Info inf; return l.rfind("bestmove", 0) == 0 || (uci::parseInfo(l, inf) && inf.depth >= want); }, s.shape.rfind("tb-", 0) == 0 ? 40000 : 1500); } // tb roots: the table must get built
            else if (s.pace == 3) e.sleepMs(s.paceArg);
            // after ponderhit only *time* limits (movetime / clock) end the search by themselves: the engine starts a
            // ponder search without depth/node limits and ponderhit re-installs the time limits only
            bool timeLimited = s.go.find("movetime") != std::string::npos || s.go.find("wtime") != std::string::npos;
            if (s.ponder && (idx + s.paceArg) % 2 == 0) { e.send("ponderhit"); if (!timeLimited || s.infinite) { e.sleepMs(20); e.send("stop"); } }
            else e.send("stop");
        }
        e.scanPos = from;
        int bi = e.waitPrefix("bestmove", gAnswerMs);
        if (bi < 0) {
            if (e.tryReap()) { err = "engine died during search " + std::to_string(idx) + ": " + e.exitDesc() + " " + e.stderrText(600); break; }
            inconclusive = true; break;
        }
        std::vector<std::string> lines;
        for (size_t i = from; i < (size_t)bi; i++) if (e.log[i].dir == '<') lines.push_back(e.log[i].line);
        std::string v = validate(s, lines, e.log[(size_t)bi].line, opt);
        st.count("searches");
        if (!v.empty()) { err = "search " + std::to_string(idx) + " (" + s.go + " on " + s.fen + "): " + v; break; }
    }
    if (err.empty() && !inconclusive) {
        e.send("quit");
        if (!e.waitExit(30000)) inconclusive = true;
        else if (!e.exitedCleanly()) err = "engine ended with " + e.exitDesc() + " " + e.stderrText(600);
        else { std::string se = e.stderrText(); if (se.find("Sanitizer") != std::string::npos || se.find("runtime error:") != std::string::npos) err = "sanitizer report: " + se.substr(0, 800); }
    }
    if (!err.empty()) { Value t = e.transcript(200); transcript = vj::dump(t); }
    if (inconclusive && getenv("C03_DEBUG")) {
        fprintf(stderr, "INCONCLUSIVE-AT search %d\n", idx);
        int shown = 0;
        for (size_t i = e.log.size(); i-- > 0 && shown < 4000;) if (e.log[i].dir == '>') { fprintf(stderr, "  [%zu] %s\n", i, e.log[i].line.c_str()); if (++shown > 12) break; }
        for (size_t i = 0; i < e.log.size() && i < 60; i++) fprintf(stderr, "  %c %s\n", e.log[i].dir, e.log[i].line.substr(0, 150).c_str()); fprintf(stderr, "INCONCLUSIVE %s\n%s\n", vj::dump(toJson(k)).c_str(), vj::dump(e.transcript(30)).c_str()); }
    e.kill();
    return err;
}

void classify(const Case& k, vh::Stats& st) {
    bool nt = false;
    auto mk = [&]() { return toJson(k); };
    int i = 0;
    for (auto& s : k.s) {
        i++;
        if (!s.setopts.empty()) nt = true;
        for (auto& o : s.setopts) {
            if (o.find("MultiPV value") != std::string::npos && o.find("MultiPV value 1") == std::string::npos) st.clsSample("MultiPV > 1", mk);
            if (o.find("Threads value") != std::string::npos && o.find("Threads value 1") == std::string::npos) st.clsSample("Threads > 1", mk);
            if (o.find("Strength value") != std::string::npos && o.find("Strength value 1000") == std::string::npos) st.clsSample("Strength < 1000", mk);
            if (o.find("OwnBook value true") != std::string::npos) st.clsSample("OwnBook", mk);
        }
        if (!s.searchMoves.empty()) { nt = true; st.clsSample("searchmoves", mk); }
        if ((s.infinite || s.ponder) && s.pace == 0) { nt = true; st.clsSample("stop in iteration 1", mk); }
        if (s.ponder) st.clsSample("ponder", mk);
        if (i >= 2) { nt = true; st.cls("second-or-later search in the process"); }
        if (s.shape.find("+nomoves") != std::string::npos) { nt = true; st.clsSample("root without legal moves", mk); }
        if (s.shape.find("+onemove") != std::string::npos) { nt = true; st.clsSample("single-legal-move root", mk); }
        if (s.shape.find("+hmc") != std::string::npos) { nt = true; st.clsSample("hmc 96..100 root", mk); }
        if (s.shape.find("endgame") != std::string::npos || s.shape == "special") st.cls("special/endgame root");
        if (s.shape == "tb-followup") st.clsSample("5-man root after a resident 4-man table", mk);
        if (s.shape.rfind("promo-root", 0) == 0) st.clsSample("promotion root", mk);
    }
    if (nt) st.nt(vj::dump(toJson(k))); else st.cls("plain");
}

void runAndJudge(const std::string& sub, const Case& k, vh::Stats& st) {
    st.evaluations++;
    bool inc = false; std::string tr;
    std::string e = runCase(k, st, inc, tr);
    if (inc) { st.inconclusive++; return; }
    classify(k, st);
    if (!e.empty()) { Value v = toJson(k); if (!tr.empty()) v["transcript_tail"] = vj::parse(tr); vh::fail(v, e); }
}

} // namespace

int main(int argc, char** argv) {
    vh::Args a = vh::parseArgs(argc, argv);
    vh::installDeathHooks();
    vh::Stats& st = vh::ctx().stats;
    vh::ctx().shrinkBudget = a.num("shrink", 80);
    gExe = a.str("engine", "/verif/build/asan/bin/texel");
    gMaxDepth = (int)a.num("max-depth", 6);
    gAnswerMs = (int)a.num("answer-ms", 120000);
    gMaxThreads = (int)a.num("max-threads", 8);
    std::string nets = a.str("nets", "/verif/build/nets/material-1.net");
    size_t p = 0;
    while (p <= nets.size()) { size_t q = nets.find(',', p); if (q == std::string::npos) q = nets.size(); if (q > p) gNets.push_back(nets.substr(p, q - p)); p = q + 1; }
    gWork = "/tmp/verif-c03-" + std::to_string(getpid());
    if (system(("mkdir -p " + gWork).c_str())) {}
    int rc;
    if (!a.replay.empty()) {
        rc = vh::runReplay([&](const std::string& sub, const Value& k) {
            Case c = fromJson(k);
            for (int i = 0; i < (int)a.num("repeat", 3); i++) runAndJudge(sub, c, st);
        });
    } else {
        vh::runProp("configs", a.cases, 8.0, [&](Choices& c) {
            Case k;
            k.net = c.pick((int)gNets.size());
            Case tail; // decided first so that a short choice stream does not starve it
            if (c.chance(1, 4)) tbFollowUp(c, tail);
            int n = tail.s.empty() ? c.range(1, 6) : c.range(0, 2);
            bool throttled = false;
            for (int i = 0; i < n && (i == 0 || !c.empty()); i++) k.s.push_back(genSearch(c, i == 0, throttled));
            for (auto& x : tail.s) k.s.push_back(x);
            runAndJudge("configs", k, st);
        }, -1, 15);
        rc = vh::finish();
    }
    if (system(("rm -rf " + gWork).c_str())) {}
    return rc;
}
