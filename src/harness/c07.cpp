// C07  Static evaluation is a pure, symmetric function of the position.
// See DESIGN.md §3 C07 and notes/C07.md.
//
// Sub-properties (all decoded from a rapidcheck choice stream, replayable):
//   seq     command sequences over a Position with an Evaluate connected (make / unmake / null-move edit /
//           direct setPiece edits / assignments / reconnects / contempt changes / cache pollution); every
//           evaluation of the incrementally maintained evaluator is compared with a from-scratch evaluation
//           of a copy of the position that cannot see any cache.
//   promo   the same from the pawn-race start (many promoted pieces: large material ids).
//   sym     eval(flip(P), -contempt) == eval(P, contempt); without castling rights eval(mirrorLR(P)) == eval(P).
//   search  real depth/node-limited searches (class Search) with verif::evalHook installed: every value the
//           search obtains from Evaluate::evalPos is compared with a from-scratch evaluation.
// With --stream FILE every value obtained from the evaluator under test is appended to FILE (one block per
// case); checks/C07.py compares the files written by the opt / ssse3 / avx2 / avx512 builds element-wise.
#include "common/vh.hpp"
#include "common/gen.hpp"
#include "common/tx.hpp"
#include "evaluate.hpp"
#include "endGameEval.hpp"
#include "nneval.hpp"
#include "search.hpp"
#include "history.hpp"
#include "killerTable.hpp"
#include "transpositionTable.hpp"
#include "parallel.hpp"
#include "treeLogger.hpp"
#include "computerPlayer.hpp"
#include "parameters.hpp"
#include "constants.hpp"
#include "verifhook.hpp"
#include <algorithm>
#include <array>
#include <iostream>
#include <memory>
#include <sys/wait.h>

using vh::Value;
using vh::Choices;

// ---- test friends declared by the repository -------------------------------------------------------------
class NNTest {
public:
    static int stackTop(const NNEvaluator& n) { return n.stack.stackTop; }
    static bool valid(NNEvaluator& n, int c) { return n.getLinState(c).kingSqComputed.isValid(); }
    static int pending(NNEvaluator& n, int c) { auto& s = n.getLinState(c); return s.toAddLen + s.toSubLen; }
    static int maxIncr() { return NNEvaluator::maxIncr; }
    static int maxStack() { return NNEvaluator::maxStackSize; }
};
class EvaluateTest {
public:
    static bool endGame(const Evaluate& e) { return e.mhd && e.mhd->endGame; }
};

namespace {

const char* const PAWN_RACE = "8/PPPPPPPP/8/2k5/8/2K5/pppppppp/8 w - - 0 1";
const int N_L1 = 2 * NetData::n1;

std::string g_net = "?"; // "<family>-<seed>" of the network loaded into this process

std::string fenOf(const Position& p) { return TextIO::toFEN(p); }

// ---- value stream (cross-variant differential) ------------------------------------------------------------
struct Stream {
    FILE* f = nullptr;
    std::vector<int32_t> cur;
    long block = 0, traceBlock = -1, total = 0;
    std::string traceOut;
    std::vector<Value> traceEls;
    bool tracing() const { return traceBlock >= 0 && block == traceBlock; }
    void val(int v, const Position& p, int contempt, const char* kind) {
        if (!f && traceBlock < 0) return;
        if (tracing()) {
            Value e = Value::object();
            e["i"] = (long)cur.size(); e["kind"] = kind; e["fen"] = fenOf(p); e["contempt"] = contempt; e["value"] = v;
            traceEls.push_back(e);
        }
        cur.push_back(v);
    }
    void endBlock(const std::string& sub, const Value& kase) {
        if (!f && traceBlock < 0) { return; }
        if (tracing()) {
            Value t = Value::object();
            t["block"] = block; t["sub"] = sub; t["case"] = kase;
            Value a = Value::array();
            for (auto& e : traceEls) a.push(e);
            t["elements"] = a;
            vj::writeFile(traceOut, t);
            if (f) fclose(f);
            fflush(stdout);
            _exit(0);
        }
        if (f) {
            uint64_t h = 1469598103934665603ULL;
            for (int32_t v : cur) { h ^= (uint32_t)v; h *= 1099511628211ULL; }
            uint32_t n = (uint32_t)cur.size();
            fwrite(&n, 4, 1, f); fwrite(&h, 8, 1, f);
            if (n) fwrite(cur.data(), 4, n, f);
        }
        total += (long)cur.size();
        cur.clear();
        block++;
    }
    void abortBlock() { cur.clear(); traceEls.clear(); } // a failing execution: rapidcheck shrinks next; streams are void anyway
};
Stream g_stream;

// ---- from-scratch oracle ---------------------------------------------------------------------------------
// value(): a dedicated Evaluate whose connected Position is overwritten by assignment (=> the network state is
// rebuilt from nothing) and which evaluates through Evaluate::evalPosPrint(): that entry point never reads or
// writes the evaluation hash and always recomputes the material entry, so no cache content can reach the
// result (std::cout is muted for the whole process).  fresh(): a newly constructed EvalHashTables + Evaluate
// on a copy, through the ordinary evalPos(); run for a sample of the evaluations and on every mismatch.
bool g_inOracle = false; // the oracle's own evaluations must not re-enter the hook
struct Oracle {
    std::unique_ptr<Evaluate::EvalHashTables> et;
    std::unique_ptr<Evaluate> ev;
    std::unique_ptr<Position> scratch;
    long calls = 0, freshCalls = 0;
    Oracle() : et(Evaluate::getEvalHashTables()), ev(new Evaluate(*et)), scratch(new Position()) { ev->connectPosition(*scratch); }
    int value(const Position& p, int contempt) {
        g_inOracle = true;
        *scratch = p;
        ev->setWhiteContempt(contempt);
        int v = ev->evalPosPrint();
        g_inOracle = false;
        calls++;
        return v;
    }
    int nn(const Position& p, signed char* l1) {
        g_inOracle = true;
        *scratch = p;
        int v = et->nnEval->eval();
        for (int i = 0; i < N_L1; i++) l1[i] = (signed char)et->nnEval->getL1OutClipped(i);
        g_inOracle = false;
        return v;
    }
    int fresh(const Position& p, int contempt) {
        g_inOracle = true;
        int v;
        {
            Position c(p);
            auto t = Evaluate::getEvalHashTables();
            Evaluate e(*t);
            e.connectPosition(c);
            e.setWhiteContempt(contempt);
            v = e.evalPos();
        }
        g_inOracle = false;
        freshCalls++;
        return v;
    }
    // from-scratch value; every 64th call (and whenever `force`) the two oracle paths are compared with each other
    int checked(const Position& p, int contempt, bool force, std::string& err) {
        int v = value(p, contempt);
        if (force || (calls & 63) == 1) {
            int w = fresh(p, contempt);
            if (w != v) err = "evalPosPrint() on a rebuilt evaluator gives " + std::to_string(v) + " but evalPos() of a newly constructed EvalHashTables+Evaluate gives " + std::to_string(w);
        }
        return v;
    }
};
Oracle* g_oracle = nullptr;

// ---- symmetric transforms on the reference position ------------------------------------------------------
char swapCase(char c) { return ref::isWhite(c) ? ref::lower(c) : ref::isBlack(c) ? ref::upper(c) : c; }
ref::Pos flipColors(const ref::Pos& p) {
    ref::Pos q;
    for (int s = 0; s < 64; s++) q.b[ref::SQ(ref::X(s), 7 - ref::Y(s))] = swapCase(p.b[s]);
    q.wtm = !p.wtm;
    q.cK = p.ck; q.cQ = p.cq; q.ck = p.cK; q.cq = p.cQ;
    q.ep = p.ep >= 0 ? ref::SQ(ref::X(p.ep), 7 - ref::Y(p.ep)) : -1;
    q.hmc = p.hmc; q.fmc = p.fmc;
    return q;
}
ref::Pos mirrorLR(const ref::Pos& p) { // only for positions without castling rights
    ref::Pos q;
    for (int s = 0; s < 64; s++) q.b[ref::SQ(7 - ref::X(s), ref::Y(s))] = p.b[s];
    q.wtm = p.wtm;
    q.ep = p.ep >= 0 ? ref::SQ(7 - ref::X(p.ep), ref::Y(p.ep)) : -1;
    q.hmc = p.hmc; q.fmc = p.fmc;
    return q;
}

// ---- end-game material generator (G-endgame with pawns; strong side first) ---------------------------------
struct EgSig { const char* strong; const char* weak; };
const EgSig EG_SIGS[] = {
    {"q", "p"}, {"r", "p"}, {"r", "b"}, {"rp", "r"}, {"rp", "rp"}, {"bn", ""}, {"p", ""}, {"p", "p"}, {"bp", "b"}, {"bp", "n"},
    {"np", "b"}, {"np", ""}, {"q", "rbp"}, {"q", "rnp"}, {"qp", "rbpp"}, {"qp", "rnp"}, {"q", "rp"}, {"q", "rpp"}, {"bb", "n"}, {"q", "nn"},
    {"q", "bb"}, {"q", "bn"}, {"r", ""}, {"rp", ""}, {"q", "b"}, {"q", "n"}, {"q", ""}, {"qp", ""}, {"bp", ""}, {"bpp", ""},
    {"bp", "p"}, {"bpp", "pp"}, {"bp", "np"}, {"bbp", "p"}, {"q", "nnnn"}, {"r", "n"}, {"rb", "r"}, {"rn", "r"}, {"q", "rr"}, {"bb", "b"},
    {"rb", "rn"}, {"r", "bn"}, {"r", "bnn"}, {"r", "nn"}, {"rr", "rb"}, {"rrn", "rr"}, {"rrb", "rr"}, {"rb", ""}, {"qr", "r"}, {"rn", "p"},
    {"rr", "p"}, {"rp", "n"}, {"rp", "b"}, {"rpp", "b"}, {"", ""}, {"n", ""}, {"b", "b"}, {"n", "b"}, {"nn", ""}, {"nn", "p"},
    {"b", "p"}, {"bb", ""}, {"qn", "q"}, {"rbp", "rp"}, {"bpp", "b"}, {"npp", "n"}, {"qb", "rr"}, {"nnn", "q"}, {"bbn", "q"}, {"rp", "bp"},
};
const int N_EG_SIGS = (int)(sizeof(EG_SIGS) / sizeof(EG_SIGS[0]));

gen::Placed egPlace(Choices& c) {
    gen::Placed out;
    ref::Pos& p = out.p;
    out.tmpl = gen::T_ENDGAME;
    const EgSig& sg = EG_SIGS[c.pick(N_EG_SIGS)];
    std::string strong = sg.strong, weak = sg.weak;
    int shape = c.pick(4); // 0,1 random; 2 edge pawns / cornered defender; 3 bishop-pawn fortress shapes
    auto putRandom = [&](char pc) {
        int s = ref::lower(pc) == 'p' ? gen::emptySquare(c, p, 1, 6) : gen::emptySquare(c, p);
        gen::put(p, s, pc);
    };
    bool fortress = shape == 3 && strong.find('b') != std::string::npos && strong.find('p') != std::string::npos;
    if (fortress) {
        // white pawn b6 (optionally c7 too), black pawn b7, white bishop on a dark square; the defender near the corner
        gen::put(p, ref::SQ(1, 5), 'P');
        strong.erase(strong.find('p'), 1);
        if (weak.find('p') != std::string::npos || c.chance(2, 3)) { gen::put(p, ref::SQ(1, 6), 'p'); if (weak.find('p') != std::string::npos) weak.erase(weak.find('p'), 1); }
        if (c.chance(1, 3)) { gen::put(p, ref::SQ(2, 6), 'P'); if (strong.find('p') != std::string::npos) strong.erase(strong.find('p'), 1); }
        static const int defSq[8] = {56, 57, 58, 59, 51, 50, 48, 60}; // a8 b8 c8 d8 d7 c7 a7 e8
        int ks = defSq[c.pick(8)];
        if (p.b[ks] != '.') ks = 59;
        gen::put(p, ks, 'k');
        strong.erase(strong.find('b'), 1);
        for (int t = 0; t < 20; t++) {
            int s = gen::emptySquare(c, p);
            bool dark = ((ref::X(s) + ref::Y(s)) & 1) == 0;
            if (dark == c.chance(5, 6)) { gen::put(p, s, 'B'); break; }
        }
        if (p.count('B') == 0) putRandom('B');
        putRandom('K');
    } else {
        putRandom('K');
        if (shape == 2 && c.chance(2, 3)) {
            static const int nearCorner[12] = {0, 1, 8, 9, 6, 7, 14, 15, 48, 56, 57, 63};
            int s = nearCorner[c.pick(12)];
            if (c.flip()) s = 63 - s;
            gen::put(p, p.b[s] == '.' ? s : gen::emptySquare(c, p), 'k');
        } else putRandom('k');
    }
    for (char m : strong) {
        if (m == 'p' && shape == 2 && c.chance(2, 3)) {
            int s = ref::SQ(c.flip() ? 0 : 7, c.range(1, 6));
            if (p.b[s] == '.') { gen::put(p, s, 'P'); continue; }
        }
        putRandom(ref::upper(m));
    }
    for (char m : weak) {
        if (m == 'p' && shape == 2 && c.chance(1, 2)) {
            int s = ref::SQ(c.flip() ? 0 : 7, c.range(1, 6));
            if (p.b[s] == '.') { gen::put(p, s, 'p'); continue; }
        }
        putRandom(m);
    }
    p.wtm = c.flip();
    if (c.flip()) p = mirrorLR(p);
    if (c.flip()) p = flipColors(p);
    p.hmc = c.chance(1, 4) ? c.range(0, 110) : 0;
    p.fmc = 1 + p.hmc / 2;
    out.ok = gen::finalize(p);
    return out;
}

// compact material label for the class histogram, e.g. "KRP-KR"
std::string materialLabel(const ref::Pos& p) {
    static const char order[5] = {'q', 'r', 'b', 'n', 'p'};
    std::string w = "K", b = "K";
    for (char o : order) { w.append((size_t)p.count(ref::upper(o)), ref::upper(o)); b.append((size_t)p.count(o), ref::upper(o)); }
    if (w.size() < b.size() || (w.size() == b.size() && w < b)) std::swap(w, b);
    return w + "-" + b;
}

// ---- seq: command sequences -----------------------------------------------------------------------------------
enum Kind { MAKE, UNMAKE, UNMAKE_ALL, NULLMV, EDIT, EVAL, EVAL2, NNRAW, ASSIGN, MOVE_ASSIGN, RECONNECT1, RECONNECT2, FENRT, CONTEMPT, POLLUTE, RESET, RESET_MOVE, CLOCK };
struct EditStep { int sq; char pc; };   // set square sq to pc ('.' = empty)
struct Op {
    Kind k;
    ref::Move m;
    std::vector<EditStep> ed;
    int a = 0, b = 0; // CONTEMPT: a = value; POLLUTE: a = corpus offset, b = count; CLOCK: a = new half-move clock
};

std::string opStr(const Op& o) {
    switch (o.k) {
    case MAKE: return "m:" + o.m.uci();
    case UNMAKE: return "u";
    case UNMAKE_ALL: return "U";
    case NULLMV: return "null";
    case EDIT: { std::string s = "edit:"; for (auto& e : o.ed) { if (s.size() > 5) s += ','; s += ref::sqName(e.sq); s += e.pc; } return s; }
    case EVAL: return "e";
    case EVAL2: return "ee";
    case NNRAW: return "n";
    case ASSIGN: return "assign";
    case MOVE_ASSIGN: return "moveassign";
    case RECONNECT1: return "reconnect1";
    case RECONNECT2: return "reconnect2";
    case FENRT: return "fen";
    case RESET: return "reset";
    case RESET_MOVE: return "resetmove";
    case CONTEMPT: return "c:" + std::to_string(o.a);
    case POLLUTE: return "pollute:" + std::to_string(o.a) + ":" + std::to_string(o.b);
    case CLOCK: return "hmc:" + std::to_string(o.a);
    }
    return "?";
}
bool opParse(const std::string& s, Op& o) {
    o = Op();
    o.k = UNMAKE;
    if (s.rfind("m:", 0) == 0) { o.k = MAKE; o.m = ref::Move::fromUci(s.substr(2)); return o.m.valid(); }
    if (s.rfind("c:", 0) == 0) { o.k = CONTEMPT; o.a = atoi(s.c_str() + 2); return true; }
    if (s.rfind("hmc:", 0) == 0) { o.k = CLOCK; o.a = atoi(s.c_str() + 4); return o.a >= 0 && o.a <= 200; }
    if (s.rfind("pollute:", 0) == 0) { o.k = POLLUTE; return sscanf(s.c_str() + 8, "%d:%d", &o.a, &o.b) == 2 && o.a >= 0 && o.b >= 0; }
    if (s.rfind("edit:", 0) == 0) {
        o.k = EDIT;
        size_t i = 5;
        while (i + 3 <= s.size()) {
            int sq = ref::sqFromName(s, i);
            if (sq < 0) return false;
            o.ed.push_back({sq, s[i + 2]});
            i += 3;
            if (i < s.size() && s[i] == ',') i++;
        }
        return !o.ed.empty();
    }
    static const std::pair<const char*, Kind> t[] = {{"u", UNMAKE}, {"U", UNMAKE_ALL}, {"null", NULLMV}, {"e", EVAL}, {"ee", EVAL2}, {"n", NNRAW},
        {"assign", ASSIGN}, {"moveassign", MOVE_ASSIGN}, {"reconnect1", RECONNECT1}, {"reconnect2", RECONNECT2}, {"fen", FENRT}, {"reset", RESET}, {"resetmove", RESET_MOVE}};
    for (auto& e : t) if (s == e.first) { o.k = e.second; return true; }
    return false;
}

struct Case { std::string fen; int contempt = 0; std::vector<Op> ops; };

Value caseJson(const Case& c, size_t nOps = (size_t)-1) {
    Value k = Value::object();
    k["net"] = g_net;
    k["fen"] = c.fen;
    k["contempt"] = c.contempt;
    std::vector<std::string> v;
    for (size_t i = 0; i < c.ops.size() && i < nOps; i++) v.push_back(opStr(c.ops[i]));
    k["ops"] = Value::arrayOf(v);
    return k;
}

// model: refchess position + undo stack (moves, null moves and edits are all undoable)
struct ModelEntry { ref::Pos before; int kind; ref::Move m; std::vector<EditStep> undo; }; // kind 0 move, 1 null, 2 edit
struct Model {
    ref::Pos p;
    std::vector<ModelEntry> stack;
    bool lastWasNull() const { return !stack.empty() && stack.back().kind == 1; }
    bool nullAllowed() const { return !lastWasNull() && !ref::inCheck(p); }
    void make(const ref::Move& m) { stack.push_back({p, 0, m, {}}); p = ref::make(p, m); }
    void null() { stack.push_back({p, 1, ref::Move(), {}}); p.wtm = !p.wtm; p.ep = -1; p.hmc = 0; }
    // applies the edit steps; returns false (model unchanged) if they are not applicable / leave an unacceptable position
    bool edit(const std::vector<EditStep>& ed) {
        if (p.ep >= 0 || ed.empty()) return false;
        ref::Pos q = p;
        std::vector<EditStep> undo;
        for (auto& e : ed) {
            if (e.sq < 0 || e.sq > 63) return false;
            char old = q.b[e.sq];
            if (ref::lower(old) == 'k' || ref::lower(e.pc) == 'k') return false;
            if ((e.sq == 0 && q.cQ) || (e.sq == 7 && q.cK) || (e.sq == 56 && q.cq) || (e.sq == 63 && q.ck)) return false;
            if (ref::lower(e.pc) == 'p' && (ref::Y(e.sq) == 0 || ref::Y(e.sq) == 7)) return false;
            if (e.pc != '.' && old != '.') return false;  // a step either empties an occupied square or fills an empty one
            if (e.pc == '.' && old == '.') return false;
            if (e.pc != '.' && !strchr("QRBNPqrbnp", e.pc)) return false;
            undo.push_back({e.sq, old});
            q.b[e.sq] = e.pc;
        }
        // material stays a subset of what the case started from piece-wise: only removals and relocations are generated;
        // a hand-written replay file may add men, so bound the counts the engine's tables are sized for
        if (q.men() > 32) return false;
        for (int w = 0; w < 2; w++) {
            auto cnt = [&](char x) { return q.count(w ? ref::upper(x) : x); };
            int extra = std::max(0, cnt('q') - 1) + std::max(0, cnt('r') - 2) + std::max(0, cnt('b') - 2) + std::max(0, cnt('n') - 2);
            if (cnt('p') + extra > 8) return false;
        }
        if (ref::inCheck(q, !q.wtm)) return false;
        std::reverse(undo.begin(), undo.end());
        stack.push_back({p, 2, ref::Move(), undo});
        p = q;
        return true;
    }
    void clock(int h) { stack.push_back({p, 3, ref::Move(), {}}); p.hmc = h; }
    void unmake() { p = stack.back().before; stack.pop_back(); }
};

const int MAX_DEPTH = 190;      // NNEvaluator keeps MAX_SEARCH_DEPTH*2 = 200 stack entries (assert); the search never exceeds 100 plies
const int CORPUS = 8192;

bool isSpecial(const ref::Pos& b, const ref::Move& m) {
    if (ref::isEp(b, m) || ref::isCastle(b, m)) return true;
    if (m.promo && ref::isCapture(b, m)) return true;
    if (ref::lower(b.b[m.from]) == 'k') return true;
    return false;
}

ref::Move pickPromoRace(Choices& c, const ref::Pos& p, const std::vector<ref::Move>& lm, const std::vector<ref::Pos>& hist) {
    std::vector<ref::Move> q, pr;
    for (auto& m : lm) if (m.promo) { pr.push_back(m); if (m.promo == 'q') q.push_back(m); }
    if (!q.empty() && c.chance(7, 8)) return q[c.pick((int)q.size())];
    if (!pr.empty() && c.chance(1, 2)) return pr[c.pick((int)pr.size())];
    return gen::pickMove(c, p, lm, gen::PAWNS, hist);
}

int pickContempt(Choices& c) {
    int r = c.pick(8);
    if (r < 2) return 0;
    if (r < 4) return c.flip() ? c.range(1, 20) : -c.range(1, 20);
    return c.range(-200, 200);
}

// generated edit: removals and relocations of non-king men (never a rook that still carries a castling right)
std::vector<EditStep> genEdit(Choices& c, const ref::Pos& p) {
    std::vector<EditStep> ed;
    ref::Pos q = p;
    int n = c.chance(1, 2) ? c.range(3, 8) : c.range(1, 3);
    for (int i = 0; i < n; i++) {
        std::vector<int> men;
        for (int s = 0; s < 64; s++) {
            if (q.b[s] == '.' || ref::lower(q.b[s]) == 'k') continue;
            if ((s == 0 && q.cQ) || (s == 7 && q.cK) || (s == 56 && q.cq) || (s == 63 && q.ck)) continue;
            men.push_back(s);
        }
        if (men.empty()) break;
        int s = men[c.pick((int)men.size())];
        char pc = q.b[s];
        ed.push_back({s, '.'}); q.b[s] = '.';
        if (c.chance(3, 4)) { // relocate
            int t = ref::lower(pc) == 'p' ? gen::emptySquare(c, q, 1, 6) : gen::emptySquare(c, q);
            if (t >= 0 && t != s) { ed.push_back({t, pc}); q.b[t] = pc; }
        }
    }
    return ed;
}

Case decodeSeq(Choices& c, bool promoRace, int maxSteps, int maxPollute) {
    Case k;
    int profile;
    if (promoRace) { k.fen = PAWN_RACE; profile = gen::PAWNS; }
    else {
        profile = c.pick(gen::NPROFILES);
        int src = c.pick(10);
        if (src < 2) { gen::Placed pl = gen::place(c); k.fen = pl.ok ? ref::toFEN(pl.p) : gen::seedFens()[0]; }
        else if (src < 3) { gen::Placed pl = egPlace(c); k.fen = pl.ok ? ref::toFEN(pl.p) : gen::seedFens()[0]; }
        else if (src < 6) k.fen = gen::seedFens()[0];
        else k.fen = c.of(gen::seedFens());
    }
    k.contempt = pickContempt(c);
    Model md;
    ref::fromFEN(k.fen, md.p);
    ref::normalizeEp(md.p);
    std::vector<ref::Pos> hist{md.p};
    int steps = c.range(0, maxSteps);
    int evalPct = 20 + 20 * c.pick(4);   // how often an evaluation follows a command: 20..80 %
    const int makeW = promoRace ? 68 : 52;
    auto push = [&](Kind kd) -> Op& { k.ops.push_back(Op()); k.ops.back().k = kd; return k.ops.back(); };
    auto maybeEval = [&]() {
        if (c.pick(100) >= evalPct) return;
        int r = c.pick(10);
        push(r < 5 ? EVAL : r < 7 ? NNRAW : r < 9 ? EVAL2 : EVAL);
        if (r == 9) push(NNRAW);
    };
    push(EVAL);
    for (int i = 0; i < steps && !c.empty(); i++) {
        int r = c.pick(100);
        if (r < makeW) {
            if ((int)md.stack.size() >= MAX_DEPTH) continue;
            std::vector<ref::Move> lm = ref::legalMoves(md.p);
            if (lm.empty()) {
                if (!md.stack.empty()) { push(UNMAKE); md.unmake(); hist.pop_back(); }
                continue;
            }
            if (i % 16 == 15 && !promoRace && c.chance(1, 3)) profile = c.pick(gen::NPROFILES);
            ref::Move m;
            std::vector<ref::Move> sp;
            if (!promoRace) for (auto& x : lm) if (isSpecial(md.p, x)) sp.push_back(x);
            if (!sp.empty() && c.chance(1, 3)) m = sp[c.pick((int)sp.size())];
            else m = promoRace ? pickPromoRace(c, md.p, lm, hist) : gen::pickMove(c, md.p, lm, profile, hist);
            push(MAKE).m = m; md.make(m); hist.push_back(md.p);
        } else if (r < makeW + 12) {
            if (md.stack.empty()) continue;
            push(UNMAKE); md.unmake(); hist.pop_back();
        } else if (r < makeW + 15) {           // forced take-back segment, evaluating on the way
            int n = c.range(1, 12);
            for (int j = 0; j < n && !md.stack.empty(); j++) { push(UNMAKE); md.unmake(); hist.pop_back(); if (c.chance(1, 2)) push(EVAL); }
        } else if (r < makeW + 16) {
            if (md.stack.empty() || promoRace) continue;
            push(UNMAKE_ALL);
            while (!md.stack.empty()) { md.unmake(); hist.pop_back(); }
        } else if (r < makeW + 21) {
            if (!md.nullAllowed() || (int)md.stack.size() >= MAX_DEPTH) continue;
            push(NULLMV); md.null(); hist.push_back(md.p);
        } else if (r < makeW + 27) {
            if ((int)md.stack.size() >= MAX_DEPTH) continue;
            std::vector<EditStep> ed = genEdit(c, md.p);
            if (!md.edit(ed)) continue;
            push(EDIT).ed = ed; hist.push_back(md.p);
        } else if (r < makeW + 30) push(ASSIGN);
        else if (r < makeW + 32) push(MOVE_ASSIGN);
        else if (r < makeW + 34) push(RECONNECT1);
        else if (r < makeW + 36) push(RECONNECT2);
        else if (r < makeW + 37) { push(FENRT); ref::normalizeEp(md.p); hist.back() = md.p; }
        else if (r < makeW + 38) {     // a different position is assigned into the connected one: back to the start, history gone
            if (md.stack.empty()) continue;
            push(c.flip() ? RESET : RESET_MOVE);
            while (!md.stack.empty()) md.unmake();
            hist.resize(1);
        }
        else if (r < makeW + 41 && (int)md.stack.size() < MAX_DEPTH && c.chance(1, 2)) {
            // the same men with another half-move clock: the evaluation scales with clock/10 when pawns are present and the
            // evaluation hash is keyed by Position::historyHash(), which folds the clock in the same steps
            int w = c.pick(6);
            int h = w == 0 ? c.range(0, 110) : w == 1 ? std::min(110, md.p.hmc + 1) : w == 2 ? std::max(0, md.p.hmc - 1)
                  : w == 3 ? 10 * c.range(1, 10) - 1 : w == 4 ? 10 * c.range(0, 10) : 10 * c.range(0, 10) + c.range(0, 9);
            push(EVAL);
            push(CLOCK).a = h; md.clock(h); hist.push_back(md.p);
            push(EVAL);
            continue;
        }
        else if (r < makeW + 42) {
            Op& o = push(CONTEMPT);
            int w = c.pick(4);
            o.a = w == 0 ? -k.contempt : w == 1 ? 0 : w == 2 ? k.contempt : pickContempt(c);
            push(EVAL);
            continue;
        } else {
            Op& o = push(POLLUTE);
            o.a = c.pick(CORPUS);
            int w = c.pick(200);
            o.b = w == 0 ? maxPollute : w < 5 ? std::min(maxPollute, c.range(500, 2000)) : c.range(1, 60);
        }
        maybeEval();
    }
    push(EVAL);
    return k;
}

// deterministic corpus of "other positions" for cache pollution (a constant of the harness, not of the run)
std::vector<Position>& corpus() {
    static std::vector<Position> v;
    if (!v.empty()) return v;
    uint64_t s = 0x243F6A8885A308D3ULL;
    while ((int)v.size() < CORPUS) {
        std::vector<uint32_t> raw(900);
        for (auto& x : raw) { s = vh::mix(s); x = (uint32_t)(s >> 20) & 0x3fffffff; }
        Choices ch(raw);
        int kind = ch.pick(8);
        if (kind < 2) {
            std::string st = PAWN_RACE;
            gen::Game g = gen::game(ch, 160, &st, gen::PAWNS);
            for (size_t i = 0; i < g.pos.size() && (int)v.size() < CORPUS; i++) v.push_back(tx::toTexel(g.pos[i]));
        } else if (kind < 5) {
            gen::Game g = gen::game(ch, 200);
            for (size_t i = 0; i < g.pos.size() && (int)v.size() < CORPUS; i++) v.push_back(tx::toTexel(g.pos[i]));
        } else {
            for (int i = 0; i < 60 && (int)v.size() < CORPUS && !ch.empty(); i++) {
                gen::Placed pl = (i & 1) ? egPlace(ch) : gen::place(ch);
                if (pl.ok) v.push_back(tx::toTexel(pl.p));
            }
        }
    }
    return v;
}

// hook state for seq
struct SeqHook { bool seen = false, cached = false; int score = 0, contempt = 0; };
SeqHook g_seqHook;
void seqHookFn(const Position&, int score, int whiteContempt, bool cached) {
    if (g_inOracle) return;
    g_seqHook.seen = true; g_seqHook.cached = cached; g_seqHook.score = score; g_seqHook.contempt = whiteContempt;
}

int texelPiece(char c) { return tx::pieceCode(c); }

struct Entry { int kind; Move m; UndoInfo ui; Square nullEp; int nullHmc; std::vector<EditStep> undo; };

struct SeqRunner {
    vh::Stats& st;
    explicit SeqRunner(vh::Stats& s) : st(s) {}

    struct Flags {
        bool kingMoveEval = false, overflow = false, deepEval = false, underflow = false, castle = false, capPromo = false, ep = false,
             nullEval = false, cacheHit = false, reset = false, pollute = false, bigPollute = false, contemptSwitch = false, kingCross = false, edit = false, sixQueens = false, clockEdit = false;
    } f;

    void run(const std::string& sub, const Case& k) {
        st.evaluations++;
        f = Flags();
        Value kj = caseJson(k);
        vh::setCurrent(sub, kj);
        Model md;
        if (!ref::fromFEN(k.fen, md.p) || !ref::sane(md.p)) vh::fail(caseJson(k, 0), "case does not start from a legal position");
        ref::normalizeEp(md.p);
        std::unique_ptr<Position> pos(new Position(TextIO::readFEN(k.fen)));
        const Position start(*pos);
        auto et = Evaluate::getEvalHashTables();     // evaluator under test: fresh caches per case, so that a case is self-contained
        Evaluate ev(*et);
        NNEvaluator& nn = *et->nnEval;
        ev.connectPosition(*pos);
        int contempt = k.contempt;
        ev.setWhiteContempt(contempt);
        verif::evalHook = seqHookFn;
        std::vector<Entry> stack;
        bool kingMovedSinceEval = false, kingCrossedSinceEval = false, nullSinceEval = false;
        long nEval = 0;
        auto bad = [&](size_t i, const std::string& msg) {
            verif::evalHook = nullptr;
            g_stream.abortBlock();
            vh::fail(caseJson(k, i + 1), "after command " + std::to_string(i) + " (" + (i < k.ops.size() ? opStr(k.ops[i]) : "end") + "): " + msg +
                     "  [position " + fenOf(*pos) + ", contempt " + std::to_string(contempt) + ", depth " + std::to_string(stack.size()) +
                     ", nn stack " + std::to_string(NNTest::stackTop(nn)) + "]");
        };
        auto unmakeOne = [&]() {
            Entry en = stack.back(); stack.pop_back();
            if (en.kind == 1) {   // inverse of the null-move edit, in search.cpp's order
                pos->setEpSquare(en.nullEp);
                pos->setWhiteMove(!pos->isWhiteMove());
                pos->setHalfMoveClock(en.nullHmc);
            } else if (en.kind == 2) {
                for (auto& e : en.undo) pos->setPiece(Square(e.sq), texelPiece(e.pc));
            } else if (en.kind == 3) {
                pos->setHalfMoveClock(en.nullHmc);
            } else {
                if (NNTest::stackTop(nn) == 0) f.underflow = true;
                pos->unMakeMove(en.m, en.ui);
            }
            md.unmake();
        };
        auto noteEvalContext = [&]() {
            if (kingMovedSinceEval) f.kingMoveEval = true;
            if (kingCrossedSinceEval) f.kingCross = true;
            if (nullSinceEval) f.nullEval = true;
            if (NNTest::stackTop(nn) >= 8) f.deepEval = true;
            kingMovedSinceEval = kingCrossedSinceEval = nullSinceEval = false;
        };
        for (size_t i = 0; i < k.ops.size(); i++) {
            const Op& op = k.ops[i];
            switch (op.k) {
            case MAKE: {
                if ((int)stack.size() >= MAX_DEPTH + 8) vh::fail(caseJson(k, i + 1), "case exceeds the evaluator's stack bound");
                if (!ref::isLegal(md.p, op.m)) vh::fail(caseJson(k, i + 1), "case lists an illegal move " + op.m.uci());
                const ref::Pos& b = md.p;
                if (ref::isEp(b, op.m)) f.ep = true;
                if (ref::isCastle(b, op.m)) f.castle = true;
                if (op.m.promo && ref::isCapture(b, op.m)) f.capPromo = true;
                if (ref::lower(b.b[op.m.from]) == 'k') {
                    kingMovedSinceEval = true;
                    if ((ref::X(op.m.from) >= 4) != (ref::X(op.m.to) >= 4)) kingCrossedSinceEval = true;
                }
                bool v0 = NNTest::valid(nn, 0), v1 = NNTest::valid(nn, 1);
                Entry en; en.kind = 0; en.m = tx::toTexel(op.m, b.wtm); en.nullHmc = 0;
                pos->makeMove(en.m, en.ui);
                if ((v0 && !NNTest::valid(nn, 0)) || (v1 && !NNTest::valid(nn, 1))) f.overflow = true;
                stack.push_back(en);
                md.make(op.m);
                st.count("steps:make");
                break;
            }
            case UNMAKE:
                if (stack.empty()) vh::fail(caseJson(k, i + 1), "case unmakes at depth 0");
                unmakeOne();
                st.count("steps:unmake");
                break;
            case UNMAKE_ALL:
                while (!stack.empty()) unmakeOne();
                st.count("steps:unmake");
                break;
            case NULLMV: {
                if (!md.nullAllowed()) vh::fail(caseJson(k, i + 1), "case lists a null move where the search would not make one");
                Entry en; en.kind = 1; en.ui = UndoInfo{0, 0, Square(-1), 0};
                pos->setWhiteMove(!pos->isWhiteMove());          // exactly the statement sequence of Search::negaScout
                en.nullEp = pos->getEpSquare();
                pos->setEpSquare(Square(-1));
                en.nullHmc = pos->getHalfMoveClock();
                pos->setHalfMoveClock(0);
                stack.push_back(en);
                md.null();
                nullSinceEval = true;
                st.count("steps:null-move");
                break;
            }
            case EDIT: {
                bool v0 = NNTest::valid(nn, 0), v1 = NNTest::valid(nn, 1);
                if (!md.edit(op.ed)) vh::fail(caseJson(k, i + 1), "case lists an edit that is not applicable here");
                Entry en; en.kind = 2; en.undo = md.stack.back().undo; en.nullHmc = 0;
                for (auto& e : op.ed) pos->setPiece(Square(e.sq), texelPiece(e.pc));
                if ((v0 && !NNTest::valid(nn, 0)) || (v1 && !NNTest::valid(nn, 1))) f.overflow = true;
                stack.push_back(en);
                f.edit = true;
                st.count("steps:edit");
                break;
            }
            case CLOCK: {   // the half-move clock is set directly (as TextIO::readFEN and the null-move code do); undoable
                Entry en; en.kind = 3; en.nullHmc = pos->getHalfMoveClock();
                pos->setHalfMoveClock(op.a);
                stack.push_back(en);
                md.clock(op.a);
                f.clockEdit = true;
                st.count("steps:clock-edit");
                break;
            }
            case EVAL: case EVAL2: {
                noteEvalContext();
                g_seqHook = SeqHook();
                int v = ev.evalPos();
                nEval++;
                if (!g_seqHook.seen) bad(i, "Evaluate::evalPos did not report its result to the verification hook");
                if (g_seqHook.score != v || g_seqHook.contempt != contempt) bad(i, "hook reported (" + std::to_string(g_seqHook.score) + ", contempt " + std::to_string(g_seqHook.contempt) + ") but evalPos returned " + std::to_string(v));
                bool hit = g_seqHook.cached;
                if (hit) f.cacheHit = true;
                std::string oerr;
                int o = g_oracle->checked(*pos, contempt, nEval == 1, oerr);
                if (!oerr.empty()) bad(i, "oracle paths disagree: " + oerr);
                if (v != o) {
                    int w = g_oracle->fresh(*pos, contempt);
                    bad(i, "evalPos() = " + std::to_string(v) + (hit ? " (from the evaluation hash)" : " (computed)") + " but a from-scratch evaluation of a copy gives " +
                           std::to_string(o) + " (newly constructed EvalHashTables+Evaluate: " + std::to_string(w) + ")");
                }
                g_stream.val(v, *pos, contempt, "evalPos");
                if (op.k == EVAL2) {
                    g_seqHook = SeqHook();
                    int v2 = ev.evalPos();
                    if (v2 != v) bad(i, "second evalPos() = " + std::to_string(v2) + ", first " + std::to_string(v));
                    if (g_seqHook.cached) f.cacheHit = true;
                    g_stream.val(v2, *pos, contempt, "evalPos-again");
                }
                st.count("evaluations compared");
                break;
            }
            case NNRAW: {
                noteEvalContext();
                int v = nn.eval();
                signed char a[2 * NetData::n1], b[2 * NetData::n1];
                for (int j = 0; j < N_L1; j++) a[j] = (signed char)nn.getL1OutClipped(j);
                int o = g_oracle->nn(*pos, b);
                for (int j = 0; j < N_L1; j++)
                    if (a[j] != b[j]) bad(i, "first-layer output " + std::to_string(j) + " of the incrementally maintained network is " + std::to_string((int)a[j]) +
                                              ", rebuilt from scratch " + std::to_string((int)b[j]));
                if (v != o) bad(i, "NNEvaluator::eval() = " + std::to_string(v) + " incrementally, " + std::to_string(o) + " from scratch");
                g_stream.val(v, *pos, contempt, "nn");
                st.count("network evaluations compared");
                break;
            }
            case ASSIGN: {
                Position tmp(*pos);
                *pos = tmp;                 // assignment into the connected position: the evaluator must forget its stack
                st.count("steps:assign");
                break;
            }
            case MOVE_ASSIGN: {
                Position tmp(*pos);
                *pos = std::move(tmp);
                st.count("steps:assign");
                break;
            }
            case RECONNECT1: {
                std::unique_ptr<Position> n(new Position(*pos));
                ev.connectPosition(*n);
                pos = std::move(n);        // the previous (now disconnected) position is destroyed
                st.count("steps:reconnect");
                break;
            }
            case RECONNECT2: {
                std::unique_ptr<Position> n(new Position(*pos));
                pos.reset();               // destroying the connected position disconnects the evaluator
                pos = std::move(n);
                ev.connectPosition(*pos);
                st.count("steps:reconnect");
                break;
            }
            case FENRT: {
                *pos = TextIO::readFEN(TextIO::toFEN(*pos));
                ref::normalizeEp(md.p);
                st.count("steps:fen-assign");
                break;
            }
            case RESET: case RESET_MOVE: {
                if (op.k == RESET) *pos = start;
                else { Position tmp(start); *pos = std::move(tmp); }
                while (!md.stack.empty()) md.unmake();
                stack.clear();
                f.reset = true;
                st.count("steps:assign-other-position");
                break;
            }
            case CONTEMPT:
                if (op.a < -2000 || op.a > 2000) vh::fail(caseJson(k, i + 1), "contempt outside the UCI option's range");
                if (op.a != contempt) f.contemptSwitch = true;
                contempt = op.a;
                ev.setWhiteContempt(contempt);
                st.count("steps:contempt");
                break;
            case POLLUTE: {
                // the same evaluator is pointed at many other positions (as successive searches do with the
                // engine's single EvalHashTables), with this and other contempt settings, then reconnected
                std::vector<Position>& cp = corpus();
                int n = std::min(op.b, 20000);
                for (int j = 0; j < n; j++) {
                    const Position& q = cp[(size_t)(op.a + j) % cp.size()];
                    int cc = (j & 3) == 0 ? contempt : (j & 3) == 1 ? -contempt : (j & 3) == 2 ? 0 : contempt + 1 + (j >> 2) % 5;
                    ev.connectPosition(q);
                    ev.setWhiteContempt(cc);
                    int v = ev.evalPos();
                    if (n <= 64 || j % 16 == 0) {
                        int o = g_oracle->value(q, cc);
                        if (v != o) {
                            ev.connectPosition(*pos);
                            bad(i, "while polluting: evalPos() of " + fenOf(q) + " with contempt " + std::to_string(cc) + " = " + std::to_string(v) + ", from scratch " + std::to_string(o));
                        }
                    }
                    g_stream.val(v, q, cc, "pollute");
                }
                ev.setWhiteContempt(contempt);
                ev.connectPosition(*pos);
                f.pollute = true;
                if (n >= 1000) f.bigPollute = true;
                st.count("steps:pollute");
                st.count("pollution evaluations", n);
                break;
            }
            }
            if (md.p.count('Q') >= 6 || md.p.count('q') >= 6) f.sixQueens = true;
        }
        // the model and the engine's position must still agree (guards the harness itself)
        {
            std::string d = tx::diff(*pos, md.p, 0);
            if (!d.empty()) bad(k.ops.size(), "harness model and Position disagree: " + d);
        }
        // take everything back, evaluating at every depth
        while (!stack.empty()) {
            unmakeOne();
            int v = ev.evalPos();
            int o = g_oracle->value(*pos, contempt);
            if (v != o) bad(k.ops.size(), "while taking everything back (depth " + std::to_string(stack.size()) + "): evalPos() = " + std::to_string(v) + ", from scratch " + std::to_string(o));
            g_stream.val(v, *pos, contempt, "unwind");
        }
        verif::evalHook = nullptr;
        vh::clearCurrent();
        g_stream.endBlock(sub, kj);
        auto mk = [&]() { return kj; };
        if (f.kingMoveEval) st.clsSample("king move before an evaluation", mk);
        if (f.kingCross) st.clsSample("king crossed the d/e-file boundary before an evaluation", mk);
        if (f.overflow) st.clsSample(">4 pending feature changes (overflow to full refresh)", mk);
        if (f.deepEval) st.clsSample("evaluation at network stack depth >= 8", mk);
        if (f.underflow) st.clsSample("take-back with empty network stack (after assignment/reconnect)", mk);
        if (f.castle) st.cls("castling made");
        if (f.capPromo) st.cls("capture-promotion made");
        if (f.ep) st.cls("e.p. capture made");
        if (f.nullEval) st.cls("evaluation after a null-move edit");
        if (f.cacheHit) st.cls("evaluation answered from the evaluation hash");
        if (f.pollute) st.cls("cache pollution through the same evaluator");
        if (f.bigPollute) st.clsSample("pollution with >= 1000 other positions", mk);
        if (f.contemptSwitch) st.cls("contempt changed with shared caches");
        if (f.edit) st.cls("direct setPiece edit of the connected position");
        if (f.clockEdit) st.cls("same men evaluated under several half-move clocks");
        if (f.reset) st.cls("another position assigned into the connected one");
        if (f.sixQueens) st.cls(">=6 queens of one colour");
        bool nt = f.kingMoveEval || f.overflow || f.deepEval;
        if (nt) st.nt(vj::dump(kj)); else st.cls("plain sequence");
        st.count("steps:total", (long)k.ops.size());
    }
};

Case seqFromJson(const Value& k) {
    Case c;
    c.fen = k.getStr("fen");
    c.contempt = (int)k.getInt("contempt", 0);
    for (auto& s : k.strs("ops")) { Op o; if (!opParse(s, o)) vh::fail(k, "replay file: unknown command " + s); c.ops.push_back(o); }
    return c;
}

// ---- sym: colour flip and left/right mirror -------------------------------------------------------------------
struct SymCase { std::string fen; int contempt = 0; std::string origin; };
Value symJson(const SymCase& s) {
    Value k = Value::object();
    k["net"] = g_net; k["fen"] = s.fen; k["contempt"] = s.contempt; k["origin"] = s.origin;
    return k;
}

bool decodeSym(Choices& c, SymCase& out) {
    int src = c.pick(10);
    ref::Pos p;
    if (src < 4) { gen::Placed pl = egPlace(c); if (!pl.ok) return false; p = pl.p; out.origin = "endgame material"; }
    else if (src < 5) { gen::Placed pl = gen::place(c, c.flip() ? gen::T_ENDGAME : gen::T_SPARSE); if (!pl.ok) return false; p = pl.p; out.origin = "sparse placement"; }
    else if (src < 7) { gen::Placed pl = gen::place(c); if (!pl.ok) return false; p = pl.p; out.origin = gen::tmplName(pl.tmpl); }
    else {
        gen::Game g = gen::game(c, 200);
        p = g.pos[(size_t)c.pick((int)g.pos.size())];
        out.origin = "game";
    }
    ref::normalizeEp(p);
    out.fen = ref::toFEN(p);
    out.contempt = pickContempt(c);
    return true;
}

void runSym(const std::string& sub, const SymCase& s, vh::Stats& st) {
    st.evaluations++;
    Value kj = symJson(s);
    vh::setCurrent(sub, kj);
    ref::Pos p;
    if (!ref::fromFEN(s.fen, p) || !ref::sane(p)) vh::fail(kj, "case is not a legal position");
    auto val = [&](const ref::Pos& q, int contempt, const char* kind) {
        Position t = tx::toTexel(q);
        int v = g_oracle->value(t, contempt);
        g_stream.val(v, t, contempt, kind);
        return v;
    };
    auto bad = [&](const std::string& msg) { g_stream.abortBlock(); vh::fail(kj, msg); };
    const int c = s.contempt;
    Position tp = tx::toTexel(p);
    const bool eg = EndGameEval::endGameEval<false>(tp, 0) != 0;
    int a = val(p, c, "P");
    {
        std::string oerr;
        int a2 = g_oracle->checked(tp, c, (st.evaluations & 7) == 0, oerr);
        if (!oerr.empty()) bad("oracle paths disagree: " + oerr);
        if (a2 != a) bad("evaluating the same position twice gives " + std::to_string(a) + " and " + std::to_string(a2));
    }
    ref::Pos fp = flipColors(p);
    int b = val(fp, -c, "flip(P)");
    if (a != b) bad("eval(P, contempt " + std::to_string(c) + ") = " + std::to_string(a) + " but eval(flip(P), " + std::to_string(-c) + ") = " + std::to_string(b) +
                    "  [P = " + s.fen + ", flip(P) = " + ref::toFEN(fp) + "]");
    ref::Pos q = p;
    bool stripped = q.cK || q.cQ || q.ck || q.cq;
    q.cK = q.cQ = q.ck = q.cq = false;
    int qa = stripped ? val(q, c, "P without rights") : a;
    ref::Pos mq = mirrorLR(q);
    int m = val(mq, c, "mirror(P)");
    if (m != qa) bad("eval(P) = " + std::to_string(qa) + " but eval(mirrorLR(P)) = " + std::to_string(m) + " (contempt " + std::to_string(c) +
                     ")  [P = " + ref::toFEN(q) + ", mirrorLR(P) = " + ref::toFEN(mq) + "]");
    ref::Pos fmq = flipColors(mq);
    int fm = val(fmq, -c, "flip(mirror(P))");
    if (fm != qa) bad("eval(P, " + std::to_string(c) + ") = " + std::to_string(qa) + " but eval(flip(mirrorLR(P)), " + std::to_string(-c) + ") = " + std::to_string(fm) +
                      "  [P = " + ref::toFEN(q) + ", image = " + ref::toFEN(fmq) + "]");
    vh::clearCurrent();
    g_stream.endBlock(sub, kj);
    st.count("symmetry relations checked", 3);
    if (eg) {
        st.clsSample("symmetry on end-game-rule material", [&]() { return kj; });
        std::string lab = p.men() <= 5 ? materialLabel(p) : p.men() <= 8 ? "6-8 men" : ">8 men";
        st.count("eg:" + lab);
        st.nt(s.fen + "|" + std::to_string(c));
    } else st.cls("symmetry on ordinary material");
    if (c != 0) st.cls("symmetry with contempt != 0");
    if (p.hmc >= 40) st.cls("symmetry with half-move clock >= 40");
}

// ---- search: every evaluation of real searches --------------------------------------------------------------
struct OneSearch { int depth = 1; int nodes = 500; int contempt = 0; bool play = true; };
struct SearchCase { std::string fen; std::vector<OneSearch> s; };
Value searchJson(const SearchCase& k) {
    Value v = Value::object();
    v["net"] = g_net; v["fen"] = k.fen;
    Value a = Value::array();
    for (auto& o : k.s) { Value e = Value::object(); e["depth"] = o.depth; e["nodes"] = o.nodes; e["contempt"] = o.contempt; e["play"] = o.play; a.push(e); }
    v["searches"] = a;
    return v;
}
SearchCase searchFromJson(const Value& v) {
    SearchCase k;
    k.fen = v.getStr("fen");
    for (auto& e : v.at("searches").a) {
        OneSearch o; o.depth = (int)e.getInt("depth", 1); o.nodes = (int)e.getInt("nodes", 500); o.contempt = (int)e.getInt("contempt", 0); o.play = e.getBool("play", true);
        k.s.push_back(o);
    }
    return k;
}

bool decodeSearch(Choices& c, SearchCase& k, int maxNodes) {
    int src = c.pick(10);
    ref::Pos p;
    if (src < 2) { gen::Placed pl = egPlace(c); if (!pl.ok) return false; p = pl.p; }
    else if (src < 4) { gen::Placed pl = gen::place(c); if (!pl.ok) return false; p = pl.p; }
    else if (src < 5) { std::string st = PAWN_RACE; gen::Game g = gen::game(c, 60, &st, gen::PAWNS); p = g.pos.back(); }
    else { gen::Game g = gen::game(c, 120); p = g.pos.back(); }
    ref::normalizeEp(p);
    k.fen = ref::toFEN(p);
    int n = c.range(1, 3);
    int contempt = pickContempt(c);
    for (int i = 0; i < n; i++) {
        OneSearch o;
        o.depth = c.range(2, 8);
        o.nodes = c.range(300, maxNodes);
        if (i > 0 && c.chance(1, 2)) { int w = c.pick(3); contempt = w == 0 ? -contempt : w == 1 ? pickContempt(c) : 0; }
        o.contempt = contempt;
        o.play = c.chance(3, 4);
        k.s.push_back(o);
    }
    return true;
}

struct SearchHook {
    NNEvaluator* nn = nullptr;
    long n = 0, cached = 0, deep = 0;
    bool failed = false;
    std::string msg;
    int expectContempt = 0;
};
SearchHook g_sh;
void searchHookFn(const Position& pos, int score, int whiteContempt, bool cached) {
    if (g_inOracle) return;
    g_sh.n++;
    if (cached) g_sh.cached++;
    if (g_sh.nn && NNTest::stackTop(*g_sh.nn) >= 8) g_sh.deep++;
    g_stream.val(score, pos, whiteContempt, cached ? "search-cached" : "search");
    if (g_sh.failed) return;
    if (whiteContempt != g_sh.expectContempt) {
        g_sh.failed = true;
        g_sh.msg = "evaluation inside the search used contempt " + std::to_string(whiteContempt) + " although the search was given " + std::to_string(g_sh.expectContempt);
        return;
    }
    std::string oerr;
    int o = g_oracle->checked(pos, whiteContempt, false, oerr);
    if (!oerr.empty()) { g_sh.failed = true; g_sh.msg = "oracle paths disagree at " + fenOf(pos) + ": " + oerr; return; }
    if (o != score) {
        int w = g_oracle->fresh(pos, whiteContempt);
        g_sh.failed = true;
        g_sh.msg = "evaluation #" + std::to_string(g_sh.n) + " inside the search: evalPos() = " + std::to_string(score) + (cached ? " (from the evaluation hash)" : " (computed)") +
                   " for " + fenOf(pos) + " with contempt " + std::to_string(whiteContempt) + ", from scratch " + std::to_string(o) +
                   " (newly constructed EvalHashTables+Evaluate: " + std::to_string(w) + "), network stack depth " + std::to_string(g_sh.nn ? NNTest::stackTop(*g_sh.nn) : -1);
    }
}

long long g_fakeClock = 0;
long long fakeClockFn() { return g_fakeClock += 100000; } // 0.1 ms per query: deterministic, no wall clock inside a case

void runSearch(const std::string& sub, const SearchCase& k, vh::Stats& st) {
    st.evaluations++;
    Value kj = searchJson(k);
    vh::setCurrent(sub, kj);
    ref::Pos rp;
    if (!ref::fromFEN(k.fen, rp) || !ref::sane(rp)) vh::fail(kj, "case is not a legal position");
    g_fakeClock = 0;
    verif::clockNanosHook = fakeClockFn;
    long total = 0, cachedTotal = 0, deepTotal = 0;
    bool contemptSwitch = false;
    std::string failure;
    {
        // everything the engine keeps between searches, fresh per case (a case is self-contained and deterministic)
        auto et = Evaluate::getEvalHashTables();
        TranspositionTable tt(1 << 14);
        Notifier notifier;
        ThreadCommunicator comm(nullptr, tt, notifier, false);
        KillerTable kt;
        History ht;
        Search::SearchTables stb(comm.getCTT(), kt, ht, *et);
        TreeLogger treeLog;
        std::vector<U64> hist(SearchConst::MAX_SEARCH_DEPTH * 2 + 16);
        Position pos = TextIO::readFEN(k.fen);
        for (size_t i = 0; i < k.s.size() && failure.empty(); i++) {
            const OneSearch& o = k.s[i];
            if (o.depth < 1 || o.depth > 12 || o.nodes < 1 || o.nodes > 200000 || o.contempt < -2000 || o.contempt > 2000) vh::fail(kj, "replay file: search limits outside the harness domain");
            if (i > 0 && o.contempt != k.s[i - 1].contempt) contemptSwitch = true;
            MoveList moves;
            MoveGen::pseudoLegalMoves(pos, moves);
            MoveGen::removeIllegal(pos, moves);
            if (moves.size == 0) break;
            tt.nextGeneration();
            Move best;
            {
                Search sc(pos, hist, 0, stb, comm, treeLog);
                sc.timeLimit(-1, -1);
                sc.setWhiteContempt(o.contempt);
                sc.scoreMoveList(moves, 0);
                g_sh = SearchHook();
                g_sh.nn = et->nnEval.get();
                g_sh.expectContempt = o.contempt;
                verif::evalHook = searchHookFn;
                best = sc.iterativeDeepening(moves, o.depth, o.nodes, 1, false, 100);
                verif::evalHook = nullptr;
            }
            total += g_sh.n; cachedTotal += g_sh.cached; deepTotal += g_sh.deep;
            if (g_sh.failed) failure = "search " + std::to_string(i) + " (depth " + std::to_string(o.depth) + ", nodes " + std::to_string(o.nodes) + "): " + g_sh.msg;
            if (o.play && !best.isEmpty()) {
                UndoInfo ui;
                pos.makeMove(best, ui);
                TextIO::fixupEPSquare(pos);
            }
        }
    }
    verif::clockNanosHook = nullptr;
    if (!failure.empty()) { g_stream.abortBlock(); vh::fail(kj, failure); }
    vh::clearCurrent();
    g_stream.endBlock(sub, kj);
    st.count("in-search evaluations compared", total);
    st.count("in-search evaluations from the evaluation hash", cachedTotal);
    st.count("in-search evaluations at network stack depth >= 8", deepTotal);
    if (cachedTotal > 0) st.cls("search with evaluation-hash hits");
    if (deepTotal > 0) st.clsSample("search evaluating at network stack depth >= 8", [&]() { return kj; });
    if (contemptSwitch) st.clsSample("consecutive searches with different contempt on shared tables", [&]() { return kj; });
    if (k.s.size() > 1) st.cls("several searches on shared tables");
    if (total >= 50 && (deepTotal > 0 || cachedTotal > 0)) st.nt(vj::dump(kj)); else st.cls("small search");
}

// ---- cross-variant replay helpers -------------------------------------------------------------------------
std::string selfPath() {
    char buf[4096];
    ssize_t n = readlink("/proc/self/exe", buf, sizeof buf - 1);
    return n > 0 ? std::string(buf, (size_t)n) : std::string();
}
// .../build/<variant>/bin/c07 -> .../build
std::string buildRoot() {
    std::string p = selfPath();
    for (int i = 0; i < 3; i++) { size_t k = p.rfind('/'); if (k == std::string::npos) return ""; p.resize(k); }
    return p;
}
std::string netFile(const std::string& net) {
    const char* cur = getenv("TEXEL_VERIF_NET");
    std::string dir;
    if (cur && *cur) { dir = cur; size_t k = dir.rfind('/'); dir = k == std::string::npos ? "." : dir.substr(0, k); }
    else dir = buildRoot() + "/nets";
    return dir + "/" + net + ".net";
}
std::string shellQuote(const std::string& s) { std::string r = "'"; for (char ch : s) { if (ch == '\'') r += "'\\''"; else r += ch; } return r + "'"; }
bool runCapture(const std::string& cmd, std::string& out) {
    FILE* p = popen(cmd.c_str(), "r");
    if (!p) return false;
    char buf[4096];
    size_t n;
    while ((n = fread(buf, 1, sizeof buf, p)) > 0) out.append(buf, n);
    int rc = pclose(p);
    return rc != -1 && WIFEXITED(rc);
}
std::string readAll(const std::string& fn) {
    std::string s;
    FILE* f = fopen(fn.c_str(), "rb");
    if (!f) return s;
    char buf[65536];
    size_t n;
    while ((n = fread(buf, 1, sizeof buf, f)) > 0) s.append(buf, n);
    fclose(f);
    return s;
}

// replay of a cross-variant finding: the named build variants must print the same value(s)
void replayXv(const std::string& sub, const Value& k) {
    std::string root = buildRoot();
    std::string net = netFile(k.getStr("net"));
    std::vector<std::string> variants = k.strs("variants");
    if (variants.size() < 2) vh::fail(k, "replay file names fewer than two variants");
    std::vector<std::string> outs;
    for (auto& v : variants) {
        std::string bin = root + "/" + v + "/bin/c07";
        if (access(bin.c_str(), X_OK) != 0) { printf("INCONCLUSIVE: variant %s is not built here (%s)\n", v.c_str(), bin.c_str()); return; }
        std::string out;
        if (sub == "xv") {
            std::string cmd = "TEXEL_VERIF_NET=" + shellQuote(net) + " " + shellQuote(bin) + " --evalfen " + shellQuote(k.getStr("fen")) + " --contempt " + std::to_string(k.getInt("contempt", 0)) + " 2>&1";
            if (!runCapture(cmd, out)) vh::fail(k, "cannot run " + bin);
        } else {
            char tmpl[] = "/tmp/c07-xv-XXXXXX";
            char* d = mkdtemp(tmpl);
            if (!d) vh::fail(k, "cannot create a scratch directory");
            std::string dir = d, cf = dir + "/case.json", sf = dir + "/stream.bin";
            Value r = Value::object();
            r["property"] = "C07"; r["sub"] = k.getStr("inner_sub"); r["message"] = "inner case of a cross-variant finding"; r["case"] = k.at("inner");
            vj::writeFile(cf, r);
            std::string cmd = "TEXEL_VERIF_NET=" + shellQuote(net) + " " + shellQuote(bin) + " --prop C07 --replay " + shellQuote(cf) + " --stream " + shellQuote(sf) + " 2>&1";
            std::string log;
            bool ok = runCapture(cmd, log);
            out = readAll(sf);
            if (system(("rm -rf " + shellQuote(dir)).c_str())) {}
            if (!ok) vh::fail(k, "cannot run " + bin);
            if (log.find("REPLAY-FAIL") != std::string::npos) vh::fail(k, "variant " + v + " fails the inner case by itself: " + log.substr(0, 600));
        }
        outs.push_back(out);
    }
    for (size_t i = 1; i < outs.size(); i++)
        if (outs[i] != outs[0])
            vh::fail(k, "variants " + variants[0] + " and " + variants[i] + " disagree: " + (sub == "xv" ? ("'" + outs[0].substr(0, 120) + "' vs '" + outs[i].substr(0, 120) + "'") : std::string("value streams of the case differ")));
}

} // namespace

int main(int argc, char** argv) {
    vh::Args a = vh::parseArgs(argc, argv);
    // a replay file names its network; the network is loaded once per process by a static initialiser
    if (!a.replay.empty()) {
        try {
            Value r = vj::parseFile(a.replay);
            std::string want = r.at("case").getStr("net");
            std::string sub = r.getStr("sub");
            const char* cur = getenv("TEXEL_VERIF_NET");
            if (!want.empty() && sub != "xv" && sub != "xv-case") {
                std::string wf = netFile(want);
                if (!cur || wf != cur) {
                    if (getenv("C07_REEXEC")) { fprintf(stderr, "c07: cannot switch to network %s\n", wf.c_str()); return 2; }
                    if (access(wf.c_str(), R_OK) != 0) { fprintf(stderr, "c07: network file %s does not exist\n", wf.c_str()); return 2; }
                    setenv("TEXEL_VERIF_NET", wf.c_str(), 1);
                    setenv("C07_REEXEC", "1", 1);
                    execv(selfPath().c_str(), argv);
                    perror("execv");
                    return 2;
                }
            }
        } catch (const std::exception& e) { fprintf(stderr, "c07: cannot read replay file: %s\n", e.what()); return 2; }
    }
    vh::installDeathHooks();
    vh::Stats& st = vh::ctx().stats;
    {
        const char* nf = getenv("TEXEL_VERIF_NET");
        if (nf && *nf) { std::string s = nf; size_t k = s.rfind('/'); if (k != std::string::npos) s = s.substr(k + 1); if (s.size() > 4 && s.substr(s.size() - 4) == ".net") s.resize(s.size() - 4); g_net = s; }
    }
    std::cout.setstate(std::ios_base::badbit);   // Evaluate::evalPosPrint() writes its break-down to std::cout
    ComputerPlayer::initEngine();
    if (::pieceValue[Piece::WPAWN] != (int)pV || (int)pV <= 0) { fprintf(stderr, "c07: piece values not initialised; no verdict\n"); return 2; }
    bool xvReplay = false;
    if (!a.replay.empty()) { try { std::string s = vj::parseFile(a.replay).getStr("sub"); xvReplay = s == "xv" || s == "xv-case"; } catch (...) {} }
    if (!xvReplay) {
        try { g_oracle = new Oracle(); }
        catch (const std::exception& e) { fprintf(stderr, "c07: cannot construct an evaluator (TEXEL_VERIF_NET missing or unreadable?): %s\n", e.what()); return 2; }
    }
    if (a.kv.count("evalfen")) {
        Position p = TextIO::readFEN(a.str("evalfen"));
        int c = (int)a.num("contempt", 0);
        signed char l1[2 * NetData::n1];
        int nnv = g_oracle->nn(p, l1);
        uint64_t h = 1469598103934665603ULL;
        for (int i = 0; i < N_L1; i++) { h ^= (unsigned char)l1[i]; h *= 1099511628211ULL; }
        printf("VALUE evalPos=%d fresh=%d nn=%d l1=%016llx\n", g_oracle->value(p, c), g_oracle->fresh(p, c), nnv, (unsigned long long)h);
        return 0;
    }
    if (a.kv.count("stream")) {
        g_stream.f = fopen(a.str("stream").c_str(), "wb");
        if (!g_stream.f) { fprintf(stderr, "c07: cannot write %s\n", a.str("stream").c_str()); return 2; }
        fwrite("C07S", 4, 1, g_stream.f);
    }
    if (a.kv.count("trace-block")) { g_stream.traceBlock = a.num("trace-block", -1); g_stream.traceOut = a.str("trace-out", "/dev/null"); }
    SeqRunner rn(st);
    if (!a.replay.empty()) {
        int rc = vh::runReplay([&](const std::string& sub, const Value& k) {
            if (sub == "xv" || sub == "xv-case") replayXv(sub, k);
            else if (sub == "seq" || sub == "promo") rn.run(sub, seqFromJson(k));
            else if (sub == "sym") { SymCase s; s.fen = k.getStr("fen"); s.contempt = (int)k.getInt("contempt", 0); s.origin = k.getStr("origin"); runSym(sub, s, st); }
            else if (sub == "search") runSearch(sub, searchFromJson(k), st);
            else vh::fail(k, "replay file: unknown sub-property " + sub);
        });
        if (g_stream.f) fclose(g_stream.f);
        return rc;
    }
    const long n = a.cases;
    const int maxSteps = (int)a.num("steps", 220);
    const long nSeq = a.num("seq", n), nPromo = a.num("promo", n / 5), nSym = a.num("sym", n * 4), nSearch = a.num("search", n / 4);
    const int maxNodes = (int)a.num("nodes", 3000);
    const int maxPollute = (int)a.num("max-pollute", 10000);
    vh::ctx().shrinkBudget = a.num("shrink-budget", 300);
    corpus();
    vh::runProp("seq", nSeq, 10.0, [&](Choices& c) { rn.run("seq", decodeSeq(c, false, maxSteps, maxPollute)); });
    vh::runProp("promo", nPromo, 10.0, [&](Choices& c) { rn.run("promo", decodeSeq(c, true, maxSteps, maxPollute)); });
    vh::runProp("sym", nSym, 2.0, [&](Choices& c) {
        SymCase s;
        if (!decodeSym(c, s)) { st.discarded++; return; }
        runSym("sym", s, st);
    });
    vh::runProp("search", nSearch, 4.0, [&](Choices& c) {
        SearchCase k;
        if (!decodeSearch(c, k, maxNodes)) { st.discarded++; return; }
        runSearch("search", k, st);
    });
    if (g_stream.f) { fclose(g_stream.f); g_stream.f = nullptr; }
    st.count("oracle evaluations (evalPosPrint on a rebuilt evaluator)", g_oracle->calls);
    st.count("oracle evaluations (newly constructed EvalHashTables+Evaluate)", g_oracle->freshCalls);
    st.count("stream values", g_stream.total);
    return vh::finish();
}
