// C19  Book-builder graph scores stay at their defined fixed point.
// SUT: BookBuild::Book / BookNode (lib/texelutillib/bookbuild.{hpp,cpp}) driven through the protocol of the real
// caller Book::extendBook: addPosToBook -> for every hash in toSearch {getPosition, getMovesToSearch, addPending,
// queue}; later, in commit order, removePending + setSearchResult(bestMove in movesToSearch, score, time) (or only
// removePending when the scheduler is aborting); Book::addToBook with a GameTree parsed from PGN text (import path);
// writeToFile/readFromFile (also of the incremental backup file).  No search is ever run: results are injected
// through the same entry points the commit loop uses.
// Oracle: after every step a from-scratch evaluator over an independent model (refchess positions, links = the
// legal-move relation between book positions): BFS depth, negamax and expansion costs children-first in a
// topological order, path errors parents-first; every node of the book is compared field by field.
// See DESIGN.md §3 C19 and notes/C19.md.
#include "common/vh.hpp"
#include "common/tx.hpp"
#include "bookbuild.hpp"
#include "gametree.hpp"
#include <algorithm>
#include <climits>
#include <iostream>
#include <sstream>
#include <unordered_map>

using vh::Value;
using vh::Choices;
using BookBuild::Book;
using BookBuild::BookNode;
using BookBuild::BookData;
using BookBuild::IGNORE_SCORE;
using BookBuild::INVALID_SCORE;

// The test friend declared in bookbuild.hpp: access to the private entry points extendBook() uses.
class BookBuildTest {
public:
    static BookNode* node(const Book& b, U64 h) { return b.getBookNode(h); }
    static size_t size(const Book& b) { return b.bookNodes.size(); }
    static const BookData& data(const Book& b) { return b.bookData; }
    static void addPosToBook(Book& b, Position& pos, const Move& m, std::vector<U64>& ts) { b.addPosToBook(pos, m, ts); }
    static bool getPosition(const Book& b, U64 h, Position& pos, std::vector<Move>& ml) { return b.getPosition(h, pos, ml); }
    static std::vector<Move> getMovesToSearch(Book& b, Position& pos) { return b.getMovesToSearch(pos); }
    static void addPending(Book& b, U64 h) { b.addPending(h); }
    static void removePending(Book& b, U64 h) { b.removePending(h); }
    static void writeBackup(Book& b, const BookNode& n) { b.writeBackup(n); }
    static U64 startHash(const Book& b) { return b.startPosHash; }
    static std::vector<U64> hashes(const Book& b) { std::vector<U64> v; for (auto& e : b.bookNodes) v.push_back(e.first); std::sort(v.begin(), v.end()); return v; }
};
using T = BookBuildTest;

namespace {

const int MATE0 = SearchConst::MATE0;

// ---- the reference model --------------------------------------------------------------------------
struct Succ { ref::Move m; std::string key; };
struct MNode {
    ref::Pos pos; std::string key, path; Position tpos; U64 hash = 0;
    std::vector<Succ> succ; bool inCheck = false;
    int score = INVALID_SCORE; ref::Move best; long time = 0;
};

// Identity of a book position (Position::bookHash documents: hash "including halfMoveClock, to avoid opening book
// cycles"; the clock is capped at 100 there).  The e.p. square is the one makeMove records (refchess keeps the same notion).
std::string keyOf(const ref::Pos& p) {
    return ref::boardStr(p) + (p.wtm ? " w " : " b ") + ref::castleStr(p) + " " + (p.ep >= 0 ? ref::sqName(p.ep) : "-") + " " + std::to_string(std::min(p.hmc, 100));
}

struct Eval {
    std::vector<std::vector<std::pair<int, int>>> ch, pa; // (index into succ / into the parent's succ, node)
    std::vector<int> depth, nm, ecw, ecb, pew, peb, topo;
    bool cyclic = false;
};

int negate(int s) { // "negate a score for a child node to produce the corresponding score for the parent node"
    if (s == IGNORE_SCORE || s == INVALID_SCORE) return s;
    if (s > MATE0 / 2) return -(s - 1);   // a win for the child side is a loss one ply later
    if (s < -(MATE0 / 2)) return -(s + 1);
    return -s;
}

struct Model {
    std::vector<MNode> n;
    std::unordered_map<std::string, int> byKey;
    std::set<int> pending;
    int kDepth = 100, kOwn = 200, kOther = 50;

    int find(const std::string& key) const { auto it = byKey.find(key); return it == byKey.end() ? -1 : it->second; }
    int add(const ref::Pos& p, const Position& tp, const std::string& path) {
        MNode x; x.pos = p; x.key = keyOf(p); x.tpos = tp; x.hash = tp.bookHash(); x.path = path;
        x.inCheck = ref::inCheck(p);
        for (auto& m : ref::legalMoves(p)) x.succ.push_back(Succ{m, keyOf(ref::make(p, m))});
        n.push_back(x);
        byKey[x.key] = (int)n.size() - 1;
        return (int)n.size() - 1;
    }
    int succIdx(int i, const ref::Move& m) const { for (size_t k = 0; k < n[i].succ.size(); k++) if (n[i].succ[k].m == m) return (int)k; return -1; }
    int childVia(int i, const ref::Move& m) const { int k = succIdx(i, m); return k < 0 ? -1 : find(n[i].succ[k].key); }

    Eval evaluate() const {
        Eval e; int N = (int)n.size();
        e.ch.resize(N); e.pa.resize(N);
        for (int i = 0; i < N; i++) for (size_t k = 0; k < n[i].succ.size(); k++) {
            int j = find(n[i].succ[k].key);
            if (j >= 0) { e.ch[i].push_back({(int)k, j}); e.pa[j].push_back({(int)k, i}); }
        }
        // depth = shortest distance from the root (node 0)
        e.depth.assign(N, INT_MAX);
        std::vector<int> q{0}; e.depth[0] = 0;
        for (size_t h = 0; h < q.size(); h++) for (auto& c : e.ch[q[h]]) if (e.depth[c.second] == INT_MAX) { e.depth[c.second] = e.depth[q[h]] + 1; q.push_back(c.second); }
        // topological order, parents first
        std::vector<int> indeg(N);
        for (int i = 0; i < N; i++) indeg[i] = (int)e.pa[i].size();
        for (int i = 0; i < N; i++) if (!indeg[i]) e.topo.push_back(i);
        for (size_t h = 0; h < e.topo.size(); h++) for (auto& c : e.ch[e.topo[h]]) if (--indeg[c.second] == 0) e.topo.push_back(c.second);
        if ((int)e.topo.size() != N) { e.cyclic = true; return e; }
        e.nm.assign(N, INVALID_SCORE); e.ecw = e.ecb = e.pew = e.peb = e.nm;
        for (int t = N - 1; t >= 0; t--) { // children first
            int i = e.topo[t];
            const MNode& x = n[i];
            int covering = x.best.valid() ? childVia(i, x.best) : -1;
            // negamax
            int s = x.score, v;
            if (s == INVALID_SCORE) v = INVALID_SCORE;
            else {
                v = s;
                if (covering >= 0 && e.nm[covering] != INVALID_SCORE) v = IGNORE_SCORE; // a child node holds the information about that move
                for (auto& c : e.ch[i]) v = std::max(v, negate(e.nm[c.second]));
            }
            e.nm[i] = v;
            // expansion cost, once per book colour
            bool wtm = e.depth[i] % 2 == 0;
            for (int white = 1; white >= 0; white--) {
                std::vector<int>& ec = white ? e.ecw : e.ecb;
                int k = (wtm == (bool)white) ? kOwn : kOther;
                int cost = IGNORE_SCORE;
                if (!pending.count(i)) {                       // choices that are being searched are ignored
                    if (s == INVALID_SCORE) cost = INVALID_SCORE;
                    else if (s != IGNORE_SCORE) cost = covering >= 0 ? -10000 /* "bestNonBookMove is obsoleted by a child node" */ : (v - s) * k;
                }
                for (auto& c : e.ch[i]) if (ec[c.second] == INVALID_SCORE) cost = INVALID_SCORE;
                if (cost != INVALID_SCORE)
                    for (auto& c : e.ch[i]) {
                        int cc = ec[c.second];
                        if (cc == IGNORE_SCORE) continue;
                        int moveError = v == INVALID_SCORE ? 1000 : v - negate(e.nm[c.second]);
                        int alt = cc + kDepth + moveError * k;
                        if (cost == IGNORE_SCORE || alt < cost) cost = alt;
                    }
                ec[i] = cost;
            }
        }
        for (int t = 0; t < N; t++) { // parents first
            int i = e.topo[t];
            if (i == 0) { e.pew[i] = e.peb[i] = 0; continue; }
            int bw = INT_MAX, bb = INT_MAX;
            for (auto& p : e.pa[i]) {
                int j = p.second;
                if (e.pew[j] == INVALID_SCORE || e.peb[j] == INVALID_SCORE) continue;
                if (e.nm[i] == INVALID_SCORE || e.nm[j] == INVALID_SCORE) continue;
                int delta = e.nm[j] - negate(e.nm[i]);
                int w = e.pew[j], b = e.peb[j];
                if (e.depth[i] % 2 != 0) w += delta; else b += delta; // the move into an odd-depth node was white's
                bw = std::min(bw, w); bb = std::min(bb, b);
            }
            if (bw == INT_MAX || bb == INT_MAX) bw = bb = INVALID_SCORE;
            e.pew[i] = bw; e.peb[i] = bb;
        }
        return e;
    }
};

std::string scoreStr(int s) { return s == INVALID_SCORE ? "INVALID" : s == IGNORE_SCORE ? "IGNORE" : s == INT_MAX ? "INT_MAX" : std::to_string(s); }

// ---- one work unit of the (emulated) search scheduler -------------------------------------------------
struct Unit { int node; std::vector<ref::Move> mts; bool aborted = false; };

struct Mismatch { int node; std::string field, text; bool pathErrOnly; };

struct NullBuf : std::streambuf { int overflow(int c) override { return c; } };
bool gLastFailPathErrOnly = false;   // the most recent oracle failure consisted of path-error differences only

struct Session {
    std::string sub;
    vh::Stats& st;
    Model m;
    std::unique_ptr<Book> book;
    std::string backupFile, tmpFile, tmpBase; int backupGen = 0;
    std::deque<Unit> queue;
    Eval ev;
    std::string head, opsStr;   // concrete case so far
    int nOps = 0;
    bool tolerateStalePE = false;
    long stalePE = 0;
    std::string staleFirst;
    bool sawMultiParentProp = false, sawBigReload = false;
    std::set<std::string> flags;

    Session(const std::string& sub, vh::Stats& st, int kDepth, int kOwn, int kOther, bool backup, const std::string& tmpBase)
        : sub(sub), st(st) {
        m.kDepth = kDepth; m.kOwn = kOwn; m.kOther = kOther;
        this->tmpBase = tmpBase;
        tmpFile = tmpBase + ".book";
        if (backup) backupFile = tmpBase + ".backup0";
        head = "{\"k\":[" + std::to_string(kDepth) + "," + std::to_string(kOwn) + "," + std::to_string(kOther) + "],\"backup\":" + (backup ? "true" : "false") + ",\"ops\":[";
        announce();
        book.reset(new Book(backupFile, kDepth, kOwn, kOther));
        ref::Pos sp = ref::startPos();
        m.add(sp, TextIO::readFEN(TextIO::startPosFEN), "");
        ev = m.evaluate();
        verify("new book");
    }
    ~Session() { remove((tmpBase + ".backup0").c_str()); remove((tmpBase + ".backup1").c_str()); remove(tmpFile.c_str()); }

    std::string caseJson() const { return head + opsStr + "]}"; }
    Value kase() const { return vj::parse(caseJson()); }
    void announce() { vh::Current& c = vh::current(); c.sub = sub; c.kaseJson = caseJson(); c.active = true; }
    void record(const std::string& opJson) { if (nOps++) opsStr += ","; opsStr += opJson; announce(); }
    [[noreturn]] void fail(const std::string& msg) { vh::fail(kase(), msg); }
    std::string where(int i) const { return "node [" + (m.n[i].path.empty() ? std::string("root") : m.n[i].path) + "] (" + ref::toFEN(m.n[i].pos) + ")"; }

    // ---- comparison of the whole book with the equations -------------------------------------------
    std::vector<Mismatch> compare(size_t limit = 6) {
        std::vector<Mismatch> out;
        auto add = [&](int i, const std::string& f, const std::string& txt, bool pe = false) { if (out.size() < limit) out.push_back(Mismatch{i, f, where(i) + " " + f + ": " + txt, pe}); };
        if (T::size(*book) != m.n.size()) { out.push_back(Mismatch{0, "size", "book holds " + std::to_string(T::size(*book)) + " nodes, " + std::to_string(m.n.size()) + " expected", false}); return out; }
        const BookData& bd = T::data(*book);
        for (size_t i = 0; i < m.n.size() && out.size() < limit; i++) {
            const MNode& x = m.n[i];
            BookNode* bn = T::node(*book, x.hash);
            if (!bn) { add((int)i, "presence", "position is not in the book"); continue; }
            auto cmp = [&](const char* f, int got, int want, bool pe = false) { if (got != want) add((int)i, f, "book " + scoreStr(got) + ", equations give " + scoreStr(want), pe); };
            if (bn->getHashKey() != x.hash) add((int)i, "hashKey", "node stored under another key");
            if (bn->getState() != BookNode::INITIALIZED) add((int)i, "state", "not INITIALIZED");
            cmp("searchScore", bn->getSearchScore(), x.score);
            if ((long)bn->getSearchTime() != x.time) add((int)i, "searchTime", "book " + std::to_string(bn->getSearchTime()) + ", set " + std::to_string(x.time));
            {
                const Move& bm = bn->getBestNonBookMove();
                ref::Move got; if (!bm.isEmpty()) got = tx::toRef(bm);
                if (got != x.best) add((int)i, "bestNonBookMove", "book " + got.uci() + ", set " + x.best.uci());
            }
            if (bd.isPending(x.hash) != (m.pending.count((int)i) > 0)) add((int)i, "pending", "pending mark differs");
            cmp("depth", bn->getDepth(), ev.depth[i]);
            cmp("negaMaxScore", bn->getNegaMaxScore(), ev.nm[i]);
            cmp("expansionCostWhite", bn->getExpansionCostWhite(), ev.ecw[i]);
            cmp("expansionCostBlack", bn->getExpansionCostBlack(), ev.ecb[i]);
            cmp("pathErrorWhite", bn->getPathErrorWhite(), ev.pew[i], true);
            cmp("pathErrorBlack", bn->getPathErrorBlack(), ev.peb[i], true);
            // links: exactly the legal-move relation between book positions, in both directions
            std::set<std::pair<U16, U64>> wantC, gotC, wantP, gotP;
            for (auto& c : ev.ch[i]) wantC.insert({tx::toTexel(x.succ[c.first].m, x.pos.wtm).getCompressedMove(), m.n[c.second].hash});
            for (auto& c : bn->getChildren()) gotC.insert({c.first, c.second ? c.second->getHashKey() : 0});
            if (wantC != gotC) add((int)i, "children", "book links " + std::to_string(gotC.size()) + " children, legal-move relation gives " + std::to_string(wantC.size()) + (wantC.size() == gotC.size() ? " (different moves/targets)" : ""));
            for (auto& p : ev.pa[i]) wantP.insert({tx::toTexel(m.n[p.second].succ[p.first].m, m.n[p.second].pos.wtm).getCompressedMove(), m.n[p.second].hash});
            for (auto& p : bn->getParents()) gotP.insert({p.compressedMove, p.parent ? p.parent->getHashKey() : 0});
            if (wantP != gotP) add((int)i, "parents", "book links " + std::to_string(gotP.size()) + " parents, legal-move relation gives " + std::to_string(wantP.size()) + (wantP.size() == gotP.size() ? " (different moves/sources)" : ""));
            for (auto& c : bn->getChildren()) if (c.second && T::node(*book, c.second->getHashKey()) != c.second) add((int)i, "children", "child pointer does not belong to this book");
        }
        return out;
    }

    // Known-defect discriminator "stale-path-error": every difference is a path error and the book's own
    // BookNode::updateScores() on the affected nodes restores the equations (i.e. code and equations agree, only
    // the propagation skipped these nodes).  Returns true when the book is consistent afterwards.
    bool repairStalePathErrors() {
        for (int round = 0; round < 50; round++) {
            std::vector<Mismatch> mm = compare(100000);
            if (mm.empty()) return true;
            for (auto& x : mm) if (!x.pathErrOnly) return false;
            std::set<int> nodes;
            for (auto& x : mm) nodes.insert(x.node);
            std::vector<int> order(nodes.begin(), nodes.end());
            std::sort(order.begin(), order.end(), [&](int a, int b) { return std::find(ev.topo.begin(), ev.topo.end(), a) < std::find(ev.topo.begin(), ev.topo.end(), b); });
            for (int i : order) T::node(*book, m.n[i].hash)->updateScores(T::data(*book));
        }
        return false;
    }

    void verify(const std::string& after) {
        st.count("book states compared");
        st.count("node comparisons", (long)m.n.size());
        if (ev.cyclic) fail("harness: model graph is cyclic (half-move clock above 100?)");
        std::vector<Mismatch> mm = compare();
        if (mm.empty()) return;
        bool peOnly = true;
        for (auto& x : mm) if (!x.pathErrOnly) peOnly = false;
        std::string msg = "after " + after + ": " + mm[0].text;
        for (size_t k = 1; k < mm.size() && k < 4; k++) msg += "; " + mm[k].text;
        if (peOnly) {
            // work on the live book only when the caller wants to continue past the known defect
            if (tolerateStalePE) {
                if (repairStalePathErrors()) { stalePE++; if (staleFirst.empty()) staleFirst = msg; st.count("known: stale path error (repaired by BookNode::updateScores on the node)"); return; }
                fail(msg + "  [path errors stay wrong even after BookNode::updateScores on the affected nodes]");
            }
        }
        gLastFailPathErrOnly = peOnly;
        fail(msg);
    }

    // ---- protocol steps ------------------------------------------------------------------------------
    // getPosition(hash): must return the position (up to move counters) and a legal path from the start position
    void checkGetPosition(int i, Position& pos) {
        std::vector<Move> ml;
        if (!T::getPosition(*book, m.n[i].hash, pos, ml)) fail("getPosition fails for " + where(i));
        if (pos.bookHash() != m.n[i].hash) fail("getPosition returns a position with another book hash for " + where(i));
        ref::Pos r = ref::startPos();
        for (auto& mv : ml) {
            ref::Move rm = tx::toRef(mv);
            if (!ref::isLegal(r, rm)) fail("getPosition: move list for " + where(i) + " contains the illegal move " + rm.uci());
            r = ref::make(r, rm);
        }
        if (keyOf(r) != m.n[i].key) fail("getPosition: move list for " + where(i) + " leads to " + ref::toFEN(r));
        std::string d = tx::diff(pos, r, 0);
        if (!d.empty()) fail("getPosition: returned position differs from its own move list: " + d);
    }

    void enqueue(int i, const char* why) {
        Position pos;
        checkGetPosition(i, pos);
        std::vector<Move> got = T::getMovesToSearch(*book, pos);
        std::set<ref::Move> gs, want;
        for (auto& g : got) gs.insert(tx::toRef(g));
        const MNode& x = m.n[i];
        for (auto& s : x.succ) {
            int j = m.find(s.key);
            if (j < 0 || (!m.pending.count(j) && ev.nm[j] == INVALID_SCORE)) want.insert(s.m);
        }
        if (gs != want || gs.size() != got.size()) {
            std::string a, b;
            for (auto& g : gs) a += g.uci() + " ";
            for (auto& g : want) b += g.uci() + " ";
            fail(std::string("getMovesToSearch (") + why + ") for " + where(i) + ": book {" + a + "} expected {" + b + "} = legal moves without a book node, or whose node is neither being searched nor scored");
        }
        if (m.pending.count(i)) st.cls("position queued again while already being searched");
        T::addPending(*book, x.hash);
        m.pending.insert(i);
        Unit u; u.node = i; u.mts.assign(want.begin(), want.end());
        queue.push_back(u);
        noteAndVerify(std::string("addPending ") + why);
    }

    void noteAndVerify(const std::string& after, const Eval* before = nullptr) {
        Eval old = before ? *before : ev;
        ev = m.evaluate();
        // classification
        size_t N = std::min(old.nm.size(), ev.nm.size());
        for (size_t i = 0; i < N; i++) if (ev.pa[i].size() >= 2 && (old.nm[i] != ev.nm[i]) && ev.nm[i] != INVALID_SCORE && old.nm[i] != INVALID_SCORE) sawMultiParentProp = true;
        for (size_t i = 0; i < N; i++) if (old.depth[i] != ev.depth[i]) flags.insert("depth of an existing node decreased (new shorter path)");
        verify(after);
    }

    // add position `parent`+move (move legal, successor not yet in the book) and queue everything in toSearch
    bool opAdd(int parent, ref::Move mv) {  // by value: the model vectors grow below
        int k = m.succIdx(parent, mv);
        if (k < 0 || m.find(m.n[parent].succ[k].key) >= 0) return false;
        record("[\"add\",\"" + m.n[parent].path + "\",\"" + mv.uci() + "\"]");
        if (m.n[parent].best.valid() && m.n[parent].best == mv) flags.insert("added move is the parent's best non-book move (stale result covered by a child)");
        Position pos;
        checkGetPosition(parent, pos);
        U64 before = pos.bookHash();
        std::vector<U64> toSearch;
        Move tm = tx::toTexel(mv, m.n[parent].pos.wtm);
        T::addPosToBook(*book, pos, tm, toSearch);
        if (pos.bookHash() != before) fail("addPosToBook did not restore the caller's position");
        Position cp(m.n[parent].tpos);
        UndoInfo ui; cp.makeMove(tm, ui);
        int c = m.add(ref::make(m.n[parent].pos, mv), cp, m.n[parent].path.empty() ? mv.uci() : m.n[parent].path + " " + mv.uci());
        Eval beforeAdd = ev;
        ev = m.evaluate();
        // toSearch = the new position first, then every book position with a legal move into it
        std::multiset<U64> want, got(toSearch.begin(), toSearch.end());
        want.insert(m.n[c].hash);
        for (auto& p : ev.pa[c]) want.insert(m.n[p.second].hash);
        if (toSearch.empty() || toSearch[0] != m.n[c].hash || want != got)
            fail("addPosToBook(" + where(parent) + ", " + mv.uci() + "): toSearch has " + std::to_string(got.size()) + " entries, expected the new position and its " + std::to_string(ev.pa[c].size()) + " parent(s)");
        if (ev.pa[c].size() >= 2) st.cls("new node linked to >= 2 parents (transposition)");
        if (!ev.ch[c].empty()) st.cls("new node linked to existing children");
        for (auto& p : ev.pa[c]) if (ev.depth[p.second] > ev.depth[c]) flags.insert("parent deeper than its child (tempo-losing transposition)");
        noteAndVerify("addPosToBook " + mv.uci(), &beforeAdd);
        for (U64 h : toSearch) {
            int i = -1;
            for (size_t j = 0; j < m.n.size(); j++) if (m.n[j].hash == h) i = (int)j;
            enqueue(i, "after addPosToBook");
        }
        return true;
    }

    bool opResearch(int node) {
        record("[\"search\",\"" + m.n[node].path + "\"]");
        enqueue(node, "selector returned the node without a move");
        return true;
    }

    void opAbort() {
        record("[\"abort\"]");
        for (auto& u : queue) u.aborted = true;
        st.cls("abort with work outstanding");
    }

    // what a search restricted to no move at all reports (SearchRunner::analyze)
    void forcedResult(const Unit& u, int& score) const {
        const MNode& x = m.n[u.node];
        score = x.succ.empty() ? (x.inCheck ? -MATE0 + 1 : 0) : IGNORE_SCORE;
    }

    // commit the oldest unit.  mv must be one of the unit's moves-to-search (or invalid when there are none)
    bool opCommit(ref::Move mv, int score, long time) {
        if (queue.empty()) return false;
        Unit u = queue.front();
        if (!u.aborted) {
            if (u.mts.empty()) { mv = ref::Move(); forcedResult(u, score); }
            else if (std::find(u.mts.begin(), u.mts.end(), mv) == u.mts.end()) return false;
        }
        queue.pop_front();
        record("[\"commit\",\"" + (u.aborted ? std::string("aborted") : mv.uci()) + "\"," + std::to_string(u.aborted ? 0 : score) + "," + std::to_string(u.aborted ? 0 : time) + "]");
        const MNode& x = m.n[u.node];
        T::removePending(*book, x.hash);
        m.pending.erase(u.node);
        noteAndVerify("removePending");
        if (u.aborted) return true;
        Move tm; // empty
        if (mv.valid()) tm = tx::toTexel(mv, x.pos.wtm);
        tm.setScore(score);
        T::node(*book, x.hash)->setSearchResult(T::data(*book), tm, tm.score(), (int)time);
        T::writeBackup(*book, *T::node(*book, x.hash));     // extendBook: setSearchResult is always followed by writeBackup
        m.n[u.node].score = score; m.n[u.node].best = mv; m.n[u.node].time = time;
        if (score == IGNORE_SCORE) st.cls("result: nothing left to search (IGNORE_SCORE)");
        else if (!mv.valid()) st.cls(score == 0 ? "result: stalemate node" : "result: checkmated node");
        else if (score > MATE0 / 2 || score < -MATE0 / 2) st.cls("result: mate score");
        if (mv.valid() && m.childVia(u.node, mv) >= 0) st.cls("result for a move that got a book node while the search ran");
        noteAndVerify("setSearchResult(" + where(u.node) + ", " + mv.uci() + ", " + scoreStr(score) + ")");
        return true;
    }

    // PGN import path: Book::addToBook(maxPly, GameNode, nAdded) with a tree parsed from text
    bool opImport(const std::string& pgn, int maxPly) {
        record("[\"import\",\"" + pgn + "\"," + std::to_string(maxPly) + "]");
        std::istringstream is(pgn);
        PgnReader reader(is);
        GameTree gt;
        if (!reader.readPGN(gt)) fail("PgnReader rejects generated PGN: " + pgn);
        GameNode gn = gt.getRootNode();
        int nAdded = 0;
        book->addToBook(maxPly, gn, nAdded);
        // the model walks the same tree with refchess
        int want = 0;
        std::function<void(int, int)> walk = [&](int ply, int at) {
            if (ply >= maxPly) return;
            for (int c = 0; c < gn.nChildren(); c++) {
                gn.goForward(c);
                ref::Move rm = tx::toRef(gn.getMove());
                int k = m.succIdx(at, rm);
                if (k < 0) fail("import: PGN move " + rm.uci() + " is not legal in " + where(at));
                int j = m.find(m.n[at].succ[k].key);
                if (j < 0) {
                    Position cp(m.n[at].tpos);
                    UndoInfo ui; cp.makeMove(tx::toTexel(rm, m.n[at].pos.wtm), ui);
                    j = m.add(ref::make(m.n[at].pos, rm), cp, m.n[at].path.empty() ? rm.uci() : m.n[at].path + " " + rm.uci());
                    want++;
                }
                walk(ply + 1, j);
                gn.goBack();
            }
        };
        walk(0, 0);
        if (want != nAdded) fail("addToBook reports " + std::to_string(nAdded) + " added positions, the tree contains " + std::to_string(want) + " new ones");
        st.cls("PGN import");
        st.count("positions added by import", want);
        noteAndVerify("addToBook (PGN import of " + std::to_string(want) + " new positions)");
        return true;
    }

    // mode 0: write + read back into the same object; 1: write + read into a fresh Book; 2: fresh Book reads the backup file
    bool opSaveLoad(int mode) {
        if (mode == 2 && backupFile.empty()) mode = 1;
        record("[\"saveload\"," + std::to_string(mode) + "]");
        if (mode != 2) book->writeToFile(tmpFile);
        const std::string& src = mode == 2 ? backupFile : tmpFile;
        if (mode == 0) book->readFromFile(src);
        else {
            // a restarted process: new Book object, which keeps its own backup file when the old one did
            std::string old = backupFile, srcCopy = src;
            std::string nb2 = old.empty() ? std::string() : tmpBase + ".backup" + std::to_string(++backupGen % 2);
            std::unique_ptr<Book> nb(new Book(nb2, m.kDepth, m.kOwn, m.kOther));
            nb->readFromFile(srcCopy);
            book = std::move(nb);
            backupFile = nb2;
        }
        // a restart: nothing is being searched any more, outstanding work is forgotten
        if (!queue.empty()) st.cls("reload with work outstanding");
        queue.clear();
        m.pending.clear();
        st.cls(mode == 2 ? "reload from the incremental backup file" : mode == 1 ? "save + load into a fresh book" : "save + load into the same book");
        if (m.n.size() >= 50) { sawBigReload = true; st.cls("reload with >= 50 nodes"); }
        noteAndVerify(mode == 2 ? "readFromFile(backup file)" : "writeToFile + readFromFile");
        return true;
    }

    int byPath(const std::string& path) const {
        int at = 0;
        std::istringstream is(path); std::string tok;
        while (is >> tok) { at = m.childVia(at, ref::Move::fromUci(tok)); if (at < 0) return -1; }
        return at;
    }

    void finishStats(const std::string& label) {
        bool multi = false;
        for (auto& p : ev.pa) if (p.size() >= 2) multi = true;
        if (multi) st.cls("book with a node that has >= 2 parents");
        if (sawMultiParentProp) st.cls("score update propagated through a node with >= 2 parents");
        for (auto& f : flags) st.cls(f);
        bool pendNonLeaf = false;
        (void)pendNonLeaf;
        bool nt = sawMultiParentProp || sawBigReload;
        auto sample = [&]() { Value v = Value::object(); v["nodes"] = (long)m.n.size(); v["ops"] = (long)nOps; v["case"] = kase(); return v; };
        if (nt) { st.nt(opsStr); st.clsSample("non-trivial sequence", sample); } else st.clsSample("trivial sequence", sample);
        st.count("ops executed", nOps);
        st.count("final book nodes", (long)m.n.size());
        st.cls(m.n.size() < 10 ? "nodes: < 10" : m.n.size() < 50 ? "nodes: 10-49" : m.n.size() < 300 ? "nodes: 50-299" : m.n.size() < 1000 ? "nodes: 300-999" : "nodes: >= 1000");
        st.cls("kind: " + label);
    }
};

// ---- generation ---------------------------------------------------------------------------------------
const char* const seedLines[] = {
    "f2f3 e7e5 g2g4 d8h4",                                                    // fool's mate
    "e2e4 e7e5 d1h5 e8e7 h5e5",                                               // Qxe5#
    "e2e4 e7e5 d1h5 b8c6 f1c4 g8f6 h5f7",                                     // scholar's mate
    "e2e3 a7a5 d1h5 a8a6 h5a5 h7h5 h2h4 a6h6 a5c7 f7f6 c7d7 e8f7 d7b7 d8d3 b7b8 d3h7 b8c8 f7g6 c8e6", // Loyd's stalemate
    "e2e3 e7e6 e3e4 e6e5",                                                    // loses two tempi against e2e4 e7e5
    "e2e4 e7e5",
    "g1f3 g8f6 f3g1 f6g8",                                                    // same placement as the root, clock 4
    "d2d4 d7d5 c1f4 c8f5 e2e3 e7e6",
};

int genScore(Choices& c) {
    switch (c.pick(20)) {
    case 0: case 1: case 2: case 3: case 4: case 5: case 6: case 7: case 8: case 9: return c.range(-40, 40);
    case 10: case 11: case 12: return c.range(-400, 400);
    case 13: return c.flip() ? c.range(1000, 9000) : -c.range(1000, 9000);
    case 14: case 15: return 0;
    case 16: case 17: return MATE0 - c.range(2, 80);
    default: return -(MATE0 - c.range(1, 80));
    }
}

struct GenCfg { int steps = 60; int importMax = 30; int maxNodes = 400; };

std::string sanTreePgn(Choices& c, const Model& m, int budget, unsigned fileMask, int& nodesOut) {
    // a random game tree from the start position as PGN text with variations
    std::string out;
    int count = 0;
    std::function<void(const ref::Pos&, int, int)> line = [&](const ref::Pos& start, int ply, int maxLen) {
        ref::Pos p = start;
        for (int i = 0; i < maxLen && count < budget; i++) {
            std::vector<ref::Move> lm = ref::legalMoves(p);
            if (lm.empty()) return;
            auto pickMove = [&]() {
                std::vector<ref::Move> pool;
                for (auto& mv : lm) if (fileMask & (1u << ref::X(mv.from))) pool.push_back(mv);
                if (!pool.empty() && c.pick(4) != 3) return pool[c.pick((int)pool.size())];
                return lm[c.pick((int)lm.size())];
            };
            ref::Move mv = pickMove();
            int moveNo = p.fmc;
            out += std::to_string(moveNo) + (p.wtm ? ". " : "... ") + ref::san(p, mv, false) + " ";
            count++;
            // variations = alternatives to mv from the same position
            int alts = c.pick(8) == 7 ? 1 + c.pick(2) : (c.pick(5) == 4 ? 1 : 0);
            for (int a = 0; a < alts && count < budget; a++) {
                ref::Move am = pickMove();
                if (am == mv) continue;
                out += "( " + std::to_string(moveNo) + (p.wtm ? ". " : "... ") + ref::san(p, am, false) + " ";
                count++;
                line(ref::make(p, am), ply + 1, c.pick(5));
                out += ") ";
            }
            p = ref::make(p, mv);
            ply++;
        }
    };
    (void)m;
    line(ref::startPos(), 0, 2 + c.pick(14));
    out += "*";
    nodesOut = count;
    return out;
}

void generate(Session& s, Choices& c, const GenCfg& g, vh::Stats& st) {
    Model& m = s.m;
    unsigned fileMask = 0;
    for (int i = 0, k = 2 + c.pick(3); i < k; i++) fileMask |= 1u << (c.pick(3) == 0 ? c.pick(8) : 2 + c.pick(4)); // a few files, centre-biased: makes lines transpose
    int scale = c.pick(8) == 7 ? 4 : 1;   // one sequence in eight is four times as long
    int steps = (g.steps / 3 + c.pick(g.steps + 1)) * scale;
    std::vector<int> seeds; bool seedsInOrder = false;
    { int sm = c.pick(12); const int NS = (int)(sizeof seedLines / sizeof *seedLines);
      if (sm < 2) { seeds.push_back(4); seeds.push_back(5); seedsInOrder = true; } // the slow way to 1.e4 e5 first, then the fast one
      else if (sm < 5) seeds.push_back(c.pick(NS));
      else if (sm < 6) { seeds.push_back(c.pick(NS)); seeds.push_back(c.pick(NS)); } }

    auto freeMoves = [&](int i) { std::vector<ref::Move> v; for (auto& su : m.n[i].succ) if (m.find(su.key) < 0) v.push_back(su.m); return v; };
    auto chooseMove = [&](int i, ref::Move& out) {
        std::vector<ref::Move> fm = freeMoves(i);
        if (fm.empty()) return false;
        std::vector<ref::Move> pool;
        int mode = c.pick(10);
        if (mode < 7) { for (auto& mv : fm) if (fileMask & (1u << ref::X(mv.from))) pool.push_back(mv); }
        else if (mode < 9) { for (auto& mv : fm) if (ref::givesCheck(m.n[i].pos, mv)) pool.push_back(mv); }
        if (pool.empty()) pool = fm;
        out = pool[c.pick((int)pool.size())];
        return true;
    };
    auto doAdd = [&]() {
        int N = (int)m.n.size();
        int mode = c.pick(20);
        if (!seeds.empty() && mode < 4) {     // continue a seed line from its deepest book node
            size_t first = seedsInOrder ? 0 : (size_t)c.pick((int)seeds.size());
            for (size_t si = first; si < seeds.size(); si++) {
                std::istringstream is(seedLines[seeds[si]]); std::string tok; int at = 0;
                while (is >> tok) { int nx = m.childVia(at, ref::Move::fromUci(tok)); if (nx < 0) { if (m.succIdx(at, ref::Move::fromUci(tok)) >= 0) return s.opAdd(at, ref::Move::fromUci(tok)); break; } at = nx; }
            }
        }
        if (mode < 8 && N <= 400) {           // transposition hunt: a successor that several book nodes can reach
            std::map<std::string, std::vector<std::pair<int, int>>> reach;
            for (int i = 0; i < N; i++) for (size_t k = 0; k < m.n[i].succ.size(); k++) if (m.find(m.n[i].succ[k].key) < 0) reach[m.n[i].succ[k].key].push_back({i, (int)k});
            std::vector<std::pair<int, int>> cand;
            for (auto& r : reach) if (r.second.size() >= 2) cand.push_back(r.second[c.pick((int)r.second.size())]);
            if (!cand.empty()) { auto pr = cand[c.pick((int)cand.size())]; return s.opAdd(pr.first, m.n[pr.first].succ[pr.second].m); }
        }
        if (mode == 8 || mode == 9) {         // complete a node that has few legal moves left outside the book
            int bestI = -1; size_t bestFree = 4;
            for (int i = 0; i < N; i++) { size_t f = freeMoves(i).size(); if (f >= 1 && f < bestFree) { bestFree = f; bestI = i; } }
            if (bestI >= 0) { std::vector<ref::Move> fm = freeMoves(bestI); return s.opAdd(bestI, fm[c.pick((int)fm.size())]); }
        }
        if (mode < 13) {                      // the parent's current best non-book move
            std::vector<int> cand;
            for (int i = 0; i < N; i++) if (m.n[i].best.valid() && m.childVia(i, m.n[i].best) < 0) cand.push_back(i);
            if (!cand.empty()) { int i = cand[c.pick((int)cand.size())]; return s.opAdd(i, m.n[i].best); }
        }
        if (mode == 13 || mode == 14) {       // extend below a node that has several parents
            std::vector<int> cand;
            for (int i = 0; i < N && i < (int)s.ev.pa.size(); i++) if (s.ev.pa[i].size() >= 2) cand.push_back(i);
            ref::Move mv;
            if (!cand.empty()) { int i = cand[c.pick((int)cand.size())]; if (chooseMove(i, mv)) return s.opAdd(i, mv); }
        }
        for (int tries = 0; tries < 4; tries++) {
            int i = mode < 17 ? N - 1 - c.pick(std::min(N, 3)) : c.pick(N);
            ref::Move mv;
            if (chooseMove(i, mv)) return s.opAdd(i, mv);
            mode = 19;
        }
        return false;
    };
    auto doCommit = [&]() {
        const Unit& u = s.queue.front();
        ref::Move mv; int score = 0;
        if (!u.mts.empty()) { mv = u.mts[c.pick((int)u.mts.size())]; score = genScore(c); }
        long time = c.pick(10) == 0 ? 0 : 1 + c.pick(200000);
        return s.opCommit(mv, score, time);
    };
    for (int step = 0; step < steps; step++) {
        int N = (int)m.n.size();
        if (s.queue.size() >= 8) { doCommit(); continue; }
        int r = c.pick(100);
        if (r < 40) { if (N < g.maxNodes) doAdd(); else if (!s.queue.empty()) doCommit(); }
        else if (r < 80) { if (!s.queue.empty()) doCommit(); else if (N < g.maxNodes) doAdd(); }
        else if (r < 88) {
            std::vector<int> cand;
            int mode = c.pick(10);
            for (int i = 0; i < N; i++) {
                if (mode < 5 && m.n[i].score == INVALID_SCORE && !m.pending.count(i)) cand.push_back(i);
                if (mode >= 5 && mode < 7 && m.n[i].best.valid() && m.childVia(i, m.n[i].best) >= 0) cand.push_back(i);
                if (mode >= 7 && mode < 9 && i < (int)s.ev.pa.size() && !m.pending.count(i)) {   // a node with several parents, or a child of one
                    bool hit = s.ev.pa[i].size() >= 2;
                    for (auto& p : s.ev.pa[i]) if (s.ev.pa[p.second].size() >= 2) hit = true;
                    if (hit) cand.push_back(i);
                }
            }
            s.opResearch(cand.empty() ? c.pick(N) : cand[c.pick((int)cand.size())]);
        } else if (r < 93) {
            if (N < g.maxNodes) {
                int cnt = 0;
                std::string pgn = sanTreePgn(c, m, 2 + c.pick(g.importMax * scale), fileMask, cnt);
                s.opImport(pgn, c.pick(4) == 0 ? c.pick(8) : 40);
            }
        } else if (r < 98) s.opSaveLoad(c.pick(3));
        else if (!s.queue.empty()) s.opAbort();
    }
    while (!s.queue.empty()) doCommit();
    if (c.pick(3) == 0) s.opSaveLoad(c.pick(3));
    (void)st;
}

// big books: one or two large imports, then a handful of searches and a reload
void generateBig(Session& s, Choices& c, int nodes, vh::Stats& st) {
    Model& m = s.m;
    unsigned fileMask = 0x3c;
    while ((int)m.n.size() < nodes) {
        int cnt = 0;
        std::string pgn = sanTreePgn(c, m, 40 + c.pick(120), fileMask, cnt);
        size_t before = m.n.size();
        s.opImport(pgn, 60);
        if (m.n.size() == before && c.pick(8) == 0) break;
    }
    for (int k = 0, K = 4 + c.pick(8); k < K; k++) {
        int N = (int)m.n.size();
        s.opResearch(c.pick(N));
        const Unit& u = s.queue.front();
        ref::Move mv; int score = 0;
        if (!u.mts.empty()) { mv = u.mts[c.pick((int)u.mts.size())]; score = genScore(c); }
        s.opCommit(mv, score, 1 + c.pick(1000));
    }
    s.opSaveLoad(c.pick(3));
    (void)st;
}

// ---- replay ---------------------------------------------------------------------------------------------
void replay(Session& s, const Value& k) {
    const Value* ops = k.find("ops");
    if (!ops) vh::fail(k, "replay file has no ops");
    for (auto& o : ops->a) {
        const std::string& kind = o.a.at(0).s;
        bool ok = true;
        if (kind == "add") { int p = s.byPath(o.a.at(1).s); ok = p >= 0 && s.opAdd(p, ref::Move::fromUci(o.a.at(2).s)); }
        else if (kind == "search") { int p = s.byPath(o.a.at(1).s); ok = p >= 0 && s.opResearch(p); }
        else if (kind == "abort") s.opAbort();
        else if (kind == "commit") { ref::Move mv; if (o.a.at(1).s != "aborted" && o.a.at(1).s != "0000") mv = ref::Move::fromUci(o.a.at(1).s); ok = s.opCommit(mv, (int)o.a.at(2).num(), (long)o.a.at(3).num()); }
        else if (kind == "import") ok = s.opImport(o.a.at(1).s, (int)o.a.at(2).num());
        else if (kind == "saveload") ok = s.opSaveLoad((int)o.a.at(1).num());
        else ok = false;
        if (!ok) { printf("REPLAY-NOTE: op %s does not follow the protocol in this state (edited file?); stopping here\n", vj::dump(o).c_str()); return; }
    }
}

} // namespace

int main(int argc, char** argv) {
    vh::Args a = vh::parseArgs(argc, argv);
    vh::installDeathHooks();
    vh::Stats& st = vh::ctx().stats;
    vh::ctx().shrinkBudget = a.num("shrink", 400);   // a sequence costs ~0.1 s under ASan
    std::cout.rdbuf(new NullBuf);           // readFromFile prints statistics (never freed: cout is flushed at exit)
    std::string tmpBase = a.str("tmp", "/tmp") + "/c19-" + std::to_string((long)getpid());
    bool tolerate = a.str("tolerate") == "stale-path-error";
    if (!a.replay.empty()) {
        return vh::runReplay([&](const std::string& sub, const Value& k) {
            std::vector<long long> ks = k.ints("k");
            if (ks.size() != 3) ks = {100, 200, 50};
            Session s(sub, st, (int)ks[0], (int)ks[1], (int)ks[2], k.getBool("backup", false), tmpBase);
            s.tolerateStalePE = tolerate;
            replay(s, k);
            vh::clearCurrent();
            if (s.stalePE) printf("REPLAY-NOTE: %ld stale path error state(s) tolerated: %s\n", s.stalePE, s.staleFirst.c_str());
        });
    }
    long known = 0;
    std::string knownMsg;
    auto body = [&](const std::string& sub, bool big) {
        return [&, sub, big](Choices& c) {
            int kd = 100, ko = 200, kt = 50;
            if (c.pick(10) >= 7) { kd = 1 + c.pick(300); ko = 1 + c.pick(300); kt = 1 + c.pick(300); }
            bool backup = c.pick(3) == 0;
            Session s(sub, st, kd, ko, kt, backup, tmpBase);
            s.tolerateStalePE = tolerate;
            st.evaluations++;
            if (big) generateBig(s, c, (int)a.num("bignodes", 300) / 4 + c.pick((int)a.num("bignodes", 300)), st);
            else { GenCfg g; g.steps = (int)a.num("ops", 60); g.importMax = (int)a.num("import", 30); generate(s, c, g, st); }
            s.finishStats(big ? "big import" : "protocol sequence");
            if (s.stalePE) { known += s.stalePE; if (knownMsg.empty()) knownMsg = s.staleFirst; st.cls("sequence that met the known stale-path-error state"); }
            vh::clearCurrent();
        };
    };
    auto run = [&](const std::string& sub, long cases, double scale, bool big) {
        size_t before = vh::ctx().violations.size();
        gLastFailPathErrOnly = false;
        vh::runProp(sub, cases, scale, body(sub, big));
        // the shrunk failing case is the last one that failed: attach the known-finding key when it shows only stale path errors
        if (vh::ctx().violations.size() > before && gLastFailPathErrOnly) vh::ctx().violations.back()["key"] = "stale-path-error";
    };
    run("sequences", a.cases, 14.0, false);
    run("big", a.num("big", 0), (double)a.num("bigscale", 40), true);
    st.count("known: stale path error states tolerated in total", known);
    if (known && !a.num("silent-known", 0)) {
        // one keyed record so that the runner can print KNOWN-FINDING (or VIOLATION if the key is not listed)
        Value v = Value::object();
        v["sub"] = "sequences"; v["replay"] = "/verif/replays/regress/C19-stale-path-error.json"; v["key"] = "stale-path-error";
        v["message"] = std::to_string(known) + " book state(s) with stale path errors (tolerated, search continued): " + knownMsg;
        vh::ctx().violations.push_back(v);
    }
    return vh::finish();
}
