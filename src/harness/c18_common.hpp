// Shared by the C18 rapidcheck harness and the c18_polyglot fuzz target:
// independent polyglot move encoder / entry writer (written from the polyglot
// book format description, not from texel's code), a fixed table of probe
// positions for the fuzz target, per-process scratch directory.
#pragma once
#include "common/refchess.hpp"
#include <cstdint>
#include <cstdio>
#include <cstdlib>
#include <string>
#include <sys/stat.h>
#include <unistd.h>
#include <vector>

namespace pg {

// polyglot move: to-file | to-rank<<3 | from-file<<6 | from-rank<<9 | promotion<<12
// (promotion: none 0, knight 1, bishop 2, rook 3, queen 4); castling is written
// as "king takes own rook" (e1h1, e1a1, e8h8, e8a8).  altCastle writes the
// king's real destination instead (e1g1 ...), which texel also accepts.
inline uint16_t encode(const ref::Pos& p, const ref::Move& m, bool altCastle = false) {
    int to = m.to;
    if (ref::isCastle(p, m) && !altCastle) to = ref::SQ(ref::X(m.to) == 6 ? 7 : 0, ref::Y(m.from));
    int prom = m.promo == 'n' ? 1 : m.promo == 'b' ? 2 : m.promo == 'r' ? 3 : m.promo == 'q' ? 4 : 0;
    return (uint16_t)(ref::X(to) | (ref::Y(to) << 3) | (ref::X(m.from) << 6) | (ref::Y(m.from) << 9) | (prom << 12));
}

struct Entry { uint64_t key = 0; uint16_t move = 0, weight = 0; uint32_t learn = 0; };

// 16 bytes, big endian: key(8) move(2) weight(2) learn(4)
inline void append(std::string& file, const Entry& e) {
    for (int i = 7; i >= 0; i--) file += (char)(e.key >> (8 * i));
    file += (char)(e.move >> 8); file += (char)e.move;
    file += (char)(e.weight >> 8); file += (char)e.weight;
    for (int i = 3; i >= 0; i--) file += (char)(e.learn >> (8 * i));
}

inline std::string hex(const std::string& s) {
    static const char* d = "0123456789abcdef";
    std::string r;
    for (unsigned char c : s) { r += d[c >> 4]; r += d[c & 15]; }
    return r;
}
inline bool unhex(const std::string& h, std::string& out) {
    out.clear();
    if (h.size() % 2) return false;
    auto v = [](char c) { return c >= '0' && c <= '9' ? c - '0' : c >= 'a' && c <= 'f' ? c - 'a' + 10 : -1; };
    for (size_t i = 0; i < h.size(); i += 2) { int a = v(h[i]), b = v(h[i + 1]); if (a < 0 || b < 0) return false; out += (char)(a * 16 + b); }
    return true;
}

// scratch directory /tmp/verif-c18-<pid>/ (or below $VERIF_C18_SCRATCH), removed at exit
inline const std::string& scratch() {
    static std::string dir = [] {
        // $VERIF_C18_SCRATCH (set by tools/fuzzshard.py to the shard's work directory, so that
        // crashing fuzz/minimisation children leave nothing under /tmp) or /tmp
        const char* base = getenv("VERIF_C18_SCRATCH");
        std::string b = base && *base ? base : "/tmp";
        mkdir(b.c_str(), 0700);
        std::string d = b + "/verif-c18-" + std::to_string(getpid());
        mkdir(d.c_str(), 0700);
        mkdir((d + "/dir.bin").c_str(), 0700); // "a directory offered as a book"
        static std::string keep;
        keep = d;
        atexit([] {
            std::string cmd = "rm -rf '" + keep + "'";
            if (system(cmd.c_str())) {}
        });
        return d;
    }();
    return dir;
}
inline bool writeFile(const std::string& path, const std::string& bytes) {
    FILE* f = fopen(path.c_str(), "wb");
    if (!f) return false;
    size_t n = bytes.empty() ? 0 : fwrite(bytes.data(), 1, bytes.size(), f);
    fclose(f);
    return n == bytes.size();
}

// probe positions of the fuzz target (index = first input byte mod size)
inline const std::vector<std::string>& fuzzPositions() {
    static const std::vector<std::string> v = {
        "rnbqkbnr/pppppppp/8/8/8/8/PPPPPPPP/RNBQKBNR w KQkq - 0 1",
        "rnbqkbnr/pppppppp/8/8/4P3/8/PPPP1PPP/RNBQKBNR b KQkq - 0 1",
        "r3k2r/p1ppqpb1/bn2pnp1/3PN3/1p2P3/2N2Q1p/PPPBBPPP/R3K2R w KQkq - 0 1",
        "r3k2r/8/8/8/8/8/8/R3K2R w KQkq - 0 1",
        "r3k2r/8/8/8/8/8/8/R3K2R b KQkq - 0 1",
        "3k4/8/8/8/8/8/6K1/R3R3 w - - 0 1",
        "r3r3/6k1/8/8/8/8/8/3K4 b - - 0 1",
        "8/PPPPPPPP/8/2k5/8/2K5/pppppppp/8 w - - 0 1",
        "8/PPPPPPPP/8/2k5/8/2K5/pppppppp/8 b - - 0 1",
        "n1n5/PPPk4/8/8/8/8/4Kppp/5N1N b - - 0 1",
        "rnbqkbnr/pp1ppppp/8/8/2pPP3/8/PPP2PPP/RNBQKBNR b KQkq d3 0 1",
        "8/2p5/3p4/KP5r/1R3p1k/8/4P1P1/8 w - - 0 1",
        "7k/5Q2/6K1/8/8/8/8/8 b - - 0 1",
        "4k2r/8/8/8/8/8/8/R3K3 w Qk - 0 1",
        "r1bqkb1r/pppp1ppp/2n2n2/4p2Q/2B1P3/8/PPPP1PPP/RNB1K1NR w KQkq - 4 4",
        "3k4/8/8/8/8/8/6K1/Q3Q3 w - - 0 1",
    };
    return v;
}

} // namespace pg
