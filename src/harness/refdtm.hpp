// refdtm: independent exact distance-to-mate tables for pawnless endings with <= 4 men.
//
// No texel code.  A table is produced by a plain retrograde generator written here
// (own geometry tables, own move / un-move enumeration) and is then *validated* with
// ref:: (refchess) before it is used as an oracle:
//   * the minimax recurrence  (mated-in-0 <=> checkmate; stalemate => draw; win-in-n <=>
//     some successor is lost-in-(n-1) for the opponent and none is lost earlier; else
//     draw <=> some successor is a draw; else loss-in-n with n-1 = max over successors)
//     is spot-checked on random placements over the full 64^n board (so every symmetry
//     image is exercised) with ref::legalMoves / ref::make as the move generator and
//     refdtm::probe for the successor values (captures lead into the smaller tables);
//   * the longest win is compared with the literature for the classes where the number
//     is beyond doubt (KQK 10, KRK 16, KBBK 19, KBNK 33, KQKR 35, KRKN 40 ... moves).
// A table that fails either test makes the process exit(2) with ORACLE-SELFTEST-FAILED
// (no verdict), never a VIOLATION.
//
// Tables are built lazily per class and cached per process; with Tables::cacheDir set, 4-man tables are also kept
// on disk (build directory) and go through the same validation when loaded.
//
// Storage: one int8 per (white king in the a1-d4 quadrant, other men on 64 squares, side
// to move): 16*64^(n-1)*2 entries (8.4 MB for four men).  Only the two mirror symmetries
// are used (no square is fixed by them, so every class of placements has exactly one
// representative and the successor counters of the retrograde pass need no special cases).
// Value code: ILLEGAL=-128, 0 draw, v>0: side to move mates in v plies (odd),
// v<0: side to move is mated in -v-1 plies (even; -1 = is checkmated).
#pragma once
#include "common/refchess.hpp"
#include <cstdint>
#include <cstdio>
#include <map>
#include <memory>
#include <string>
#include <time.h>
#include <unistd.h>
#include <vector>

namespace refdtm {

const int8_t ILLEGAL = -128;

struct Geo {
    uint64_t kingAtt[64], knightAtt[64], between[64][64];
    int8_t line[64][64]; // 0 none, 1 rank/file, 2 diagonal
    int ray[64][8][8];   // ray[s][d] = squares from s in direction d, terminated by -1
    Geo() {
        static const int kn[8][2] = {{1,2},{2,1},{2,-1},{1,-2},{-1,-2},{-2,-1},{-2,1},{-1,2}};
        static const int dr[8][2] = {{1,0},{-1,0},{0,1},{0,-1},{1,1},{1,-1},{-1,1},{-1,-1}};
        for (int s = 0; s < 64; s++) {
            int x = s & 7, y = s >> 3;
            kingAtt[s] = knightAtt[s] = 0;
            for (int dx = -1; dx <= 1; dx++) for (int dy = -1; dy <= 1; dy++)
                if ((dx || dy) && x + dx >= 0 && x + dx < 8 && y + dy >= 0 && y + dy < 8) kingAtt[s] |= 1ULL << ((y + dy) * 8 + x + dx);
            for (auto& d : kn) if (x + d[0] >= 0 && x + d[0] < 8 && y + d[1] >= 0 && y + d[1] < 8) knightAtt[s] |= 1ULL << ((y + d[1]) * 8 + x + d[0]);
            for (int t = 0; t < 64; t++) { between[s][t] = 0; line[s][t] = 0; }
            for (int d = 0; d < 8; d++) {
                int k = 0, cx = x + dr[d][0], cy = y + dr[d][1];
                uint64_t acc = 0;
                while (cx >= 0 && cx < 8 && cy >= 0 && cy < 8) {
                    int t = cy * 8 + cx;
                    ray[s][d][k++] = t;
                    between[s][t] = acc; line[s][t] = d < 4 ? 1 : 2;
                    acc |= 1ULL << t;
                    cx += dr[d][0]; cy += dr[d][1];
                }
                ray[s][d][k] = -1;
            }
        }
    }
};
inline const Geo& geo() { static Geo g; return g; }

inline double nowSec() { timespec ts; clock_gettime(CLOCK_MONOTONIC, &ts); return ts.tv_sec + ts.tv_nsec * 1e-9; }

// A placement of the men of one class.  Slot 0 = white king, slot 1 = black king, then the
// other white men (QRBN order), then the other black men (qrbn order).
struct MP { int sq[4]; bool wtm; };

struct Table;
struct Tables;
inline Tables& tables();

struct Table {
    std::string key;      // e.g. "KQkr"
    int n = 2;            // number of men
    char pc[4] = {'K', 'k', 0, 0};
    bool white[4] = {true, false, false, false};
    std::vector<int8_t> v;
    Table* sub[4] = {nullptr, nullptr, nullptr, nullptr}; // class after slot j has been captured (nullptr = two kings = draw)
    // statistics
    long legal = 0, wins = 0, losses = 0, draws = 0;
    int maxWinPlies = 0, maxLossPlies = 0;
    std::map<int, long> hist;                       // value code -> number of entries
    std::map<int, std::vector<uint32_t>> samples;   // value code -> evenly spaced entry indexes (<= 256)
    double genSec = 0, validateSec = 0;
    long validated = 0;

    size_t size() const { size_t s = 16 * 2; for (int i = 1; i < n; i++) s *= 64; return s; }
    static int canonSq(int s, bool fx, bool fy) { return s ^ (fx ? 7 : 0) ^ (fy ? 56 : 0); }
    uint32_t index(const MP& p) const {
        int wk = p.sq[0];
        bool fx = (wk & 7) >= 4, fy = (wk >> 3) >= 4;
        int c = canonSq(wk, fx, fy);
        uint32_t idx = (uint32_t)((c >> 3) * 4 + (c & 7));
        for (int i = 1; i < n; i++) idx = idx * 64 + (uint32_t)canonSq(p.sq[i], fx, fy);
        return idx * 2 + (p.wtm ? 0 : 1);
    }
    void decode(uint32_t idx, MP& p) const {
        p.wtm = (idx & 1) == 0; idx >>= 1;
        for (int i = n - 1; i >= 1; i--) { p.sq[i] = (int)(idx & 63); idx >>= 6; }
        p.sq[0] = (int)((idx >> 2) * 8 + (idx & 3));
    }
    int8_t get(const MP& p) const { return v[index(p)]; }

    uint64_t occ(const MP& p) const { uint64_t o = 0; for (int i = 0; i < n; i++) o |= 1ULL << p.sq[i]; return o; }
    // is `target` attacked by a man of colour byWhite (slot `skip` is off the board)?
    bool attacked(const MP& p, int target, bool byWhite, uint64_t o, int skip = -1) const {
        const Geo& g = geo();
        for (int i = 0; i < n; i++) {
            if (white[i] != byWhite || i == skip) continue;
            int s = p.sq[i];
            if (s == target) continue;
            switch (pc[i] | 32) {
            case 'k': if (g.kingAtt[s] >> target & 1) return true; break;
            case 'n': if (g.knightAtt[s] >> target & 1) return true; break;
            case 'r': if (g.line[s][target] == 1 && !(g.between[s][target] & o)) return true; break;
            case 'b': if (g.line[s][target] == 2 && !(g.between[s][target] & o)) return true; break;
            case 'q': if (g.line[s][target] != 0 && !(g.between[s][target] & o)) return true; break;
            }
        }
        return false;
    }
    int slotAt(const MP& p, int s) const { for (int i = 0; i < n; i++) if (p.sq[i] == s) return i; return -1; }

    // geometry targets of slot i: calls f(to) for every square the man could move to on an
    // otherwise fixed board: empty squares and the first occupied square of a ray (own or enemy).
    template <class F> void targets(const MP& p, int i, uint64_t o, F f) const {
        const Geo& g = geo();
        int s = p.sq[i];
        char t = pc[i] | 32;
        if (t == 'k' || t == 'n') {
            uint64_t m = t == 'k' ? g.kingAtt[s] : g.knightAtt[s];
            while (m) { int to = __builtin_ctzll(m); m &= m - 1; f(to); }
            return;
        }
        int d0 = t == 'b' ? 4 : 0, d1 = t == 'r' ? 4 : 8;
        for (int d = d0; d < d1; d++)
            for (const int* r = g.ray[s][d]; *r >= 0; r++) { f(*r); if (o >> *r & 1) break; }
    }
    // all legal moves of the side to move: f(slot, to, capturedSlot or -1)
    template <class F> void legalMoves(const MP& p, F f) const {
        uint64_t o = occ(p);
        int ownK = p.wtm ? 0 : 1;
        for (int i = 0; i < n; i++) {
            if (white[i] != p.wtm) continue;
            targets(p, i, o, [&](int to) {
                int j = -1;
                if (o >> to & 1) { j = slotAt(p, to); if (white[j] == p.wtm || j <= 1) return; }
                MP q = p; q.sq[i] = to;
                uint64_t o2 = (o & ~(1ULL << p.sq[i])) | (1ULL << to);
                if (attacked(q, q.sq[ownK], !p.wtm, o2, j)) return;
                f(i, to, j);
            });
        }
    }
    // value of the position after slot j has been captured (q already holds the capturing man on its new
    // square, q.wtm = side to move after the capture); from that side's point of view
    int8_t subValue(const MP& q, int j) const {
        Table* st = sub[j];
        if (!st) return 0;
        MP r; r.wtm = q.wtm;
        int k = 0;
        for (int i = 0; i < n; i++) if (i != j) r.sq[k++] = q.sq[i];
        return st->get(r);
    }
    bool legalPlacement(const MP& p) const {
        for (int i = 0; i < n; i++) for (int j = i + 1; j < n; j++) if (p.sq[i] == p.sq[j]) return false;
        uint64_t o = occ(p);
        // the side that is not to move must not be in check (covers adjacent kings)
        return !attacked(p, p.sq[p.wtm ? 1 : 0], p.wtm, o);
    }

    void generate() {
        double t0 = nowSec();
        size_t N = size();
        v.assign(N, 0);
        std::vector<uint8_t> cnt(N, 0), capMax(N, 0);
        const uint8_t NEVER = 255;
        std::vector<std::vector<uint32_t>> bucket(132);
        // ---- pass 0: legality, move counts, captures into the smaller tables
        for (uint32_t idx = 0; idx < N; idx++) {
            MP p; decode(idx, p);
            if (!legalPlacement(p)) { v[idx] = ILLEGAL; continue; }
            int quiet = 0, total = 0, winVia = 1000, cmax = 0; bool never = false;
            legalMoves(p, [&](int i, int to, int j) {
                total++;
                if (j < 0) { quiet++; return; }
                MP q = p; q.sq[i] = to; q.wtm = !p.wtm;
                int8_t sv = subValue(q, j);
                if (sv == 0) never = true;                       // capture into a draw: p is never lost
                else if (sv < 0) { winVia = std::min(winVia, -sv - 1 + 1); never = true; } // opponent is mated in -sv-1 plies
                else cmax = std::max(cmax, (int)sv);            // opponent wins in sv plies
            });
            if (total == 0) {
                uint64_t o = occ(p);
                if (attacked(p, p.sq[p.wtm ? 0 : 1], !p.wtm, o)) bucket[0].push_back(idx); // checkmated
                cnt[idx] = NEVER; // stalemate: a draw for good
                continue;
            }
            cnt[idx] = never ? NEVER : (uint8_t)quiet;
            capMax[idx] = (uint8_t)cmax;
            if (winVia < 1000) bucket[winVia].push_back(idx);
            else if (!never && quiet == 0) bucket[cmax + 1].push_back(idx);
        }
        // ---- retrograde passes in order of increasing distance
        std::vector<uint8_t> done(N, 0);
        for (int level = 0; level < (int)bucket.size() - 2; level++) {
            // NB: bucket[level] cannot grow while it is processed (all pushes go to higher levels)
            for (size_t bi = 0; bi < bucket[level].size(); bi++) {
                uint32_t idx = bucket[level][bi];
                if (done[idx]) continue;
                done[idx] = 1;
                bool win = level & 1;
                v[idx] = (int8_t)(win ? level : -(level + 1));
                MP q; decode(idx, q);
                uint64_t o = occ(q);
                // predecessors: a man of the side that is NOT to move in q came from an empty square
                for (int i = 0; i < n; i++) {
                    if (white[i] == q.wtm) continue;
                    targets(q, i, o, [&](int from) {
                        if (o >> from & 1) return;
                        MP p = q; p.sq[i] = from; p.wtm = !q.wtm;
                        uint32_t pi = index(p);
                        if (v[pi] == ILLEGAL || done[pi]) return;
                        if (!win) { bucket[level + 1].push_back(pi); return; } // q is lost => p wins in level+1
                        if (cnt[pi] == NEVER) return;
                        if (--cnt[pi] == 0) bucket[std::max(level, (int)capMax[pi]) + 1].push_back(pi);
                    });
                }
            }
            std::vector<uint32_t>().swap(bucket[level]);
        }
        genSec = nowSec() - t0;
        stats();
    }

    void stats() {
        hist.clear(); samples.clear(); legal = wins = losses = draws = 0; maxWinPlies = maxLossPlies = 0;
        std::vector<long> h(256, 0), seen(256, 0);
        for (size_t i = 0; i < v.size(); i++) h[(uint8_t)v[i]]++;
        for (int b = 0; b < 256; b++) { int8_t x = (int8_t)b; if (x != ILLEGAL && h[(size_t)b]) hist[x] = h[(size_t)b]; }
        for (auto& kv : hist) {
            legal += kv.second;
            if (kv.first > 0) { wins += kv.second; maxWinPlies = std::max(maxWinPlies, kv.first); }
            else if (kv.first < 0) { losses += kv.second; maxLossPlies = std::max(maxLossPlies, -kv.first - 1); }
            else draws += kv.second;
            samples[kv.first].reserve(256);
        }
        for (size_t i = 0; i < v.size(); i++) {
            int8_t x = v[i];
            if (x == ILLEGAL) continue;
            long total = h[(uint8_t)x], stride = total / 256 + 1;
            long k = seen[(uint8_t)x]++;
            if (k % stride == 0) { std::vector<uint32_t>& sv = samples[x]; if (sv.size() < 256) sv.push_back((uint32_t)i); }
        }
    }

    // optional disk cache (a pure function of the class; every loaded table goes through the same validation as a fresh one)
    static const uint32_t FILE_VERSION = 1;
    bool load(const std::string& fn) {
        FILE* f = fopen(fn.c_str(), "rb");
        if (!f) return false;
        uint32_t hdr[4] = {0, 0, 0, 0};
        bool ok = fread(hdr, 4, 4, f) == 4 && hdr[0] == 0x4d544452u && hdr[1] == FILE_VERSION && hdr[2] == (uint32_t)n && hdr[3] == (uint32_t)size();
        if (ok) { v.resize(size()); ok = fread(v.data(), 1, v.size(), f) == v.size(); }
        fclose(f);
        if (!ok) { v.clear(); return false; }
        stats();
        return true;
    }
    void save(const std::string& fn) const {
        std::string tmp = fn + ".tmp" + std::to_string((long)getpid());
        FILE* f = fopen(tmp.c_str(), "wb");
        if (!f) return;
        uint32_t hdr[4] = {0x4d544452u, FILE_VERSION, (uint32_t)n, (uint32_t)size()};
        bool ok = fwrite(hdr, 4, 4, f) == 4 && fwrite(v.data(), 1, v.size(), f) == v.size();
        ok = fclose(f) == 0 && ok;
        if (ok) rename(tmp.c_str(), fn.c_str()); else remove(tmp.c_str());
    }

    ref::Pos toPos(const MP& p) const {
        ref::Pos r;
        for (int i = 0; i < n; i++) r.b[p.sq[i]] = pc[i];
        r.wtm = p.wtm;
        return r;
    }
    ref::Pos posOf(uint32_t idx) const { MP p; decode(idx, p); return toPos(p); }
};

// pawnless symmetries of the board (0..7): bit0 mirror files, bit1 mirror ranks, bit2 transpose
inline int symSq(int s, int sym) {
    int x = s & 7, y = s >> 3;
    if (sym & 1) x = 7 - x;
    if (sym & 2) y = 7 - y;
    if (sym & 4) std::swap(x, y);
    return y * 8 + x;
}
inline ref::Pos symPos(const ref::Pos& p, int sym) {
    ref::Pos r = p;
    memset(r.b, '.', 64);
    for (int s = 0; s < 64; s++) if (p.b[s] != '.') r.b[symSq(s, sym)] = p.b[s];
    r.ep = -1; r.cK = r.cQ = r.ck = r.cq = false;
    return r;
}

struct Value {
    bool ok = false;  // position is in the domain (<= 4 men, no pawns, no castling rights, legal)
    int wdl = 0;      // +1 side to move wins, 0 draw, -1 side to move loses
    int plies = 0;    // plies to mate (win: odd, loss: even)
    int moves() const { return wdl > 0 ? (plies + 1) / 2 : plies / 2; } // the N of "mate N" / "mate -N"
};

struct Tables {
    std::map<std::string, std::unique_ptr<Table>> byKey;
    long validatePerTable = 10000;
    bool verbose = false;
    std::string cacheDir; // empty = no disk cache

    static std::string order(const std::string& s) { // sort by QRBN
        std::string r;
        for (char c : std::string("qrbn")) for (char x : s) if ((x | 32) == c) r += x;
        return r;
    }
    static std::string makeKey(const std::string& whiteOthers, const std::string& blackOthers) {
        std::string w, b;
        for (char c : whiteOthers) w += (char)(c & ~32);
        for (char c : blackOthers) b += (char)(c | 32);
        return "K" + order(w) + "k" + order(b);
    }
    Table* get(const std::string& key) {
        auto it = byKey.find(key);
        if (it != byKey.end()) return it->second.get();
        std::unique_ptr<Table> t(new Table());
        t->key = key;
        size_t kpos = key.find('k');
        std::string w = key.substr(1, kpos - 1), b = key.substr(kpos + 1);
        t->n = 2 + (int)w.size() + (int)b.size();
        int k = 2;
        for (char c : w) { t->pc[k] = c; t->white[k] = true; k++; }
        for (char c : b) { t->pc[k] = c; t->white[k] = false; k++; }
        for (int j = 2; j < t->n; j++) {
            if (t->n == 3) { t->sub[j] = nullptr; continue; }
            std::string w2 = w, b2 = b;
            if (j - 2 < (int)w.size()) w2.erase((size_t)(j - 2), 1); else b2.erase((size_t)(j - 2) - w.size(), 1);
            t->sub[j] = get("K" + w2 + "k" + b2);
        }
        bool loaded = !cacheDir.empty() && t->n >= 4 && t->load(cacheDir + "/" + key + ".dtm");
        if (!loaded) {
            t->generate();
            if (!cacheDir.empty() && t->n >= 4) t->save(cacheDir + "/" + key + ".dtm");
        }
        Table* raw = t.get();
        byKey[key] = std::move(t);
        validate(*raw);
        if (verbose)
            fprintf(stderr, "refdtm %-5s gen %.2fs validate %.2fs legal=%ld win=%ld loss=%ld draw=%ld maxWin=%d moves maxLoss=%d moves\n", key.c_str(), raw->genSec,
                    raw->validateSec, raw->legal, raw->wins, raw->losses, raw->draws, (raw->maxWinPlies + 1) / 2, raw->maxLossPlies / 2);
        return raw;
    }

    Value probe(const ref::Pos& p) {
        Value r;
        if (p.cK || p.cQ || p.ck || p.cq) return r;
        std::string w, b; int wk = -1, bk = -1, men = 0;
        for (int s = 0; s < 64; s++) {
            char c = p.b[s];
            if (c == '.') continue;
            men++;
            if (c == 'K') { if (wk >= 0) return r; wk = s; }
            else if (c == 'k') { if (bk >= 0) return r; bk = s; }
            else if (c == 'P' || c == 'p') return r;
            else if (ref::isWhite(c)) w += c; else b += c;
        }
        if (wk < 0 || bk < 0 || men > 4) return r;
        if (ref::inCheck(p, !p.wtm)) return r;
        r.ok = true;
        if (men == 2) return r;
        std::string wo = order(w), bo = order(b);
        Table* t = get("K" + wo + "k" + bo);
        MP m; m.wtm = p.wtm; m.sq[0] = wk; m.sq[1] = bk;
        bool used[64] = {false};
        for (int i = 2; i < t->n; i++)
            for (int s = 0; s < 64; s++) if (!used[s] && p.b[s] == t->pc[i]) { used[s] = true; m.sq[i] = s; break; }
        int8_t x = t->get(m);
        if (x == ILLEGAL) { r.ok = false; return r; }
        if (x > 0) { r.wdl = 1; r.plies = x; }
        else if (x < 0) { r.wdl = -1; r.plies = -x - 1; }
        return r;
    }

    [[noreturn]] void selftestFailed(const std::string& why) {
        printf("ORACLE-SELFTEST-FAILED: refdtm: %s\n", why.c_str());
        fflush(stdout);
        exit(2);
    }

    // minimax recurrence at one legal position, successors by refchess
    std::string checkRecurrence(const ref::Pos& p) {
        Value v = probe(p);
        if (!v.ok) return "legal position not found: " + ref::toFEN(p);
        std::vector<ref::Move> lm = ref::legalMoves(p);
        if (lm.empty()) {
            bool mate = ref::inCheck(p);
            if (mate && !(v.wdl < 0 && v.plies == 0)) return "checkmate not labelled mated-in-0: " + ref::toFEN(p);
            if (!mate && v.wdl != 0) return "stalemate not labelled draw: " + ref::toFEN(p);
            return "";
        }
        int bestWin = 1000, worstLoss = -1; bool anyDraw = false;
        for (const ref::Move& m : lm) {
            ref::Pos c = ref::make(p, m);
            Value cv = probe(c);
            if (!cv.ok) return "successor not found: " + ref::toFEN(c);
            if (cv.wdl < 0) bestWin = std::min(bestWin, cv.plies + 1);
            else if (cv.wdl == 0) anyDraw = true;
            else worstLoss = std::max(worstLoss, cv.plies + 1);
        }
        int wdl, plies;
        if (bestWin < 1000) { wdl = 1; plies = bestWin; }
        else if (anyDraw) { wdl = 0; plies = 0; }
        else { wdl = -1; plies = worstLoss; }
        if (wdl != v.wdl || plies != v.plies)
            return "recurrence violated at " + ref::toFEN(p) + ": table says wdl " + std::to_string(v.wdl) + " plies " + std::to_string(v.plies) +
                   ", successors say wdl " + std::to_string(wdl) + " plies " + std::to_string(plies);
        return "";
    }

    void validate(Table& t) {
        double t0 = nowSec();
        // (1) literature maxima (moves; longest win of either side)
        static const std::map<std::string, int> lit = {
            {"KQk", 10}, {"Kkq", 10}, {"KRk", 16}, {"Kkr", 16}, {"KBBk", 19}, {"Kkbb", 19}, {"KBNk", 33}, {"Kkbn", 33},
            {"KQkr", 35}, {"KRkq", 35}, {"KRkn", 40}, {"KNkr", 40}, {"KRkb", 29}, {"KBkr", 29}, {"KQkn", 21}, {"KNkq", 21},
            {"KQkb", 17}, {"KBkq", 17}, {"KQkq", 13}, {"KRkr", 19}, {"KNNk", 1}, {"Kknn", 1}, {"KBk", 0}, {"KNk", 0}, {"Kkb", 0}, {"Kkn", 0}};
        auto it = lit.find(t.key);
        if (it != lit.end() && (t.maxWinPlies + 1) / 2 != it->second)
            selftestFailed("class " + t.key + ": longest win is " + std::to_string((t.maxWinPlies + 1) / 2) + " moves, literature says " + std::to_string(it->second));
        // (2) recurrence on random placements over the whole board, plus evenly spaced entries of every value
        uint64_t s = vhash(t.key);
        auto rnd = [&]() { s = s * 6364136223846793005ULL + 1442695040888963407ULL; return (uint32_t)(s >> 33); };
        long checked = 0;
        for (long k = 0; k < validatePerTable * 3 && checked < validatePerTable; k++) {
            MP m; m.wtm = rnd() & 1;
            for (int i = 0; i < t.n; i++) m.sq[i] = (int)(rnd() % 64);
            if (!t.legalPlacement(m)) continue;
            std::string e = checkRecurrence(t.toPos(m));
            if (!e.empty()) selftestFailed(e);
            checked++;
        }
        for (auto& kv : t.samples) {
            size_t step = kv.second.size() / 6 + 1;
            for (size_t i = 0; i < kv.second.size(); i += step) {
                ref::Pos p = symPos(t.posOf(kv.second[i]), (int)(rnd() % 8));
                std::string e = checkRecurrence(p);
                if (!e.empty()) selftestFailed(e);
                checked++;
            }
        }
        t.validated = checked;
        t.validateSec = nowSec() - t0;
    }
    static uint64_t vhash(const std::string& s) { uint64_t h = 1469598103934665603ULL; for (unsigned char c : s) { h ^= c; h *= 1099511628211ULL; } return h; }

    // all 44 classes of C12 (8 three-man, 36 four-man)
    static std::vector<std::string> allClasses() {
        std::vector<std::string> r;
        const std::string P = "QRBN";
        for (char a : P) { r.push_back(std::string("K") + a + "k"); r.push_back(std::string("Kk") + (char)(a | 32)); }
        for (size_t i = 0; i < 4; i++) for (size_t j = i; j < 4; j++) {
            r.push_back(std::string("K") + P[i] + P[j] + "k");
            r.push_back(std::string("Kk") + (char)(P[i] | 32) + (char)(P[j] | 32));
        }
        for (char a : P) for (char b : P) r.push_back(std::string("K") + a + "k" + (char)(b | 32));
        return r;
    }
};
inline Tables& tables() { static Tables t; return t; }
inline Value probe(const ref::Pos& p) { return tables().probe(p); }

} // namespace refdtm
