// C14  Clear Hash makes the next search identical to a fresh start.
// Generated histories (1..40 prior searches of all limit kinds, ucinewgame,
// option changes that are reverted, on-demand tablebase installs, Hash resizes)
// followed by `setoption name Clear Hash` and a depth-/node-limited probe on one
// thread; oracle: the projection (depth, score, bound, nodes, multipv, pv per PV
// line + bestmove/ponder) of the probe's transcript equals the projection a
// freshly started process gives for the probe alone, and two fresh processes
// agree.  Real engine binary through the UCI driver.  See DESIGN.md §3 C14.
#include "common/vh.hpp"
#include "common/gen.hpp"
#include "common/uci.hpp"
#include <algorithm>

using vh::Value;
using vh::Choices;

namespace {

std::string gExe, gWork;
std::vector<std::string> gNets;
int gAnswerMs = 90000, gProbeMs = 240000, gMaxThreads = 4, gGuard = 150000, gMaxDepth = 11;

struct PosRef { std::string fen; std::vector<std::string> moves; std::string tag; };

struct Step {
    std::string kind;           // "opt" | "newgame" | "search"
    std::string name, value;    // opt
    PosRef pos; std::string go; // search
    int release = 0;            // 0 self-terminating, 1 stop, 2 ponderhit (answers by itself), 3 ponderhit then stop
    int pace = 0, paceArg = 0;  // before the release: 0 now, 1 after the first pv line (<= paceArg ms), 2 sleep paceArg ms
    bool tb = false;            // annotation: <=4-man pawnless root searched "infinite" with Hash >= 8 (installs the on-demand table)
};

struct Case {
    std::string sub;
    int net = 0;
    int hash = 16;              // Hash size of the probe, in both processes (16 = default: nothing is sent)
    std::vector<Step> hist;
    std::vector<std::pair<std::string, std::string>> reverts; // options put back to their defaults (Hash: to `hash`) before Clear Hash
    PosRef probe; std::string go;
    int searches = 0, aging = 0; // annotations: number of prior searches; nextGeneration calls since the last effective resize
};

Value posJson(const PosRef& p) { Value o = Value::object(); o["fen"] = p.fen; o["moves"] = Value::arrayOf(p.moves); o["tag"] = p.tag; return o; }
PosRef posFrom(const Value& v) { PosRef p; p.fen = v.getStr("fen"); p.moves = v.strs("moves"); p.tag = v.getStr("tag"); return p; }

Value toJson(const Case& k) {
    Value v = Value::object();
    v["sub"] = k.sub; v["net"] = k.net; v["hash"] = k.hash;
    Value a = Value::array();
    for (auto& s : k.hist) {
        Value o = Value::object();
        o["kind"] = s.kind;
        if (s.kind == "opt") { o["name"] = s.name; o["value"] = s.value; }
        if (s.kind == "search") { o["pos"] = posJson(s.pos); o["go"] = s.go; o["release"] = s.release; o["pace"] = s.pace; o["arg"] = s.paceArg; o["tb"] = s.tb; }
        a.push(o);
    }
    v["history"] = a;
    Value r = Value::array();
    for (auto& p : k.reverts) { Value o = Value::object(); o["name"] = p.first; o["value"] = p.second; r.push(o); }
    v["reverts"] = r;
    v["probe"] = posJson(k.probe); v["go"] = k.go;
    v["searches"] = k.searches; v["aging"] = k.aging;
    return v;
}
Case fromJson(const Value& v) {
    Case k; k.sub = v.getStr("sub"); k.net = (int)v.getInt("net", 0); k.hash = (int)v.getInt("hash", 16);
    for (auto& o : v.at("history").a) {
        Step s; s.kind = o.getStr("kind"); s.name = o.getStr("name"); s.value = o.getStr("value");
        if (s.kind == "search") { s.pos = posFrom(o.at("pos")); s.go = o.getStr("go"); s.release = (int)o.getInt("release", 0); s.pace = (int)o.getInt("pace", 0); s.paceArg = (int)o.getInt("arg", 0); s.tb = o.getBool("tb", false); }
        k.hist.push_back(s);
    }
    if (v.has("reverts")) for (auto& o : v.at("reverts").a) k.reverts.push_back({o.getStr("name"), o.getStr("value")});
    k.probe = posFrom(v.at("probe")); k.go = v.getStr("go");
    k.searches = (int)v.getInt("searches", 0); k.aging = (int)v.getInt("aging", 0);
    return k;
}

// ---- options ---------------------------------------------------------------------
struct OptDef { const char* name; const char* def; };
const std::vector<OptDef>& optTable() {
    static const std::vector<OptDef> t = {
        {"Hash", "16"}, {"Threads", "1"}, {"MultiPV", "1"}, {"Contempt", "0"}, {"AnalyzeContempt", "0"}, {"UseNullMove", "true"},
        {"Strength", "1000"}, {"UCI_LimitStrength", "false"}, {"UCI_Elo", "1500"}, {"UCI_AnalyseMode", "false"}, {"OwnBook", "false"},
        {"AnalysisAgeHash", "true"}, {"AutoContempt", "false"}, {"MaxNPS", "0"}, {"Ponder", "false"}, {"MinProbeDepth", "1"},
    };
    return t;
}
std::string genValue(Choices& c, const std::string& n) {
    auto b = [&]() { return std::string(c.flip() ? "true" : "false"); };
    if (n == "Hash") return std::to_string(c.of(std::vector<int>{1, 2, 3, 4, 6, 8, 12, 16, 5, 7, 24, 32, 48, 64})); // sizes that are not a power of two index the table differently
    if (n == "Threads") return std::to_string(c.range(1, gMaxThreads));
    if (n == "MultiPV") return std::to_string(c.range(1, 4));
    if (n == "Contempt" || n == "AnalyzeContempt") { int v = c.range(-300, 300); return std::to_string(v == 0 ? 25 : v); }
    if (n == "Strength") return std::to_string(c.chance(1, 3) ? c.range(0, 200) : c.range(0, 1000));
    if (n == "UCI_Elo") return std::to_string(c.range(-625, 2900));
    if (n == "MaxNPS") return std::to_string(c.flip() ? 0 : c.range(50000, 1000000));
    if (n == "MinProbeDepth") return std::to_string(c.range(0, 10));
    return b();
}

struct GenState {
    std::map<std::string, std::string> cur;
    int aging = 0, searches = 0;
    bool resized = false, tbInstalled = false, newGame = false, threads = false, relatedWithContempt = false, related = false, analyse = false;
    GenState() { for (auto& o : optTable()) cur[o.name] = o.def; }
};

struct GenCfg { bool allowHash = true, allowNoAge = true, allowTb = true; };

// ---- positions -------------------------------------------------------------------
const std::vector<std::string>& tbRoots() {
    static const std::vector<std::string> v = {
        "8/8/8/4k3/8/8/3K4/1Q6 w - - 0 1", "8/8/4k3/8/8/3K4/8/R7 b - - 3 40", "8/8/8/3k4/8/8/3K4/BN6 w - - 0 1",
        "6k1/8/8/8/8/8/8/KQ5r w - - 0 1", "8/8/8/8/4k3/8/7r/K1R5 b - - 10 60", "8/8/8/8/8/2k5/8/K1q5 w - - 0 1",
        "8/8/8/8/3k4/8/8/KR6 w - - 0 1", "4k3/8/8/8/8/8/8/2B1KB2 w - - 0 1", "8/8/2k5/8/8/2K5/8/3QQ3 b - - 0 1",
    };
    return v;
}

// random placement of a material class (string of men, upper = white) on the board; sane, side to move has a legal move
bool placeClass(Choices& c, const std::string& men, bool nearMate, ref::Pos& out) {
    for (int attempt = 0; attempt < 6; attempt++) {
        ref::Pos p;
        int bk, wk;
        if (nearMate) { // losing (black) king on the rim, white king two files/ranks away: mates within a few moves are frequent
            int e = c.pick(8); int side = c.pick(4);
            bk = side == 0 ? ref::SQ(e, 7) : side == 1 ? ref::SQ(e, 0) : side == 2 ? ref::SQ(0, e) : ref::SQ(7, e);
            int x = ref::X(bk), y = ref::Y(bk);
            int dx = side == 2 ? 2 : side == 3 ? -2 : c.range(-1, 1), dy = side == 0 ? -2 : side == 1 ? 2 : c.range(-1, 1);
            if (!ref::onBoard(x + dx, y + dy)) { dx = -dx; dy = -dy; }
            if (!ref::onBoard(x + dx, y + dy)) continue;
            wk = ref::SQ(x + dx, y + dy);
        } else { bk = c.pick(64); wk = c.pick(64); }
        if (bk == wk) continue;
        p.b[bk] = 'k'; p.b[wk] = 'K';
        for (char m : men) { int s = gen::emptySquare(c, p); if (s >= 0) p.b[s] = m; }
        p.wtm = c.flip();
        p.hmc = c.chance(1, 4) ? c.range(0, 30) : 0; p.fmc = 1 + c.pick(60);
        if (!ref::sane(p)) { p.wtm = !p.wtm; if (!ref::sane(p)) continue; }
        if (ref::legalMoves(p).empty()) continue;
        out = p; return true;
    }
    return false;
}

PosRef fromGame(const gen::Game& g, size_t idx, Choices& c, const std::string& tag) {
    PosRef r; r.tag = tag;
    idx = std::min(idx, g.moves.size());
    size_t from = idx > 0 ? (size_t)c.pick((int)idx + 1) : 0;
    if (idx - from > 24) from = idx - 24;
    r.fen = ref::toFEN(g.pos[from]);
    for (size_t i = from; i < idx; i++) r.moves.push_back(g.moves[i].uci());
    return r;
}
ref::Pos rootOf(const PosRef& p) {
    ref::Pos r; ref::fromFEN(p.fen, r);
    for (auto& u : p.moves) r = ref::make(r, ref::Move::fromUci(u));
    return r;
}
int menOf(const ref::Pos& p) { return p.men(); }

struct Pool { PosRef probe; std::vector<PosRef> related, unrelated, tb; };

PosRef unrelatedPos(Choices& c) {
    PosRef r; r.tag = "unrelated";
    int k = c.pick(4);
    if (k == 0) { r.fen = c.of(gen::seedFens()); }
    else if (k == 1) { gen::Placed p = gen::place(c); r.fen = p.ok && ref::sane(p.p) ? ref::toFEN(p.p) : gen::seedFens()[1]; }
    else { gen::Game g = gen::game(c, 40); r = fromGame(g, g.moves.size(), c, "unrelated"); }
    return r;
}

Pool genPool(Choices& c, const GenCfg& cfg, bool tbProbe) {
    Pool pl;
    if (tbProbe) {
        static const std::vector<std::string> cls = {"Q", "R", "Q", "R", "BN", "BB", "Qr", "Rb", "Qq", "Rn", "RR", "QB"};
        std::string men = c.of(cls);
        ref::Pos root, pr;
        if (!placeClass(c, men, false, root)) ref::fromFEN(tbRoots()[0], root), men = "Q";
        PosRef t; t.tag = "tb"; t.fen = ref::toFEN(root); pl.tb.push_back(t);
        std::string pm = men;
        bool extra = c.chance(1, 4);
        if (extra) pm += c.of(std::vector<std::string>{"n", "b", "N", "p"});
        bool ok = placeClass(c, pm, men.size() == 1 && !extra ? c.chance(3, 4) : c.chance(1, 2), pr);
        if (ok && pm.back() == 'p') for (int x = 0; x < 8; x++) if (pr.b[ref::SQ(x, 0)] == 'p' || pr.b[ref::SQ(x, 7)] == 'p') ok = false;
        if (!ok) pr = root;
        pl.probe.tag = "probe"; pl.probe.fen = ref::toFEN(pr);
        // related = the probe itself and the table root; a second root of the same class
        pl.related.push_back(pl.probe); pl.related.back().tag = "related";
        ref::Pos r2; if (placeClass(c, men, false, r2)) { PosRef t2; t2.tag = "tb"; t2.fen = ref::toFEN(r2); pl.tb.push_back(t2); }
    } else if (c.chance(3, 10)) {
        gen::Placed p = gen::place(c);
        ref::Pos r = p.p;
        if (!p.ok || !ref::sane(r) || ref::legalMoves(r).empty()) ref::fromFEN(gen::seedFens()[1], r);
        pl.probe.tag = "probe"; pl.probe.fen = ref::toFEN(r);
        pl.related.push_back(pl.probe); pl.related.back().tag = "related";
        std::vector<ref::Move> lm = ref::legalMoves(r);
        for (int i = 0; i < 2 && !lm.empty(); i++) { PosRef q = pl.probe; q.tag = "related"; q.moves.push_back(lm[c.pick((int)lm.size())].uci()); pl.related.push_back(q); }
    } else {
        gen::Game g = gen::game(c, 90);
        size_t L = g.moves.size();
        size_t idx = L - std::min<size_t>(L, (size_t)c.pick(5));
        while (idx > 0 && ref::legalMoves(g.pos[idx]).empty()) idx--;
        pl.probe = fromGame(g, idx, c, "probe");
        pl.related.push_back(pl.probe); pl.related.back().tag = "related";
        for (int i = 0; i < 3; i++) {
            int d = c.range(-4, 4);
            long j = (long)idx + d; if (j < 0) j = 0; if (j > (long)L) j = (long)L;
            pl.related.push_back(fromGame(g, (size_t)j, c, "related"));
        }
    }
    int nu = c.range(1, 3);
    for (int i = 0; i < nu; i++) pl.unrelated.push_back(unrelatedPos(c));
    if (cfg.allowTb && pl.tb.empty()) { PosRef t; t.tag = "tb"; t.fen = c.of(tbRoots()); pl.tb.push_back(t); }
    return pl;
}

// ---- history steps ---------------------------------------------------------------
Step genOptStep(Choices& c, GenState& st, const GenCfg& cfg) {
    Step s; s.kind = "opt";
    for (;;) {
        const OptDef& o = c.of(optTable());
        s.name = o.name;
        if (s.name == "Hash" && !cfg.allowHash) { if (c.empty()) s.name = "Contempt"; else continue; }
        if (s.name == "AnalysisAgeHash" && !cfg.allowNoAge) { if (c.empty()) s.name = "Contempt"; else continue; }
        break;
    }
    std::string def; for (auto& o : optTable()) if (s.name == o.name) def = o.def;
    s.value = c.chance(1, 4) ? def : genValue(c, s.name);
    return s;
}
void applyOpt(const Step& s, GenState& st) {
    if (s.name == "Hash" && st.cur["Hash"] != s.value) { st.aging = 0; st.resized = true; st.tbInstalled = false; }
    if (s.name == "Threads" && s.value != "1") st.threads = true;
    if (s.name == "UCI_AnalyseMode" && s.value == "true") st.analyse = true;
    st.cur[s.name] = s.value;
}

Step genSearchStep(Choices& c, GenState& st, const Pool& pl, const GenCfg& cfg, int posKind /* -1 random */) {
    Step s; s.kind = "search";
    int k = posKind >= 0 ? posKind : c.pick(10);
    if (k <= 3) s.pos = c.of(pl.related);
    else if (k <= 8 || pl.tb.empty() || !cfg.allowTb) s.pos = c.of(pl.unrelated);
    else s.pos = c.of(pl.tb);
    ref::Pos root = rootOf(s.pos);
    std::vector<ref::Move> lm = ref::legalMoves(root);
    std::string go = "go";
    bool ponder = false, infinite = false, timed = false;
    if (s.pos.tag == "tb" && c.chance(3, 4)) {
        go += " infinite"; infinite = true; s.release = 1; s.pace = 1; s.paceArg = 60000;
        s.tb = atoi(st.cur["Hash"].c_str()) >= 8 && menOf(root) <= 4;
    } else {
        int lk = c.pick(16);
        if (lk == 12) { ponder = true; go += " ponder"; lk = c.pick(12); }
        if (!lm.empty() && c.chance(1, 6)) {
            go += " searchmoves";
            int n = c.range(1, std::min<int>(3, (int)lm.size()));
            for (int i = 0; i < n; i++) go += " " + lm[c.pick((int)lm.size())].uci();
        }
        // cost guard by construction: MultiPV > 1 or no null move make even depth 4 explode with a flat evaluation (14 M nodes seen)
        int dcap = st.cur["MultiPV"] != "1" ? 2 : st.cur["UseNullMove"] == "false" ? 3 : 4;
        // UCI_LimitStrength / MaxNPS throttle the search to as little as 10 000 nodes per second: bound those searches by nodes as well
        bool throttled = st.cur["UCI_LimitStrength"] == "true" || st.cur["MaxNPS"] != "0";
        std::string nodeCap = throttled && !ponder ? " nodes " + std::to_string(c.range(200, 2000)) : "";
        if (lk <= 4) go += " depth " + std::to_string(std::min(dcap, c.range(1, 4))) + nodeCap;
        else if (lk <= 6) go += " nodes " + std::to_string(c.range(1, 2000));
        else if (lk == 7) { go += " movetime " + std::to_string(c.range(1, 30)); timed = true; }
        else if (lk <= 9) {
            go += " wtime " + std::to_string(c.range(20, 600)) + " btime " + std::to_string(c.range(20, 600));
            if (c.flip()) go += " winc " + std::to_string(c.range(0, 20)) + " binc " + std::to_string(c.range(0, 20));
            if (c.flip()) go += " movestogo " + std::to_string(c.range(0, 40));
            timed = true;
        } else if (lk == 10) go += " mate " + std::to_string(dcap < 4 ? 1 : c.range(1, 2)) + nodeCap;
        else if (lk == 11) go += " depth " + std::to_string(c.range(1, 3)) + " nodes " + std::to_string(c.range(100, 2000));
        else { if (!ponder) { go += " infinite"; infinite = true; } }
        if (ponder) {
            s.pace = c.pick(3); s.paceArg = s.pace == 1 ? 300 : s.pace == 2 ? c.range(1, 30) : 0;
            s.release = c.flip() ? 1 : (timed ? 2 : 3);
        } else if (infinite) {
            s.release = 1; s.pace = c.pick(3); s.paceArg = s.pace == 1 ? 300 : s.pace == 2 ? c.range(1, 30) : 0;
        }
    }
    s.go = go;
    // bookkeeping that mirrors EngineControl::startThread: the table is aged unless (analyse mode or infinite) and AnalysisAgeHash is off
    bool analyse = st.cur["UCI_AnalyseMode"] == "true";
    bool age = st.cur["AnalysisAgeHash"] == "true";
    if (!((analyse || infinite) && !age)) st.aging++;
    st.searches++;
    if (s.tb) st.tbInstalled = true;
    if (s.pos.tag == "related") { st.related = true; if (st.cur["Contempt"] != "0" || (analyse && st.cur["AnalyzeContempt"] != "0")) st.relatedWithContempt = true; }
    return s;
}

void finishCase(Case& k, GenState& st) {
    for (auto& o : optTable()) {
        std::string want = std::string(o.name) == "Hash" ? std::to_string(k.hash) : std::string(o.def);
        if (st.cur[o.name] != want) {
            Step s; s.kind = "opt"; s.name = o.name; s.value = want;
            applyOpt(s, st);
            k.reverts.push_back({o.name, want});
        }
    }
    k.searches = st.searches; k.aging = st.aging;
}

struct ProbeGo { int kind = 0, depth = 6, nodes = 5000; };
// drawn early in the case so that a short choice stream still yields a real probe
ProbeGo drawProbeGo(Choices& c, bool tbProbe) {
    ProbeGo g;
    g.depth = tbProbe ? gMaxDepth - c.pick(std::max(1, gMaxDepth - 7)) : 6 + c.pick(std::max(1, gMaxDepth - 5));
    g.nodes = gGuard - c.pick(std::max(1, gGuard - 5000));
    g.kind = tbProbe ? 0 : (c.pick(10) < 6 ? 0 : 1);
    return g;
}
std::string probeGoStr(const ProbeGo& g, bool tbProbe) {
    if (g.kind == 1) return "go nodes " + std::to_string(g.nodes);
    std::string s = "go depth " + std::to_string(g.depth);
    if (!tbProbe && g.depth >= 8) s += " nodes " + std::to_string(gGuard); // cost guard: the search stays depth- or node-limited
    return s;
}

// sub-generators: "hist" (general), "wrap" (count in {15,16,31,32}, every search ages the table, Hash fixed), "tb" (table install + probe of that material)
Case genCase(Choices& c, const std::string& sub) {
    Case k; k.sub = sub;
    GenCfg cfg; GenState st;
    bool wrap = sub == "wrap", tbp = sub == "tb", salt = sub == "salt";
    int n;
    if (wrap) { n = c.of(std::vector<int>{15, 31, 16, 32}); cfg.allowHash = false; cfg.allowNoAge = false; k.hash = c.of(std::vector<int>{1, 16, 2, 3, 4, 6, 16}); }
    else if (salt) { n = c.range(1, 4); cfg.allowHash = false; k.hash = c.of(std::vector<int>{3, 6, 5, 7, 3, 12}); } // small tables whose size is not a power of two: every key bit matters for the bucket
    else if (tbp) { n = c.range(1, 12); k.hash = c.of(std::vector<int>{8, 16, 12, 8, 32, 24}); }
    else { n = c.range(1, 40); k.hash = c.pick(10) < 5 ? 16 : c.of(std::vector<int>{3, 6, 1, 2, 4, 5, 7, 8, 12, 24, 32, 64}); }
    k.net = c.pick((int)gNets.size());
    ProbeGo pg = drawProbeGo(c, tbp);
    if (salt) { pg.kind = 0; pg.depth = std::max(pg.depth, 8); }   // a probe large enough to overflow buckets of the small table
    k.go = probeGoStr(pg, tbp);
    int tbAt = tbp ? n - 1 - c.pick(std::min(n, 3)) : -1;
    Pool pl = genPool(c, cfg, tbp);
    k.probe = pl.probe;
    if (k.hash != 16) { Step s; s.kind = "opt"; s.name = "Hash"; s.value = std::to_string(k.hash); applyOpt(s, st); st.resized = false; k.hist.push_back(s); }
    if (salt) {   // state that lives outside the table but enters its addressing: the contempt salt of the hash keys
        Step s; s.kind = "opt";
        if (c.chance(2, 3)) { s.name = "Contempt"; int v = c.range(-300, 300); s.value = std::to_string(v == 0 ? 25 : v); applyOpt(s, st); k.hist.push_back(s); }
        else {
            s.name = "UCI_AnalyseMode"; s.value = "true"; applyOpt(s, st); k.hist.push_back(s);
            Step t; t.kind = "opt"; t.name = "AnalyzeContempt"; int v = c.range(-300, 300); t.value = std::to_string(v == 0 ? 25 : v); applyOpt(t, st); k.hist.push_back(t);
        }
    }
    for (int i = 0; i < n; i++) {
        int no = c.empty() ? 0 : c.pick(4) == 0 ? c.range(1, 3) : c.pick(2);
        if (salt && i == 0) no = 0;   // the first search runs under the option just set
        for (int j = 0; j < no; j++) {
            if (c.chance(1, 6)) { Step s; s.kind = "newgame"; st.newGame = true; k.hist.push_back(s); continue; }
            Step s = genOptStep(c, st, cfg);
            if (tbp && s.name == "Hash" && atoi(s.value.c_str()) < 8) s.value = "8";
            applyOpt(s, st); k.hist.push_back(s);
        }
        if (i == tbAt) {
            Step s; s.kind = "search"; s.pos = pl.tb[0]; s.go = "go infinite"; s.release = 1; s.pace = 1; s.paceArg = 60000;
            s.tb = atoi(st.cur["Hash"].c_str()) >= 8;
            if (st.cur["AnalysisAgeHash"] == "true") st.aging++;
            st.searches++; if (s.tb) st.tbInstalled = true;
            k.hist.push_back(s);
        } else k.hist.push_back(genSearchStep(c, st, pl, cfg, tbp && i > tbAt ? c.pick(4) : -1));
    }
    finishCase(k, st);
    return k;
}

// ---- execution ---------------------------------------------------------------------
struct RunOut { std::vector<std::string> proj; std::vector<std::string> raw; bool inconclusive = false; std::string err, where; long long nodes = 0; int tbSeen = 0; };

std::string posCmd(const PosRef& p) {
    std::string s = "position fen " + p.fen;
    if (!p.moves.empty()) { s += " moves"; for (auto& m : p.moves) s += " " + m; }
    return s;
}

// projection of one probe transcript: PV lines -> "depth score bound nodes multipv pv", bestmove line verbatim
void project(const std::vector<std::string>& lines, RunOut& o) {
    for (auto& l : lines) {
        uci::Kind kd = uci::classify(l);
        if (kd == uci::K_INFO_PV) {
            uci::Info inf; uci::parseInfo(l, inf);
            std::string s = "d" + std::to_string(inf.depth) + (inf.mate ? " mate " : " cp ") + std::to_string(inf.score) + (inf.upper ? " upper" : inf.lower ? " lower" : "") +
                            " nodes " + std::to_string(inf.nodes) + (inf.multipv ? " multipv " + std::to_string(inf.multipv) : "") + " pv";
            for (auto& m : inf.pv) s += " " + m;
            o.proj.push_back(s); o.nodes = std::max(o.nodes, inf.nodes);
        } else if (kd == uci::K_BESTMOVE) o.proj.push_back(l);
        else if (kd == uci::K_MALFORMED || kd == uci::K_EMPTY) o.proj.push_back("MALFORMED " + l);
    }
}

RunOut runProcess(const Case& k, bool withHistory, const std::string& tag) {
    RunOut out;
    uci::Engine e;
    std::string net = gNets[(size_t)k.net % gNets.size()];
    if (!e.start(gExe, {"TEXEL_VERIF_NET=" + net}, gWork + "/engine-" + tag + ".err")) { out.err = "spawn failed"; return out; }
    auto died = [&](const std::string& where) { out.err = "engine died " + where + ": " + e.exitDesc() + " " + e.stderrText(600); };
    e.send("uci");
    if (e.waitLine("uciok", 60000) < 0) { if (e.tryReap()) died("at start-up"); else { out.inconclusive = true; out.where = "no uciok within 60 s"; } return out; }
    if (withHistory) {
        int idx = 0;
        for (const Step& s : k.hist) {
            if (s.kind == "opt") { e.send("setoption name " + s.name + " value " + s.value); continue; }
            if (s.kind == "newgame") { e.send("ucinewgame"); continue; }
            idx++;
            e.send(posCmd(s.pos));
            size_t from = e.log.size();
            e.scanPos = from;
            e.send(s.go);
            if (s.release) {
                if (s.pace == 1) { e.waitFor([&](const std::string& l) { return l.rfind("bestmove", 0) == 0 || uci::classify(l) == uci::K_INFO_PV; }, s.paceArg); if (s.tb) out.tbSeen++; }
                else if (s.pace == 2) e.sleepMs(s.paceArg);
                if (s.release == 1) e.send("stop");
                else { e.send("ponderhit"); if (s.release == 3) { e.sleepMs(5); e.send("stop"); } }
            }
            e.scanPos = from;
            if (e.waitPrefix("bestmove", gAnswerMs) < 0) {
                if (!e.tryReap() && getenv("C14_DEBUG")) { fprintf(stderr, "UNANSWERED search %d\n", idx); size_t a0 = e.log.size() > 40 ? e.log.size() - 40 : 0; for (size_t q = a0; q < e.log.size(); q++) fprintf(stderr, "  %c %s\n", e.log[q].dir, e.log[q].line.substr(0, 160).c_str()); fprintf(stderr, "  cpu ticks %ld\n", e.cpuTicks()); }
                if (e.tryReap()) died("during prior search " + std::to_string(idx) + " (" + s.go + ")"); else { out.inconclusive = true; out.where = "prior search unanswered: " + s.go.substr(0, s.go.find(' ', 3)) + (s.tb ? " (table root)" : ""); }
                return out;
            }
        }
        for (auto& r : k.reverts) e.send("setoption name " + r.first + " value " + r.second);
        e.send("setoption name Clear Hash");
        e.send("isready");
        if (e.waitLine("readyok", gAnswerMs) < 0) { if (e.tryReap()) died("after Clear Hash"); else { out.inconclusive = true; out.where = "no readyok after Clear Hash"; } return out; }
    } else if (k.hash != 16) e.send("setoption name Hash value " + std::to_string(k.hash));
    e.send(posCmd(k.probe));
    size_t from = e.log.size();
    e.scanPos = from;
    e.send(k.go);
    int bi = e.waitPrefix("bestmove", gProbeMs);
    if (bi < 0) { if (e.tryReap()) died("during the probe"); else { out.inconclusive = true; out.where = "probe unanswered"; } return out; }
    for (size_t i = from; i <= (size_t)bi; i++) if (e.log[i].dir == '<') out.raw.push_back(e.log[i].line);
    project(out.raw, out);
    e.send("quit");
    if (!e.waitExit(30000)) { out.inconclusive = true; out.where = "no exit within 30 s of quit"; return out; }
    if (!e.exitedCleanly()) out.err = "engine ended with " + e.exitDesc() + " " + e.stderrText(600);
    else { std::string se = e.stderrText(); if (se.find("Sanitizer") != std::string::npos || se.find("runtime error:") != std::string::npos) out.err = "sanitizer report: " + se.substr(0, 800); }
    return out;
}

std::string firstDiff(const std::vector<std::string>& a, const std::vector<std::string>& b, const char* an, const char* bn) {
    size_t n = std::min(a.size(), b.size());
    for (size_t i = 0; i < n; i++) if (a[i] != b[i]) return std::string("line ") + std::to_string(i + 1) + ": " + an + " '" + a[i] + "' vs " + bn + " '" + b[i] + "'";
    if (a.size() != b.size()) return std::string(an) + " has " + std::to_string(a.size()) + " result lines, " + bn + " " + std::to_string(b.size());
    return "";
}

void classify(const Case& k, vh::Stats& st, const RunOut& fresh) {
    auto mk = [&]() { return toJson(k); };
    bool resize = false, tb = false, ng = false, thr = false, rel = false, relContempt = false, analyse = false;
    std::map<std::string, std::string> cur; for (auto& o : optTable()) cur[o.name] = o.def;
    bool first = true;
    for (auto& s : k.hist) {
        if (s.kind == "opt") {
            if (s.name == "Hash" && cur["Hash"] != s.value && !(first && atoi(s.value.c_str()) == k.hash)) resize = true;
            if (s.name == "Threads" && s.value != "1") thr = true;
            cur[s.name] = s.value;
        } else if (s.kind == "newgame") ng = true;
        else {
            if (s.tb) tb = true;
            if (cur["UCI_AnalyseMode"] == "true") analyse = true;
            if (s.pos.tag == "related") { rel = true; if (cur["Contempt"] != "0" || (cur["UCI_AnalyseMode"] == "true" && cur["AnalyzeContempt"] != "0")) relContempt = true; }
        }
        first = false;
    }
    int n = k.searches;
    if (n == 15 || n == 16 || n == 31 || n == 32) st.clsSample("prior searches = " + std::to_string(n), mk);
    st.cls(n <= 4 ? "prior searches 1-4" : n <= 14 ? "prior searches 5-14" : n <= 16 ? "prior searches 15-16" : n <= 30 ? "prior searches 17-30" : n <= 32 ? "prior searches 31-32" : "prior searches 33-40");
    st.count("prior searches (total)", n);
    if (k.aging % 16 == 15) st.clsSample("generation counter would wrap to 0 at the probe (aging searches since last resize = 15 mod 16)", mk);
    if (resize) st.clsSample("Hash resize in history", mk);
    if (tb) st.clsSample("on-demand tablebase installed in history", mk);
    if (ng) st.cls("ucinewgame in history");
    if (thr) st.cls("Threads > 1 in history");
    if (analyse) st.cls("search in analyse mode in history");
    if (rel) st.cls("history searched the probe position or a neighbour in its game");
    if (relContempt) st.clsSample("related position searched under non-zero contempt (reverted)", mk);
    if (k.hash != 16) st.cls("probe with non-default Hash");
    if (k.hash & (k.hash - 1)) st.cls("probe with a Hash size that is not a power of two");
    st.cls(k.go.find("depth") != std::string::npos ? (k.go.find("nodes") != std::string::npos ? "probe: depth + node guard" : "probe: depth-limited") : "probe: node-limited");
    st.count("probe nodes (fresh, total)", (long)fresh.nodes);
    for (auto& l : fresh.proj) if (l.find(" mate ") != std::string::npos) { st.cls("probe reports a mate score"); break; }
    if (n >= 5 || tb || resize) st.nt(vj::dump(toJson(k))); else st.cls("plain (fewer than 5 searches, no table, no resize)");
}

void runAndJudge(const Case& k, vh::Stats& st) {
    st.evaluations++;
    RunOut f1 = runProcess(k, false, "f1");
    auto inc = [&](const RunOut& o) { st.inconclusive++; st.count("inconclusive: " + o.where); if (getenv("C14_DEBUG")) fprintf(stderr, "INCONCLUSIVE %s\n%s\n", o.where.c_str(), vj::dump(toJson(k)).c_str()); };
    if (f1.inconclusive) { inc(f1); return; }
    RunOut f2 = runProcess(k, false, "f2");
    if (f2.inconclusive) { inc(f2); return; }
    RunOut h = runProcess(k, true, "h");
    if (h.inconclusive) { inc(h); return; }
    classify(k, st, f1);
    if (h.tbSeen) st.count("table-install searches that printed a pv before stop", h.tbSeen);
    auto failWith = [&](const std::string& msg) {
        Value v = toJson(k);
        v["probe_fresh"] = Value::arrayOf(f1.proj); v["probe_after_history"] = Value::arrayOf(h.proj);
        vh::fail(v, msg);
    };
    if (!f1.err.empty()) failWith("fresh process: " + f1.err);
    if (!f2.err.empty()) failWith("fresh process: " + f2.err);
    if (!h.err.empty()) failWith("process with history: " + h.err);
    std::string d = firstDiff(f1.proj, f2.proj, "fresh#1", "fresh#2");
    if (!d.empty()) failWith("two freshly started processes disagree on '" + k.go + "': " + d);
    d = firstDiff(h.proj, f1.proj, "after history + Clear Hash", "fresh");
    if (!d.empty()) failWith("probe '" + k.go + "' after " + std::to_string(k.searches) + " prior searches + Clear Hash differs from a fresh engine: " + d);
}

} // namespace

int main(int argc, char** argv) {
    vh::Args a = vh::parseArgs(argc, argv);
    vh::installDeathHooks();
    vh::Stats& st = vh::ctx().stats;
    vh::ctx().shrinkBudget = a.num("shrink", 25);
    gExe = a.str("engine", "/verif/build/opt/bin/texel");
    gAnswerMs = (int)a.num("answer-ms", 90000);
    gProbeMs = (int)a.num("probe-ms", 240000);
    gMaxThreads = (int)a.num("max-threads", 4);
    gGuard = (int)a.num("guard", 150000);
    gMaxDepth = (int)a.num("max-depth", 11);
    std::string nets = a.str("nets", "/verif/build/nets/material-1.net");
    size_t p = 0;
    while (p <= nets.size()) { size_t q = nets.find(',', p); if (q == std::string::npos) q = nets.size(); if (q > p) gNets.push_back(nets.substr(p, q - p)); p = q + 1; }
    gWork = "/tmp/verif-c14-" + std::to_string(getpid());
    if (system(("mkdir -p " + gWork).c_str())) {}
    int rc;
    if (!a.replay.empty()) {
        rc = vh::runReplay([&](const std::string&, const Value& k) {
            Case c = fromJson(k);
            for (int i = 0; i < (int)a.num("repeat", 2); i++) runAndJudge(c, st);
        });
    } else {
        long n = a.cases;
        long nWrap = a.num("wrap", (n * 25 + 50) / 100), nTb = a.num("tb", (n * 15 + 50) / 100), nSalt = a.num("salt", (n * 10 + 50) / 100);
        long nHist = std::max(0L, n - nWrap - nTb - nSalt);
        vh::runProp("hist", nHist, 60.0, [&](Choices& c) { runAndJudge(genCase(c, "hist"), st); });
        vh::runProp("wrap", nWrap, 60.0, [&](Choices& c) { runAndJudge(genCase(c, "wrap"), st); });
        vh::runProp("tb", nTb, 20.0, [&](Choices& c) { runAndJudge(genCase(c, "tb"), st); });
        vh::runProp("salt", nSalt, 20.0, [&](Choices& c) { runAndJudge(genCase(c, "salt"), st); });
        rc = vh::finish();
    }
    if (system(("rm -rf " + gWork).c_str())) {}
    return rc;
}
