// C02  Position state survives any make/unmake history intact.
// Stateful command sequences over a texel Position with a refchess model + stack.
// See DESIGN.md §3 C02 and notes/C02.md.
//
// A case is decoded in two phases so that the complete concrete case is known
// before any texel code runs (crash capture): phase 1 decodes the command list
// using only the refchess model, phase 2 executes it on a texel Position and
// compares everything with the model after every command.
#include "common/vh.hpp"
#include "common/gen.hpp"
#include "common/tx.hpp"
#include "computerPlayer.hpp"
#include "parameters.hpp"
#include "material.hpp"
#include <algorithm>
#include <memory>
#include <unordered_map>

using vh::Value;
using vh::Choices;

namespace {

const char* const PAWN_RACE = "8/PPPPPPPP/8/2k5/8/2K5/pppppppp/8 w - - 0 1";

// ---- commands -------------------------------------------------------------------
enum Kind { MAKE, UNMAKE, UNMAKE_ALL, NULLMV, COPY_CTOR, ASSIGN, MOVE_ASSIGN, MOVE_CTOR, SERIAL, FENRT };
struct Op { Kind k; ref::Move m; };

std::string opStr(const Op& o) {
    switch (o.k) {
    case MAKE: return "m:" + o.m.uci();
    case UNMAKE: return "u";
    case UNMAKE_ALL: return "U";
    case NULLMV: return "null";
    case COPY_CTOR: return "copy";
    case ASSIGN: return "assign";
    case MOVE_ASSIGN: return "moveassign";
    case MOVE_CTOR: return "movector";
    case SERIAL: return "serial";
    case FENRT: return "fen";
    }
    return "?";
}
bool opParse(const std::string& s, Op& o) {
    o = Op{UNMAKE, ref::Move()};
    if (s.rfind("m:", 0) == 0) { o.k = MAKE; o.m = ref::Move::fromUci(s.substr(2)); return o.m.valid(); }
    static const std::pair<const char*, Kind> t[] = {{"u", UNMAKE}, {"U", UNMAKE_ALL}, {"null", NULLMV}, {"copy", COPY_CTOR},
        {"assign", ASSIGN}, {"moveassign", MOVE_ASSIGN}, {"movector", MOVE_CTOR}, {"serial", SERIAL}, {"fen", FENRT}};
    for (auto& e : t) if (s == e.first) { o.k = e.second; return true; }
    return false;
}

struct Case { std::string fen; std::vector<Op> ops; };

Value caseJson(const Case& c, size_t nOps = (size_t)-1) {
    Value k = Value::object();
    k["fen"] = c.fen;
    std::vector<std::string> v;
    for (size_t i = 0; i < c.ops.size() && i < nOps; i++) v.push_back(opStr(c.ops[i]));
    k["ops"] = Value::arrayOf(v);
    return k;
}

// ---- model ------------------------------------------------------------------------
struct ModelEntry { ref::Pos before; bool isNull; ref::Move m; };
struct Model {
    ref::Pos p;
    std::vector<ModelEntry> stack;
    bool lastWasNull() const { return !stack.empty() && stack.back().isNull; }
    bool nullAllowed() const { return !lastWasNull() && !ref::inCheck(p); }
    void make(const ref::Move& m) { stack.push_back({p, false, m}); p = ref::make(p, m); }
    void null() { stack.push_back({p, true, ref::Move()}); p.wtm = !p.wtm; p.ep = -1; p.hmc = 0; }
    void unmake() { p = stack.back().before; stack.pop_back(); }
};

// ---- phase 1: decode a command list from the choice stream ---------------------
ref::Move pickPromoRace(Choices& c, const ref::Pos& p, const std::vector<ref::Move>& lm, const std::vector<ref::Pos>& hist) {
    std::vector<ref::Move> q, pr;
    for (auto& m : lm) if (m.promo) { pr.push_back(m); if (m.promo == 'q') q.push_back(m); }
    if (!q.empty() && c.chance(7, 8)) return q[c.pick((int)q.size())];
    if (!pr.empty() && c.chance(1, 2)) return pr[c.pick((int)pr.size())];
    return gen::pickMove(c, p, lm, gen::PAWNS, hist);
}

// moves the non-triviality rule is about: e.p., castling, capture-promotion, capture of a rook whose right is still there
bool isSpecial(const ref::Pos& b, const ref::Move& m) {
    if (ref::isEp(b, m) || ref::isCastle(b, m)) return true;
    if (m.promo && ref::isCapture(b, m)) return true;
    return (m.to == 0 && b.cQ) || (m.to == 7 && b.cK) || (m.to == 56 && b.cq) || (m.to == 63 && b.ck);
}

Case decode(Choices& c, bool promoRace, int maxSteps) {
    Case k;
    int profile;
    if (promoRace) { k.fen = PAWN_RACE; profile = gen::PAWNS; }
    else {
        profile = c.pick(gen::NPROFILES);
        int src = c.pick(8);
        if (src < 2) {
            gen::Placed pl = gen::place(c);
            k.fen = pl.ok ? ref::toFEN(pl.p) : gen::seedFens()[0];
        } else if (src < 5) k.fen = gen::seedFens()[0];
        else k.fen = c.of(gen::seedFens());
    }
    // long reversible stretches: one start in eight begins with a half-move clock of 100..260 (the FEN reader
    // accepts it, and 128+ reversible plies are legal play without a draw claim) and prefers quiet moves
    if (!promoRace && c.chance(1, 8)) {
        ref::Pos hp; ref::fromFEN(k.fen, hp); hp.hmc = c.range(100, 260); hp.ep = -1; k.fen = ref::toFEN(hp);
        profile = c.flip() ? gen::QUIET : gen::SHUFFLE;
    }
    Model md;
    ref::fromFEN(k.fen, md.p);
    ref::normalizeEp(md.p);
    std::vector<ref::Pos> hist{md.p};
    int steps = c.range(0, maxSteps);
    int makeW = promoRace ? 74 : 60;
    for (int i = 0; i < steps && !c.empty(); i++) {
        int r = c.pick(100);
        auto push = [&](Kind kd, const ref::Move& m = ref::Move()) { k.ops.push_back(Op{kd, m}); };
        if (r < makeW) {
            if ((int)md.stack.size() >= 300) continue;
            std::vector<ref::Move> lm = ref::legalMoves(md.p);
            if (lm.empty()) {            // mate / stalemate: forced take-back instead
                if (!md.stack.empty()) { push(UNMAKE); md.unmake(); hist.pop_back(); }
                continue;
            }
            if (i % 16 == 15 && !promoRace && c.chance(1, 3)) profile = c.pick(gen::NPROFILES);
            ref::Move m;
            std::vector<ref::Move> sp;
            if (!promoRace) for (auto& x : lm) if (isSpecial(md.p, x)) sp.push_back(x);
            if (!sp.empty() && c.chance(1, 3)) m = sp[c.pick((int)sp.size())];
            else m = promoRace ? pickPromoRace(c, md.p, lm, hist) : gen::pickMove(c, md.p, lm, profile, hist);
            push(MAKE, m); md.make(m); hist.push_back(md.p);
        } else if (r < makeW + 10) {
            if (md.stack.empty()) continue;
            push(UNMAKE); md.unmake(); hist.pop_back();
        } else if (r < makeW + 14) { // forced take-back segment
            int n = c.range(1, 12);
            for (int j = 0; j < n && !md.stack.empty(); j++) { push(UNMAKE); md.unmake(); hist.pop_back(); }
        } else if (r < makeW + 15) {
            if (md.stack.empty() || promoRace) continue;
            push(UNMAKE_ALL);
            while (!md.stack.empty()) { md.unmake(); hist.pop_back(); }
        } else if (r < makeW + 20) {
            if (!md.nullAllowed() || (int)md.stack.size() >= 300) continue;
            push(NULLMV); md.null(); hist.push_back(md.p);
        } else if (r < makeW + 22) push(COPY_CTOR);
        else if (r < makeW + 24) push(ASSIGN);
        else if (r < makeW + 26) push(MOVE_ASSIGN);
        else if (r < makeW + 27) push(MOVE_CTOR);
        else if (r < makeW + 31) push(SERIAL);
        else {
            push(FENRT);
            ref::normalizeEp(md.p);
            hist.back() = md.p;
        }
    }
    return k;
}

// ---- phase 2: execution against texel -------------------------------------------
struct Entry { bool isNull; Move m; UndoInfo ui; Square nullEp; int nullHmc; };

int pieceVal(char c) {
    switch (ref::lower(c)) {
    case 'p': return (int)pV; case 'n': return (int)nV; case 'b': return (int)bV;
    case 'r': return (int)rV; case 'q': return (int)qV; default: return 0;
    }
}

U64 bbOf(const Position& p, int piece) { return p.pieceTypeBB((Piece::Type)piece); }

// Every observable of two texel positions is equal (used for copies and round trips).
std::string sameAll(const Position& a, const Position& b) {
    if (!(a == b)) {
        for (int s = 0; s < 64; s++) if (a.getPiece(Square(s)) != b.getPiece(Square(s))) return "operator== false: square " + ref::sqName(s);
        if (a.isWhiteMove() != b.isWhiteMove()) return "operator== false: side to move";
        if (a.getCastleMask() != b.getCastleMask()) return "operator== false: castle mask";
        if (a.getEpSquare() != b.getEpSquare()) return "operator== false: e.p. square " + std::to_string(a.getEpSquare().asInt()) + " vs " + std::to_string(b.getEpSquare().asInt());
        if (a.getHalfMoveClock() != b.getHalfMoveClock()) return "operator== false: half-move clock";
        if (a.getFullMoveCounter() != b.getFullMoveCounter()) return "operator== false: full-move counter";
        if (a.zobristHash() != b.zobristHash()) return "operator== false: zobristHash";
        if (a.pawnZobristHash() != b.pawnZobristHash()) return "operator== false: pawnZobristHash";
        if (a.materialId() != b.materialId()) return "operator== false: materialId";
        return "operator== false";
    }
    if (!a.drawRuleEquals(b)) return "drawRuleEquals false although operator== true";
    for (int p = Piece::WKING; p < Piece::nPieceTypes; p++) if (bbOf(a, p) != bbOf(b, p)) return std::string("pieceTypeBB(") + tx::pieceChar(p) + ") differs";
    if (a.whiteBB() != b.whiteBB()) return "whiteBB differs";
    if (a.blackBB() != b.blackBB()) return "blackBB differs";
    if (a.wMtrl() != b.wMtrl() || a.bMtrl() != b.bMtrl()) return "wMtrl/bMtrl differ";
    if (a.wMtrlPawns() != b.wMtrlPawns() || a.bMtrlPawns() != b.bMtrlPawns()) return "wMtrlPawns/bMtrlPawns differ";
    if (a.historyHash() != b.historyHash() || a.bookHash() != b.bookHash() || a.kingZobristHash() != b.kingZobristHash()) return "derived hashes differ";
    return "";
}

struct HashSeen { uint64_t fp2, zob, pred; };

struct Runner {
    vh::Stats& st;
    // normalised-position-key -> hash, over the whole run of this process
    std::unordered_map<uint64_t, HashSeen> seen;
    size_t seenCap = 3000000;
    explicit Runner(vh::Stats& s) : st(s) {}

    // flags of the current sequence (non-triviality rule)
    struct Flags { bool ep = false, castle = false, capPromo = false, rookHome = false, takeBackAcross = false, sixQueens = false, transp = false,
                   promo = false, null = false, sixBlackQueens = false; } f;

    // All per-step oracles.  `pos` is not modified.
    std::string verify(const Position& pos, const ref::Pos& r, uint64_t predKey, bool viaMake, uint64_t* keyOut) {
        // 1. squares, side, castle rights, e.p. target (texel's representation), counters
        std::string d = tx::diff(pos, r, 0);
        if (!d.empty()) return "accessor vs model: " + d;
        // 2. bitboards, colour boards, king squares (the EMPTY bitboard is not maintained by texel and not checked)
        U64 bb[13] = {0}, wbb = 0, bbb = 0;
        int wq = 0, bq = 0;
        for (int s = 0; s < 64; s++) {
            char c = r.b[s];
            if (c == '.') continue;
            bb[tx::pieceCode(c)] |= 1ULL << s;
            (ref::isWhite(c) ? wbb : bbb) |= 1ULL << s;
            if (c == 'Q') wq++; if (c == 'q') bq++;
        }
        for (int p = Piece::WKING; p < Piece::nPieceTypes; p++)
            if (bbOf(pos, p) != bb[p]) return std::string("pieceTypeBB(") + tx::pieceChar(p) + ") does not match the board";
        if (pos.whiteBB() != wbb) return "whiteBB does not match the board";
        if (pos.blackBB() != bbb) return "blackBB does not match the board";
        if (pos.occupiedBB() != (wbb | bbb)) return "occupiedBB does not match the board";
        if (pos.colorBB(1) != wbb || pos.colorBB(0) != bbb) return "colorBB does not match the board";
        if (pos.pieceTypeBB(Piece::WQUEEN, Piece::BQUEEN, Piece::WPAWN) != (bb[Piece::WQUEEN] | bb[Piece::BQUEEN] | bb[Piece::WPAWN])) return "variadic pieceTypeBB wrong";
        if (pos.wKingSq().asInt() != r.kingSq(true) || pos.getKingSq(true).asInt() != r.kingSq(true)) return "white king square";
        if (pos.bKingSq().asInt() != r.kingSq(false) || pos.getKingSq(false).asInt() != r.kingSq(false)) return "black king square";
        int mask = (r.cQ ? 1 << Position::A1_CASTLE : 0) | (r.cK ? 1 << Position::H1_CASTLE : 0) |
                   (r.cq ? 1 << Position::A8_CASTLE : 0) | (r.ck ? 1 << Position::H8_CASTLE : 0);
        if (pos.getCastleMask() != mask) return "castle mask " + std::to_string(pos.getCastleMask()) + " model " + std::to_string(mask);
        if (pos.nPieces() != r.men()) return "nPieces";
        // 3. material totals recomputed from the board
        int wm = 0, bm = 0, wp = 0, bp = 0;
        unsigned mid = 0;
        for (int s = 0; s < 64; s++) {
            char c = r.b[s];
            if (c == '.') continue;
            int v = pieceVal(c);
            if (ref::isWhite(c)) { wm += v; if (c == 'P') wp += v; } else { bm += v; if (c == 'p') bp += v; }
            switch (c) {
            case 'P': mid += (unsigned)MatId::WP; break; case 'R': mid += (unsigned)MatId::WR; break; case 'N': mid += (unsigned)MatId::WN; break;
            case 'B': mid += (unsigned)MatId::WB; break; case 'Q': mid += (unsigned)MatId::WQ; break;
            case 'p': mid += (unsigned)MatId::BP; break; case 'r': mid += (unsigned)MatId::BR; break; case 'n': mid += (unsigned)MatId::BN; break;
            case 'b': mid += (unsigned)MatId::BB; break; case 'q': mid += (unsigned)MatId::BQ; break;
            }
        }
        if (pos.wMtrl() != wm) return "wMtrl " + std::to_string(pos.wMtrl()) + " but the board sums to " + std::to_string(wm);
        if (pos.bMtrl() != bm) return "bMtrl " + std::to_string(pos.bMtrl()) + " but the board sums to " + std::to_string(bm);
        if (pos.wMtrlPawns() != wp) return "wMtrlPawns " + std::to_string(pos.wMtrlPawns()) + " but the board sums to " + std::to_string(wp);
        if (pos.bMtrlPawns() != bp) return "bMtrlPawns " + std::to_string(pos.bMtrlPawns()) + " but the board sums to " + std::to_string(bp);
        if ((unsigned)pos.materialId() != mid) return "materialId " + std::to_string(pos.materialId()) + " but the board gives " + std::to_string((int)mid);
        // 4. hashes vs recomputation on a copy
        {
            Position c(pos);
            U64 h = c.computeZobristHash();
            if (pos.zobristHash() != h) return "zobristHash differs from computeZobristHash() on a copy";
            if (pos.pawnZobristHash() != c.pawnZobristHash()) return "pawnZobristHash differs from recomputation on a copy";
            if (pos.materialId() != c.materialId()) return "materialId differs from recomputation on a copy";
            if (c.zobristHash() != h) return "computeZobristHash() return value differs from the stored key";
        }
        // 5. vs a Position rebuilt from scratch through readFEN(refFEN); texel's reader normalises the e.p. target
        Position norm(pos);
        TextIO::fixupEPSquare(norm);
        {
            Position rebuilt;
            try { rebuilt = TextIO::readFEN(ref::toFEN(r)); }
            catch (const ChessParseError& e) { return std::string("readFEN rejects the model's FEN: ") + e.what(); }
            std::string e = tx::diff(rebuilt, r, 1);
            if (!e.empty()) return "readFEN(model FEN) vs model (legal e.p. notion): " + e;
            e = sameAll(norm, rebuilt);
            if (!e.empty()) return "incremental position (after fixupEPSquare) vs readFEN(model FEN): " + e;
        }
        // 6. readFEN(toFEN(p)) == fixupEPSquare(p)
        {
            Position rt;
            std::string fen = TextIO::toFEN(pos);
            if (fen != ref::toFEN(r)) return "toFEN gives '" + fen + "', model '" + ref::toFEN(r) + "'";
            try { rt = TextIO::readFEN(fen); }
            catch (const ChessParseError& e) { return std::string("readFEN rejects toFEN output: ") + e.what(); }
            std::string e = sameAll(rt, norm);
            if (!e.empty()) return "readFEN(toFEN(p)) vs fixupEPSquare(p): " + e;
        }
        // 7. deSerialize(serialize(p)) == p   (format keeps 8 bits of the half-move clock, 16 of the move counter)
        if (r.hmc <= 255 && r.fmc <= 65535) {
            Position::SerializeData sd, sd2;
            pos.serialize(sd);
            Position q;
            q.deSerialize(sd);
            std::string e = sameAll(q, pos);
            if (!e.empty()) return "deSerialize(serialize(p)) vs p: " + e;
            q.serialize(sd2);
            if (memcmp(&sd, &sd2, sizeof sd) != 0) return "serialize(deSerialize(serialize(p))) bytes differ";
        } else st.count("serialize skipped (clock beyond format width)");
        // 8. equal positions (normalised) => equal hash keys, over the whole run
        {
            ref::Pos n = r;
            ref::normalizeEp(n);
            std::string key = ref::boardStr(n) + (n.wtm ? " w " : " b ") + ref::castleStr(n) + " " + (n.ep >= 0 ? ref::sqName(n.ep) : "-");
            uint64_t fp1 = vh::fnv(key), fp2 = vh::mix(vh::fnv(key, 0x9e3779b97f4a7c15ULL));
            if (keyOut) *keyOut = fp1;
            auto it = seen.find(fp1);
            if (it == seen.end()) { if (seen.size() < seenCap) seen.emplace(fp1, HashSeen{fp2, norm.zobristHash(), predKey}); }
            else if (it->second.fp2 == fp2) {
                if (it->second.zob != norm.zobristHash()) return "position " + key + " had hash key " + std::to_string(it->second.zob) + " earlier in this run, now " + std::to_string(norm.zobristHash());
                if (viaMake && it->second.pred != predKey) f.transp = true;
            }
        }
        if (wq >= 6 || bq >= 6) f.sixQueens = true;
        if (bq >= 6) f.sixBlackQueens = true;
        return "";
    }

    void run(const std::string& sub, const Case& k) {
        st.evaluations++;
        f = Flags();
        vh::setCurrent(sub, caseJson(k));
        Model md;
        if (!ref::fromFEN(k.fen, md.p) || !ref::sane(md.p)) vh::fail(caseJson(k, 0), "case does not start from a legal position");
        ref::normalizeEp(md.p); // texel's reader normalises
        std::unique_ptr<Position> pos(new Position(TextIO::readFEN(k.fen)));
        const Position start(*pos);
        Position::SerializeData startBytes;
        start.serialize(startBytes);
        const ref::Pos startModel = md.p;
        std::vector<Entry> stack;
        std::vector<bool> special; // per stack entry: the move was e.p./castling/capture-promotion/rook-home capture
        std::vector<uint64_t> keys; // position key per depth
        uint64_t key = 0;
        auto bad = [&](size_t i, const std::string& msg) {
            vh::fail(caseJson(k, i + 1), "after command " + std::to_string(i) + " (" + (i < k.ops.size() ? opStr(k.ops[i]) : "start") + "): " + msg +
                     "  [model " + ref::toFEN(md.p) + ", depth " + std::to_string(md.stack.size()) + "]");
        };
        {
            std::string e = verify(*pos, md.p, 0, false, &key);
            if (!e.empty()) vh::fail(caseJson(k, 0), "start position: " + e);
            keys.push_back(key);
        }
        auto unmakeOne = [&]() {
            Entry en = stack.back(); stack.pop_back();
            if (en.isNull) {   // inverse of the null-move edit, in search.cpp's order
                pos->setEpSquare(en.nullEp);
                pos->setWhiteMove(!pos->isWhiteMove());
                pos->setHalfMoveClock(en.nullHmc);
            } else pos->unMakeMove(en.m, en.ui);
            if (special.back()) f.takeBackAcross = true;
            special.pop_back();
            md.unmake();
            keys.pop_back();
        };
        for (size_t i = 0; i < k.ops.size(); i++) {
            const Op& op = k.ops[i];
            bool viaMake = false;
            uint64_t pred = keys.back();
            switch (op.k) {
            case MAKE: {
                if (!ref::isLegal(md.p, op.m)) vh::fail(caseJson(k, i + 1), "case lists an illegal move " + op.m.uci());
                const ref::Pos& b = md.p;
                bool ep = ref::isEp(b, op.m), castle = ref::isCastle(b, op.m), cap = ref::isCapture(b, op.m);
                bool capPromo = cap && op.m.promo;
                bool rookHome = (op.m.to == 0 && b.cQ) || (op.m.to == 7 && b.cK) || (op.m.to == 56 && b.cq) || (op.m.to == 63 && b.ck);
                if (ep) f.ep = true; if (castle) f.castle = true; if (capPromo) f.capPromo = true; if (rookHome) f.rookHome = true;
                if (op.m.promo) f.promo = true;
                Entry en; en.isNull = false; en.m = tx::toTexel(op.m, b.wtm); en.nullHmc = 0;
                pos->makeMove(en.m, en.ui);
                // the undo record must describe the position left behind
                int expCap = tx::pieceCode(b.b[op.m.to]);
                int expMask = (b.cQ ? 1 << Position::A1_CASTLE : 0) | (b.cK ? 1 << Position::H1_CASTLE : 0) |
                              (b.cq ? 1 << Position::A8_CASTLE : 0) | (b.ck ? 1 << Position::H8_CASTLE : 0);
                std::string uerr;
                if (en.ui.capturedPiece != expCap) uerr = "UndoInfo.capturedPiece";
                else if (en.ui.castleMask != expMask) uerr = "UndoInfo.castleMask";
                else if ((en.ui.epSquare.isValid() ? en.ui.epSquare.asInt() : -1) != b.ep) uerr = "UndoInfo.epSquare";
                else if (en.ui.halfMoveClock != b.hmc) uerr = "UndoInfo.halfMoveClock";
                stack.push_back(en); special.push_back(ep || castle || capPromo || rookHome);
                md.make(op.m);
                if (!uerr.empty()) bad(i, uerr + " does not describe the previous position");
                viaMake = true;
                st.count("steps:make");
                break;
            }
            case UNMAKE:
                if (stack.empty()) vh::fail(caseJson(k, i + 1), "case unmakes at depth 0");
                unmakeOne();
                st.count("steps:unmake");
                break;
            case UNMAKE_ALL:
                while (!stack.empty()) unmakeOne();
                st.count("steps:unmake-all");
                break;
            case NULLMV: {
                if (!md.nullAllowed()) vh::fail(caseJson(k, i + 1), "case lists a null move where the search would not make one");
                Entry en; en.isNull = true; en.ui = UndoInfo{0, 0, Square(-1), 0};
                // exactly the statement sequence of Search::negaScout (lib/texellib/search.cpp)
                pos->setWhiteMove(!pos->isWhiteMove());
                en.nullEp = pos->getEpSquare();
                pos->setEpSquare(Square(-1));
                en.nullHmc = pos->getHalfMoveClock();
                pos->setHalfMoveClock(0);
                stack.push_back(en); special.push_back(false);
                md.null();
                f.null = true;
                st.count("steps:null-move");
                break;
            }
            case COPY_CTOR: {
                std::unique_ptr<Position> n(new Position(*pos));
                std::string e = sameAll(*n, *pos);
                if (!e.empty()) bad(i, "copy-constructed position: " + e);
                pos = std::move(n);
                st.count("steps:copy");
                break;
            }
            case ASSIGN: {
                std::unique_ptr<Position> n(new Position(start)); // target holds another position first
                *n = *pos;
                std::string e = sameAll(*n, *pos);
                if (!e.empty()) bad(i, "assigned position: " + e);
                pos = std::move(n);
                st.count("steps:copy");
                break;
            }
            case MOVE_ASSIGN: {
                std::unique_ptr<Position> n(new Position());
                Position src(*pos);
                *n = std::move(src);
                std::string e = sameAll(*n, *pos);
                if (!e.empty()) bad(i, "move-assigned position: " + e);
                pos = std::move(n);
                st.count("steps:copy");
                break;
            }
            case MOVE_CTOR: {
                Position src(*pos);
                std::unique_ptr<Position> n(new Position(std::move(src)));
                std::string e = sameAll(*n, *pos);
                if (!e.empty()) bad(i, "move-constructed position: " + e);
                pos = std::move(n);
                st.count("steps:copy");
                break;
            }
            case SERIAL: {
                if (md.p.hmc > 255 || md.p.fmc > 65535) { st.count("serialize skipped (clock beyond format width)"); break; }
                Position::SerializeData sd;
                pos->serialize(sd);
                std::unique_ptr<Position> n(new Position(start)); // target holds another position first
                n->deSerialize(sd);
                std::string e = sameAll(*n, *pos);
                if (!e.empty()) bad(i, "deSerialize(serialize(p)) vs p: " + e);
                pos = std::move(n);
                st.count("steps:serialize");
                break;
            }
            case FENRT: {
                std::unique_ptr<Position> n;
                try { n.reset(new Position(TextIO::readFEN(TextIO::toFEN(*pos)))); }
                catch (const ChessParseError& e) { bad(i, std::string("readFEN rejects toFEN output: ") + e.what()); }
                Position norm(*pos);
                TextIO::fixupEPSquare(norm);
                std::string e = sameAll(*n, norm);
                if (!e.empty()) bad(i, "readFEN(toFEN(p)) vs fixupEPSquare(p): " + e);
                pos = std::move(n);
                ref::normalizeEp(md.p);
                st.count("steps:fen-roundtrip");
                break;
            }
            }
            std::string e = verify(*pos, md.p, pred, viaMake, &key);
            if (!e.empty()) bad(i, e);
            if (op.k == MAKE || op.k == NULLMV) keys.push_back(key);
            else keys.back() = key;
        }
        // take everything back: bit-identical start position
        {
            size_t n = k.ops.size();
            while (!stack.empty()) {
                unmakeOne();
                std::string e = verify(*pos, md.p, 0, false, &key);
                if (!e.empty()) vh::fail(caseJson(k), "while taking everything back (depth " + std::to_string(stack.size()) + "): " + e + "  [model " + ref::toFEN(md.p) + "]");
            }
            (void)n;
            std::string e = tx::diff(*pos, startModel, 0);
            if (!e.empty()) vh::fail(caseJson(k), "after taking everything back, vs start model: " + e);
            e = sameAll(*pos, start);
            if (!e.empty()) vh::fail(caseJson(k), "after taking everything back the position differs from the start: " + e);
            Position::SerializeData sd;
            pos->serialize(sd);
            if (memcmp(&sd, &startBytes, sizeof sd) != 0) vh::fail(caseJson(k), "after taking everything back serialize() is not byte-identical to the start");
        }
        vh::clearCurrent();
        // evidence
        auto mk = [&]() { Value v = caseJson(k); return v; };
        if (f.ep) st.clsSample("e.p. capture", mk);
        if (f.castle) st.clsSample("castling", mk);
        if (f.capPromo) st.clsSample("capture-promotion", mk);
        if (f.rookHome) st.clsSample("rook captured on home square (right lost)", mk);
        if (f.takeBackAcross) st.clsSample("take-back across special move", mk);
        if (f.sixQueens) st.clsSample(">=6 queens of one colour", mk);
        if (f.sixBlackQueens) st.cls(">=6 black queens");
        if (f.transp) st.clsSample("transposition hit", mk);
        if (f.null) st.cls("null-move edit");
        if (f.promo) st.cls("promotion");
        { ref::Pos sp; if (ref::fromFEN(k.fen, sp) && sp.hmc >= 100) st.clsSample("start with half-move clock >= 100", mk); }
        bool nt = f.ep || f.castle || f.capPromo || f.rookHome || f.takeBackAcross || f.sixQueens || f.transp;
        if (nt) st.nt(vj::dump(caseJson(k))); else st.cls("plain");
        st.count("steps:total", (long)k.ops.size());
    }
};

} // namespace

int main(int argc, char** argv) {
    vh::Args a = vh::parseArgs(argc, argv);
    vh::installDeathHooks();
    vh::Stats& st = vh::ctx().stats;
    // every texel program starts like this (app/texel/texel.cpp, texelutil): sets ::pieceValue[]
    ComputerPlayer::initEngine();
    if (::pieceValue[Piece::WPAWN] != (int)pV || (int)pV <= 0 || ::pieceValue[Piece::BQUEEN] != (int)qV) {
        fprintf(stderr, "c02: piece values not initialised; no verdict\n");
        return 2;
    }
    Runner rn(st);
    if (!a.replay.empty()) {
        return vh::runReplay([&](const std::string& sub, const Value& k) {
            Case c;
            c.fen = k.getStr("fen");
            for (auto& s : k.strs("ops")) { Op o; if (!opParse(s, o)) vh::fail(k, "replay file: unknown command " + s); c.ops.push_back(o); }
            rn.run(sub, c);
        });
    }
    long n = a.cases;
    int maxSteps = (int)a.num("steps", 300);
    long nPromo = n / 5;
    vh::runProp("sequences", n - nPromo, 10.0, [&](Choices& c) {
        Case k = decode(c, false, maxSteps);
        rn.run("sequences", k);
    });
    vh::runProp("promo", nPromo, 10.0, [&](Choices& c) {
        Case k = decode(c, true, maxSteps);
        rn.run("promo", k);
    });
    return vh::finish();
}
