// C11  Draws by repetition and the 50-move rule are recognised.
//  (UCI part)  generated game histories h + final move m; `position ... moves h`,
//      `go depth d searchmoves m [m2]` on the real engine binary; if refchess
//      (FIDE 9.2 identity = ref::repKey, legal e.p. notion; 9.3 = half-move clock)
//      says m produces a third occurrence or reaches hmc >= 100 without mate, every
//      exact score line for m must be `cp 0`; if m mates: `mate 1`.
//  (Console part)  a model of lib/texellib/game.cpp's Game written on refchess; the
//      same command stream goes to Game (two HumanPlayer stubs) and to the model;
//      accepted/rejected, getGameState(), haveDrawOffer() and the position are
//      compared after every command.  ComputerPlayer::getCommand answers are fed in
//      as commands too; a draw claim it makes must be valid for the model.
// See DESIGN.md §3 C11.
#include "common/vh.hpp"
#include "common/gen.hpp"
#include "common/tx.hpp"
#include "common/uci.hpp"
#include "game.hpp"
#include "humanPlayer.hpp"
#include "computerPlayer.hpp"
#include <algorithm>
#include <iostream>
#include <memory>
#include <sstream>

using vh::Value;
using vh::Choices;

// declared friend of ComputerPlayer in the repository: bounds the search by depth so that no clock matters
class ComputerPlayerTest {
public:
    static void limit(ComputerPlayer& cp, int depth) { cp.maxDepth = depth; cp.maxNodes = -1; cp.minTimeMillis = cp.maxTimeMillis = 100000000; cp.bookEnabled = false; }
};

namespace {

std::string gExe, gWork, gNet, gNetDir;
int gAnswerMs = 60000;

// =====================================================================================
// shared constructions
// =====================================================================================

bool reversible(const ref::Pos& p, const ref::Move& m) {
    return !ref::isCapture(p, m) && ref::lower(p.b[m.from]) != 'p' && !ref::isCastle(p, m);
}
ref::Move inverse(const ref::Move& m) { ref::Move r; r.from = m.to; r.to = m.from; return r; }

// A 4-ply there-and-back cycle from p: a, b, a^-1, b^-1 (all reversible, all legal).  Returns false if none found.
bool findCycle(Choices& c, const ref::Pos& p, ref::Move out[4]) {
    std::vector<ref::Move> la;
    for (auto& m : ref::legalMoves(p)) if (reversible(p, m)) la.push_back(m);
    for (int tries = 0; tries < 6 && !la.empty(); tries++) {
        ref::Move a = la[c.pick((int)la.size())];
        ref::Pos p1 = ref::make(p, a);
        std::vector<ref::Move> lb;
        for (auto& m : ref::legalMoves(p1)) if (reversible(p1, m)) lb.push_back(m);
        for (int t2 = 0; t2 < 4 && !lb.empty(); t2++) {
            ref::Move b = lb[c.pick((int)lb.size())];
            ref::Pos p2 = ref::make(p1, b);
            ref::Move ai = inverse(a), bi = inverse(b);
            if (!ref::isLegal(p2, ai) || !reversible(p2, ai)) continue;
            ref::Pos p3 = ref::make(p2, ai);
            if (!ref::isLegal(p3, bi) || !reversible(p3, bi)) continue;
            ref::Pos p4 = ref::make(p3, bi);
            if (!p4.sameBoard(p) || p4.wtm != p.wtm) continue;
            out[0] = a; out[1] = b; out[2] = ai; out[3] = bi;
            return true;
        }
    }
    return false;
}

// Predecessor of a position in which a double push has just been played (p.ep names the skipped square).
bool unpush(const ref::Pos& p, ref::Pos& pred, ref::Move& push) {
    if (p.ep < 0) return false;
    int x = ref::X(p.ep);
    int toY = p.wtm ? 4 : 3, fromY = p.wtm ? 6 : 1; // the pusher is the side NOT to move
    char pawn = p.wtm ? 'p' : 'P';
    if (p.b[ref::SQ(x, toY)] != pawn || p.b[p.ep] != '.' || p.b[ref::SQ(x, fromY)] != '.') return false;
    pred = p; pred.b[ref::SQ(x, toY)] = '.'; pred.b[ref::SQ(x, fromY)] = pawn;
    pred.wtm = !p.wtm; pred.ep = -1; pred.hmc = 0;
    if (!p.wtm) pred.fmc = p.fmc; else pred.fmc = std::max(1, p.fmc - 1);
    if (!ref::sane(pred)) return false;
    push.from = ref::SQ(x, fromY); push.to = ref::SQ(x, toY); push.promo = 0;
    if (!ref::isLegal(pred, push)) return false;
    return ref::make(pred, push).sameBoard(p);
}

// Own e.p. constructions: returns the position BEFORE the double push and the push.
// flavour 0: e.p. capture legal, 1: pseudo-only (capturer pinned / capture exposes the king), 2: no capturer
bool epConstruction(Choices& c, ref::Pos& pred, ref::Move& push, int& flavour) {
    static const std::vector<std::string> fixed = {
        "3k4/8/8/8/3p4/8/4P3/3R2K1 w - - 0 1 e2e4",     // d-file pin (D7)
        "4k2n/8/8/8/4p3/8/3P4/3KR2N w - - 0 1 d2d4",    // e-file pin (GameTest)
        "8/8/8/8/k2p3R/8/4P3/4K3 w - - 0 1 e2e4",       // rank pin: both pawns leave the 4th rank
        "4k3/4p3/8/3P3r/8/8/8/4K2R b K - 0 1 e7e5",     // legal e.p., white keeps a castling right
        "8/2p5/8/KP5r/8/8/8/7k b - - 0 1 c7c5",         // rank pin against the white king (classic perft position 3 motif)
        "4k3/8/8/8/2p5/8/1P6/4K3 w - - 0 1 b2b4",       // legal e.p., bare
        "4k3/3p4/8/4P3/8/8/8/4K2Q b - - 0 1 d7d5",      // legal e.p.
        "b3k3/8/8/8/4p3/8/3P2K1/8 w - - 0 1 d2d4",      // capture exd3 legal (bishop diagonal is not opened by it)
        "4k3/8/8/8/4p3/8/3P4/4K3 w - - 0 1 d2d4",       // legal
        "4k3/8/8/8/7p/8/P7/4K3 w - - 0 1 a2a4",         // absent
    };
    if (c.chance(1, 3)) {
        std::vector<std::string> t = uci::split(c.of(fixed));
        std::string fen = t[0] + " " + t[1] + " " + t[2] + " " + t[3] + " " + t[4] + " " + t[5];
        ref::fromFEN(fen, pred); push = ref::Move::fromUci(t[6]);
        if (!ref::sane(pred) || !ref::isLegal(pred, push)) return false;
    } else if (c.chance(1, 3)) {
        // file pin built by hand: capturer on file F in front of its king, enemy rook/queen behind; pusher's pawn on F+-1
        bool w = c.flip(); // pusher colour
        int F = c.range(0, 7), G = F == 0 ? 1 : F == 7 ? 6 : (c.flip() ? F - 1 : F + 1);
        auto Y = [&](int y) { return w ? y : 7 - y; };
        ref::Pos p;
        p.b[ref::SQ(F, Y(3))] = w ? 'p' : 'P';                          // capturer stands beside the target square of the push
        p.b[ref::SQ(G, Y(1))] = w ? 'P' : 'p';                          // pusher's pawn on its home square
        p.b[ref::SQ(F, Y(c.range(5, 7)))] = w ? 'k' : 'K';              // capturer's king further up the file
        p.b[ref::SQ(F, Y(c.range(0, 1)))] = w ? (c.flip() ? 'R' : 'Q') : (c.flip() ? 'r' : 'q');
        int ks = gen::emptySquare(c, p, 0, 7); if (ks >= 0) p.b[ks] = w ? 'K' : 'k';
        int extra = c.range(0, 3);
        for (int i = 0; i < extra; i++) { int s = gen::emptySquare(c, p, 1, 6); if (s >= 0 && ref::X(s) != F) p.b[s] = c.of(std::vector<char>{'N', 'n', 'B', 'b', 'P', 'p', 'R', 'r'}); }
        p.wtm = w; p.hmc = 0; p.fmc = 1 + c.pick(40);
        pred = p; push.from = ref::SQ(G, Y(1)); push.to = ref::SQ(G, Y(3)); push.promo = 0;
        if (!ref::sane(pred) || !ref::isLegal(pred, push)) return false;
    } else {
        gen::Placed pl = gen::place(c, c.chance(3, 4) ? gen::T_EPPIN : -1);
        if (!pl.ok || pl.p.ep < 0) return false;
        if (!unpush(pl.p, pred, push)) return false;
    }
    ref::Pos after = ref::make(pred, push);
    flavour = after.ep < 0 ? 2 : ref::legalEp(after) ? 0 : 1;
    return true;
}

// mate-in-one positions (side to move mates with a reversible move where possible)
bool mateInOne(Choices& c, ref::Pos& out, ref::Move& mate, bool wantReversible) {
    static const std::vector<std::string> cls = {"R", "Q", "RR", "QR", "Qr", "Rn", "RB", "Qb", "RN"};
    for (int attempt = 0; attempt < 12; attempt++) {
        ref::Pos p;
        bool flipCol = c.flip();
        int e = c.range(0, 7), side = c.pick(4);
        int bk = side == 0 ? ref::SQ(e, 7) : side == 1 ? ref::SQ(e, 0) : side == 2 ? ref::SQ(0, e) : ref::SQ(7, e);
        int x = ref::X(bk), y = ref::Y(bk);
        int dx = side == 2 ? 2 : side == 3 ? -2 : c.range(-1, 1), dy = side == 0 ? -2 : side == 1 ? 2 : c.range(-1, 1);
        if (!ref::onBoard(x + dx, y + dy)) continue;
        p.b[bk] = 'k'; p.b[ref::SQ(x + dx, y + dy)] = 'K';
        for (char m : c.of(cls)) { int s = gen::emptySquare(c, p); if (s >= 0) p.b[s] = m; }
        p.wtm = true;
        if (flipCol) { // swap colours and mirror vertically
            ref::Pos q; for (int s = 0; s < 64; s++) { char ch = p.b[s]; if (ch != '.') q.b[ref::SQ(ref::X(s), 7 - ref::Y(s))] = ref::isWhite(ch) ? ref::lower(ch) : ref::upper(ch); }
            q.wtm = false; p = q;
        }
        if (!ref::sane(p)) continue;
        std::vector<ref::Move> ms;
        for (auto& m : ref::legalMoves(p)) if ((!wantReversible || reversible(p, m)) && ref::isMate(ref::make(p, m))) ms.push_back(m);
        if (ms.empty()) continue;
        mate = ms[c.pick((int)ms.size())]; out = p;
        return true;
    }
    return false;
}

// =====================================================================================
// UCI part
// =====================================================================================
struct UciCase {
    std::string net, fen, kind;
    std::vector<std::string> moves; // history h
    std::string m, m2;              // final move (and an optional second root move)
    int depth = 1, multipv = 1;
};
Value toJson(const UciCase& k) {
    Value v = Value::object();
    v["net"] = k.net; v["kind"] = k.kind; v["fen"] = k.fen; v["moves"] = Value::arrayOf(k.moves); v["m"] = k.m; v["m2"] = k.m2; v["depth"] = k.depth; v["multipv"] = k.multipv;
    return v;
}
UciCase uciFrom(const Value& v) {
    UciCase k; k.net = v.getStr("net"); k.kind = v.getStr("kind"); k.fen = v.getStr("fen"); k.moves = v.strs("moves"); k.m = v.getStr("m"); k.m2 = v.getStr("m2");
    k.depth = (int)v.getInt("depth", 1); k.multipv = (int)v.getInt("multipv", 1);
    return k;
}

struct Verdict {
    int expect = 0;          // 0 nothing demanded, 1 draw (cp 0), 2 mate 1
    bool third = false, fifty = false, mate = false, hmc100exact = false;
    int occurrences = 0, nearestBack = 0, farthestBack = 0, epFlavour = -1 /* of the first earlier occurrence: 0 legal 1 pseudo-only 2 absent -1 n/a */;
    bool castleDiff = false, crossesIrreversible = false, firstIsStart = false, legalEpTwin = false;
    int histLen = 0, hmcAfter = 0;
    ref::Pos root, after;
    bool ok = false;
};

Verdict judge(const UciCase& k) {
    Verdict v;
    gen::Game g;
    if (!gen::gameFrom(k.fen, k.moves, g)) return v;
    v.root = g.pos.back();
    ref::Move m = ref::Move::fromUci(k.m);
    if (!ref::isLegal(v.root, m)) return v;
    if (!k.m2.empty() && !ref::isLegal(v.root, ref::Move::fromUci(k.m2))) return v;
    v.ok = true;
    v.after = ref::make(v.root, m);
    v.histLen = (int)k.moves.size();
    v.hmcAfter = v.after.hmc;
    v.mate = ref::isMate(v.after);
    std::string key = ref::repKey(v.after);
    v.occurrences = 1;
    int n = (int)g.pos.size();
    int firstIdx = -1;
    for (int i = n - 1; i >= 0; i--) {
        if (ref::repKey(g.pos[i]) == key) {
            v.occurrences++;
            int back = n - i; // plies between that occurrence and the position after m
            if (!v.nearestBack) v.nearestBack = back;
            v.farthestBack = back; firstIdx = i;
        } else if (g.pos[i].sameBoard(v.after) && g.pos[i].wtm == v.after.wtm) {
            if (ref::castleStr(g.pos[i]) != ref::castleStr(v.after)) v.castleDiff = true;
        }
    }
    v.third = v.occurrences >= 3;
    if (firstIdx >= 0) {
        v.firstIsStart = firstIdx == 0;
        // was the first counted occurrence reached by a double push?
        if (firstIdx > 0) {
            const ref::Pos& b = g.pos[firstIdx - 1]; const ref::Move& pm = g.moves[firstIdx - 1];
            if (ref::lower(b.b[pm.from]) == 'p' && abs(ref::Y(pm.to) - ref::Y(pm.from)) == 2)
                v.epFlavour = g.pos[firstIdx].ep < 0 ? 2 : 1; // a *counted* occurrence after a double push never has a legal e.p. (its key would differ)
        }
    }
    // same placement right after a double push with a legal e.p. capture: exists but is not counted
    for (int i = 1; i < n; i++)
        if (g.pos[i].sameBoard(v.after) && g.pos[i].wtm == v.after.wtm && ref::legalEp(g.pos[i]) && !ref::legalEp(v.after)) v.legalEpTwin = true;
    for (int i = 0; i + 1 < n; i++) if (g.pos[i + 1].hmc == 0) v.crossesIrreversible = true;
    v.fifty = v.after.hmc >= 100 && !v.mate;
    v.hmc100exact = v.after.hmc == 100;
    v.expect = v.mate ? 2 : (v.third || v.fifty) ? 1 : 0;
    return v;
}

// persistent engine session (one net per harness process); every case starts with ucinewgame (= Clear Hash)
struct Session {
    std::unique_ptr<uci::Engine> e;
    std::string net;
    bool up(const std::string& netFile) {
        if (e && !e->reaped && !e->eof && net == netFile) return true;
        e.reset(new uci::Engine());
        net = netFile;
        if (!e->start(gExe, {"TEXEL_VERIF_NET=" + netFile}, gWork + "/engine.err")) { e.reset(); return false; }
        e->send("uci");
        if (e->waitLine("uciok", 60000) < 0) { e.reset(); return false; }
        e->send("setoption name Hash value 1");
        e->send("isready");
        if (e->waitLine("readyok", 60000) < 0) { e.reset(); return false; }
        return true;
    }
    void drop() { e.reset(); }
};
Session gSession;

std::string netFile(const UciCase& k) { return k.net.empty() ? gNet : (k.net.find('/') != std::string::npos ? k.net : gNetDir + "/" + k.net + ".net"); }

// returns "" / error; sets inconclusive
std::string runUci(const UciCase& k, const Verdict& v, bool fresh, bool& inconclusive, std::vector<std::string>& lines) {
    if (fresh) gSession.drop();
    if (!gSession.up(netFile(k))) { inconclusive = true; return ""; }
    if (gSession.e->log.size() > 20000) { gSession.drop(); if (!gSession.up(netFile(k))) { inconclusive = true; return ""; } }
    uci::Engine& en = *gSession.e;
    en.send("ucinewgame");
    en.send("setoption name MultiPV value " + std::to_string(k.multipv));
    std::string pos = "position fen " + k.fen;
    if (!k.moves.empty()) { pos += " moves"; for (auto& m : k.moves) pos += " " + m; }
    en.send(pos);
    size_t from = en.log.size();
    en.scanPos = from;
    en.send("go depth " + std::to_string(k.depth) + " searchmoves " + k.m + (k.m2.empty() ? "" : " " + k.m2));
    int bi = en.waitPrefix("bestmove", gAnswerMs);
    if (bi < 0) {
        bool dead = en.tryReap();
        std::string err = dead ? "engine died: " + en.exitDesc() + " " + en.stderrText(800) : "";
        gSession.drop();
        if (!dead) inconclusive = true;
        return err;
    }
    lines.clear();
    for (size_t i = from; i <= (size_t)bi; i++) if (en.log[i].dir == '<') lines.push_back(en.log[i].line);
    if (v.expect == 0) return "";
    int exact = 0; std::string last;
    for (auto& l : lines) {
        if (uci::classify(l) != uci::K_INFO_PV) continue;
        uci::Info inf; uci::parseInfo(l, inf);
        if (inf.pv.empty() || inf.pv[0] != k.m) continue;
        last = l;
        if (inf.upper || inf.lower) continue;
        exact++;
        if (v.expect == 1 && (inf.mate || inf.score != 0))
            return "move " + k.m + " " + (v.third ? "produces the " + std::to_string(v.occurrences) + ". occurrence of a position" : "reaches half-move clock " + std::to_string(v.hmcAfter) + " without mate") + " but is scored '" + l + "'";
        if (v.expect == 2 && !(inf.mate && inf.score == 1)) return "move " + k.m + " mates but is scored '" + l + "'";
    }
    if (k.m2.empty()) {
        if (!exact) return "no exact score line for the only root move " + k.m;
        uci::Info inf; uci::parseInfo(last, inf);
        if (inf.upper || inf.lower) return "the final score line for " + k.m + " is a bound: '" + last + "'";
    }
    return "";
}

void classifyUci(const UciCase& k, const Verdict& v, vh::Stats& st) {
    auto mk = [&]() { Value j = toJson(k); j["occurrences"] = v.occurrences; j["hmc_after"] = v.hmcAfter; return j; };
    if (v.expect == 0) { st.cls("uci: nothing demanded (no third occurrence, hmc < 100, no mate)"); if (v.occurrences == 2) st.cls("uci: second occurrence only (nothing demanded)"); return; }
    if (v.third && !v.mate) {
        st.clsSample("uci: third occurrence", mk);
        st.cls(v.histLen % 2 ? "uci: third occurrence, odd history length" : "uci: third occurrence, even history length");
        if (v.nearestBack >= 8) st.cls("uci: nearest earlier occurrence >= 8 plies back");
        if (v.occurrences >= 4) st.cls("uci: fourth or later occurrence");
        if (v.crossesIrreversible) st.cls("uci: third occurrence, irreversible move earlier in the history");
        if (v.castleDiff) st.clsSample("uci: third occurrence, same placement with other castling rights also in history", mk);
        if (v.legalEpTwin) st.clsSample("uci: third occurrence, same placement with a legal e.p. capture earlier (not counted)", mk);
        if (v.epFlavour == 1) st.clsSample("uci: third occurrence, first one right after a double push with pseudo-only e.p.", mk);
        if (v.epFlavour == 2) st.clsSample("uci: third occurrence, first one right after a double push without capturer", mk);
        if (v.firstIsStart) st.cls("uci: third occurrence, first one is the FEN position");
    }
    if (v.fifty) {
        st.cls("uci: hmc >= 100 without mate");
        if (v.hmc100exact) st.clsSample("uci: hmc 99 -> 100", mk);
        if (v.histLen >= 60) st.cls("uci: hmc reached by play (>= 60 history plies)");
        if (v.histLen > 100) st.cls("uci: more than 100 history plies");
    }
    if (v.mate) { st.cls("uci: m mates"); if (v.hmcAfter >= 100) st.clsSample("uci: mate on the move that reaches hmc >= 100", mk); }
    if (!k.m2.empty()) st.cls("uci: two root moves");
    if (k.multipv > 1 && !k.m2.empty()) st.cls("uci: MultiPV 2 with two root moves");
    st.nt(vj::dump(toJson(k)));
}

void runAndJudgeUci(const UciCase& k, vh::Stats& st, bool replay) {
    st.evaluations++;
    Verdict v = judge(k);
    if (!v.ok) { st.discarded++; if (replay) vh::fail(toJson(k), "replay file does not describe a legal case"); return; }
    bool inc = false; std::vector<std::string> lines;
    std::string e = runUci(k, v, replay, inc, lines);
    if (inc) { st.inconclusive++; return; }
    classifyUci(k, v, st);
    if (e.empty()) return;
    if (!replay) { // confirm in a fresh process so that the replay file stands on its own
        bool inc2 = false; std::vector<std::string> l2;
        std::string e2 = runUci(k, v, true, inc2, l2);
        if (e2.empty() || inc2) { st.count("uci: failure seen in a session but not in a fresh process (not reported)"); fprintf(stderr, "C11 NOTE unconfirmed: %s\n  %s\n", e.c_str(), vj::dump(toJson(k)).c_str()); return; }
        e = e2; lines = l2;
    }
    Value j = toJson(k);
    j["occurrences"] = v.occurrences; j["hmc_after"] = v.hmcAfter; j["root"] = ref::toFEN(v.root); j["transcript"] = Value::arrayOf(lines);
    vh::fail(j, e);
}

// ---- UCI generators ---------------------------------------------------------------
void appendCycles(Choices& c, gen::Game& g, int cycles, bool vary) {
    ref::Move cyc[4]; bool have = false;
    auto fits = [&](const ref::Pos& p) { ref::Pos q = p; for (int j = 0; j < 4; j++) { if (!ref::isLegal(q, cyc[j]) || !reversible(q, cyc[j])) return false; q = ref::make(q, cyc[j]); } return q.sameBoard(p); };
    for (int i = 0; i < cycles; i++) {
        if (!have || (vary && c.chance(1, 2)) || !fits(g.pos.back())) {
            ref::Move fresh[4];
            if (findCycle(c, g.pos.back(), fresh)) { for (int j = 0; j < 4; j++) cyc[j] = fresh[j]; have = true; }
            else if (!have || !fits(g.pos.back())) return;
        }
        for (int j = 0; j < 4; j++) { g.moves.push_back(cyc[j]); g.pos.push_back(ref::make(g.pos.back(), cyc[j])); }
    }
}
void pushMove(gen::Game& g, const ref::Move& m) { g.moves.push_back(m); g.pos.push_back(ref::make(g.pos.back(), m)); }

// Cut the game: history = first `cut` moves, m = move number cut
bool caseFromGame(const gen::Game& g, size_t cut, Choices& c, UciCase& k) {
    if (g.moves.empty()) return false;
    cut = std::min(cut, g.moves.size() - 1);
    // give the engine the tail as history: start from a position early enough that all relevant occurrences are included
    size_t from = 0;
    if (c.chance(1, 4) && cut > 0) { // drop a prefix that lies before the last irreversible move (must not change the verdict)
        size_t lastZero = 0; for (size_t i = 1; i <= cut; i++) if (g.pos[i].hmc == 0) lastZero = i;
        from = lastZero > 0 ? (size_t)c.pick((int)lastZero + 1) : 0;
    }
    k.fen = ref::toFEN(g.pos[from]);
    k.moves.clear();
    for (size_t i = from; i < cut; i++) k.moves.push_back(g.moves[i].uci());
    k.m = g.moves[cut].uci();
    return true;
}
void drawSearchParams(Choices& c, UciCase& k, const ref::Pos& root) {
    k.depth = c.range(1, 6);
    k.multipv = c.chance(1, 3) ? 2 : 1;
    k.m2.clear();
    bool two = k.multipv == 2 ? c.chance(2, 3) : c.chance(1, 6);
    if (two) {
        std::vector<ref::Move> lm = ref::legalMoves(root);
        if (lm.size() >= 2) { for (int t = 0; t < 4; t++) { std::string u = lm[c.pick((int)lm.size())].uci(); if (u != k.m) { k.m2 = u; break; } } }
    }
}

bool genRepCase(Choices& c, UciCase& k) {
    k.kind = "rep";
    gen::Game g;
    int start = c.pick(10);
    if (start <= 3) { // after a double push (e.p. flavours)
        ref::Pos pred; ref::Move push; int fl;
        if (!epConstruction(c, pred, push, fl)) return false;
        g.startFen = ref::toFEN(pred); g.pos.push_back(pred);
        if (c.chance(1, 3)) { ref::Move cyc[4]; if (findCycle(c, pred, cyc)) for (int j = 0; j < 4; j++) pushMove(g, cyc[j]); }
        if (!ref::isLegal(g.pos.back(), push)) return false;
        pushMove(g, push);
        k.kind = "rep-ep";
    } else if (start <= 5) { // castling rights present: shuffles with king/rook lose them
        static const std::vector<std::string> cs = {"r3k2r/8/8/8/8/8/8/R3K2R w KQkq - 0 1", "r3k2r/pppppppp/8/8/8/8/PPPPPPPP/R3K2R b KQkq - 0 1",
            "4k2r/8/8/8/8/8/8/R3K3 w Qk - 0 1", "r3k2r/p6p/8/8/8/8/P6P/R3K2R w KQkq - 3 20", "rn2k2r/8/8/8/8/8/8/R3K1NR w KQkq - 0 1"};
        g = gen::game(c, 6, &c.of(cs), gen::KINGROOK);
        k.kind = "rep-castle";
    } else if (start <= 8) {
        g = gen::game(c, 60);
    } else {
        gen::Placed pl = gen::place(c);
        if (!pl.ok || !ref::sane(pl.p)) return false;
        g.startFen = ref::toFEN(pl.p); g.pos.push_back(pl.p);
    }
    if (ref::legalMoves(g.pos.back()).empty()) return false;
    size_t anchor = g.moves.size();
    int cycles = c.range(2, 5);
    if (k.kind == "rep-castle" && c.chance(1, 2)) { // a king/rook there-and-back first: the same placement returns without the rights
        const ref::Pos& p = g.pos.back(); std::vector<ref::Move> km;
        for (auto& m : ref::legalMoves(p)) { char pc = ref::lower(p.b[m.from]); if ((pc == 'k' || pc == 'r') && reversible(p, m)) km.push_back(m); }
        if (!km.empty()) {
            ref::Move a = km[c.pick((int)km.size())]; ref::Pos p1 = ref::make(p, a);
            std::vector<ref::Move> lb; for (auto& m : ref::legalMoves(p1)) if (reversible(p1, m)) lb.push_back(m);
            if (!lb.empty()) {
                ref::Move b = lb[c.pick((int)lb.size())]; ref::Pos p2 = ref::make(p1, b);
                if (ref::isLegal(p2, inverse(a)) && reversible(p2, inverse(a))) { ref::Pos p3 = ref::make(p2, inverse(a)); if (ref::isLegal(p3, inverse(b)) && reversible(p3, inverse(b))) { pushMove(g, a); pushMove(g, b); pushMove(g, inverse(a)); pushMove(g, inverse(b)); } }
            }
        }
    }
    appendCycles(c, g, cycles, c.chance(1, 2));
    if (c.chance(1, 5)) { // an irreversible move, then more cycles: occurrences before it must not count
        std::vector<ref::Move> z; const ref::Pos& p = g.pos.back();
        for (auto& m : ref::legalMoves(p)) if (!reversible(p, m) && !ref::isCastle(p, m)) z.push_back(m);
        if (!z.empty()) { pushMove(g, z[c.pick((int)z.size())]); anchor = g.moves.size(); appendCycles(c, g, c.range(1, 4), c.chance(1, 2)); }
    }
    if (g.moves.size() <= anchor) return false;
    // cut inside the shuffle: the last move of the list most often, otherwise anywhere in the last eight plies
    size_t L = g.moves.size();
    size_t cut = c.chance(1, 2) ? L - 1 : L - 1 - (size_t)c.pick((int)std::min<size_t>(8, L - anchor));
    if (!caseFromGame(g, cut, c, k)) return false;
    drawSearchParams(c, k, g.pos[cut]);
    return true;
}

bool genFiftyCase(Choices& c, UciCase& k) {
    k.kind = "fifty";
    gen::Game g;
    bool mate = c.chance(1, 3);
    ref::Pos base; ref::Move mm;
    if (mate) { if (!mateInOne(c, base, mm, !c.chance(1, 6))) return false; k.kind = "fifty-mate"; }
    else {
        int s = c.pick(4);
        if (s == 0) { gen::Placed pl = gen::place(c, gen::T_ENDGAME); if (!pl.ok) return false; base = pl.p; }
        else if (s == 1) { gen::Placed pl = gen::place(c); if (!pl.ok) return false; base = pl.p; }
        else { gen::Game pg = gen::game(c, 50); base = pg.pos.back(); }
        base.ep = -1;
    }
    if (!ref::sane(base) || ref::legalMoves(base).empty()) return false;
    int target = c.of(std::vector<int>{100, 100, 100, 99, 101, 104, 110, 98, 100, 95, 91, 100}); // half-move clock after m (when m is reversible)
    int sel = c.pick(8);
    int byPlay = sel < 3 ? c.range(0, 3) : sel < 5 ? c.range(4, 12) : sel < 7 ? c.range(20, 27) : 27; // cycles of 4 plies (27: the clock comes from play alone)
    bool longPlay = sel == 7;
    if (longPlay) target = c.of(std::vector<int>{110, 106, 110, 107}); // more than 100 history plies: texel then drops its hash list
    int h0 = target - 1 - 4 * byPlay;
    if (h0 < 0) { byPlay = (target - 1) / 4; h0 = target - 1 - 4 * byPlay; }
    base.hmc = h0; base.fmc = std::max(base.fmc, h0 / 2 + 1);
    g.startFen = ref::toFEN(base); g.pos.push_back(base);
    appendCycles(c, g, byPlay, c.chance(2, 3));
    if ((int)g.moves.size() != 4 * byPlay) { // no cycle available: give the clock by FEN instead
        g.moves.clear(); g.pos.resize(1); g.pos[0].hmc = target - 1; g.startFen = ref::toFEN(g.pos[0]);
    }
    const ref::Pos root = g.pos.back();
    ref::Move m;
    if (mate) { if (!ref::isLegal(root, mm)) return false; m = mm; }
    else {
        std::vector<ref::Move> lm = ref::legalMoves(root), rev;
        for (auto& x : lm) if (reversible(root, x) || ref::isCastle(root, x)) rev.push_back(x);
        if (lm.empty()) return false;
        m = (!rev.empty() && c.chance(5, 6)) ? rev[c.pick((int)rev.size())] : lm[c.pick((int)lm.size())];
    }
    pushMove(g, m);
    if (!caseFromGame(g, g.moves.size() - 1, c, k)) return false;
    // the FEN start must keep the clock: caseFromGame may only drop prefixes before an irreversible move (none here)
    drawSearchParams(c, k, root);
    return true;
}

bool genShuffleCase(Choices& c, UciCase& k) {
    k.kind = "shuffle";
    gen::Game g = gen::game(c, 80, nullptr, gen::SHUFFLE);
    if (g.moves.empty()) return false;
    // final move: prefer one that returns to a position seen before
    size_t cut = g.moves.size() - 1;
    const ref::Pos& root = g.pos[cut];
    std::vector<ref::Move> lm = ref::legalMoves(root), back;
    for (auto& m : lm) { std::string key = ref::repKey(ref::make(root, m)); for (size_t i = 0; i < cut; i++) if (ref::repKey(g.pos[i]) == key) { back.push_back(m); break; } }
    gen::Game h = g; h.moves.resize(cut); h.pos.resize(cut + 1);
    pushMove(h, !back.empty() && c.chance(3, 4) ? back[c.pick((int)back.size())] : lm[c.pick((int)lm.size())]);
    if (!caseFromGame(h, cut, c, k)) return false;
    drawSearchParams(c, k, root);
    return true;
}

// =====================================================================================
// Console part: model of Game
// =====================================================================================
enum MState { ALIVE, WHITE_MATE, BLACK_MATE, WHITE_STALEMATE, BLACK_STALEMATE, DRAW_REP, DRAW_50, DRAW_NO_MATE, DRAW_AGREE, RESIGN_WHITE, RESIGN_BLACK };
const char* stateName(int s) {
    static const char* n[] = {"ALIVE", "WHITE_MATE", "BLACK_MATE", "WHITE_STALEMATE", "BLACK_STALEMATE", "DRAW_REP", "DRAW_50", "DRAW_NO_MATE", "DRAW_AGREE", "RESIGN_WHITE", "RESIGN_BLACK"};
    return (s >= 0 && s <= 10) ? n[s] : "?";
}

struct Cmd { std::string text, kind, uci, fen; int cp = 0; /* > 0: the command is ComputerPlayer's answer at this search depth */ }; // kind: move illegal new setpos undo redo resign accept offer rep fifty

struct Model {
    std::vector<ref::Pos> pos;      // pos[0..cur] played, the rest is the redo tail
    std::vector<ref::Move> moves;
    std::vector<bool> offers;
    size_t cur = 0;
    bool pendingOffer = false;
    MState draw = ALIVE, resign = ALIVE;
    Model() { reset(ref::startPos()); }
    void reset(const ref::Pos& p) { pos.clear(); pos.push_back(p); moves.clear(); offers.clear(); cur = 0; pendingOffer = false; draw = ALIVE; resign = ALIVE; }
    const ref::Pos& now() const { return pos[cur]; }
    MState state() const {
        const ref::Pos& p = now();
        if (ref::legalMoves(p).empty()) return ref::inCheck(p) ? (p.wtm ? BLACK_MATE : WHITE_MATE) : (p.wtm ? WHITE_STALEMATE : BLACK_STALEMATE);
        if (ref::insufficientMaterial(p)) return DRAW_NO_MATE;
        if (resign != ALIVE) return resign;
        return draw;
    }
    bool haveOffer() const { return cur > 0 && offers[cur - 1]; }
    void play(const ref::Move& m) {
        moves.resize(cur); offers.resize(cur); pos.resize(cur + 1);
        moves.push_back(m); offers.push_back(pendingOffer); pendingOffer = false;
        pos.push_back(ref::make(pos[cur], m)); cur++;
    }
    int occurrences(const ref::Pos& target, bool extra) const { // FIDE 9.2: positions of the game so far (+ the one about to appear)
        std::string key = ref::repKey(target); int n = extra ? 1 : 0;
        for (size_t i = 0; i <= cur; i++) if (ref::repKey(pos[i]) == key) n++;
        return n;
    }
    bool claimValid(bool rep, const ref::Move* m) const {
        ref::Pos t = m ? ref::make(now(), *m) : now();
        return rep ? occurrences(t, m != nullptr) >= 3 : t.hmc >= 100;
    }
    // returns accepted
    bool apply(const Cmd& c) {
        ref::Move mv = ref::Move::fromUci(c.uci);
        bool legal = !c.uci.empty() && ref::isLegal(now(), mv);
        if (c.kind == "new") { reset(ref::startPos()); return true; }
        if (c.kind == "setpos") { ref::Pos p; ref::fromFEN(c.fen, p); ref::normalizeEp(p); reset(p); return true; }
        if (c.kind == "undo") { if (cur > 0) { cur--; pendingOffer = false; draw = ALIVE; resign = ALIVE; } return true; }
        if (c.kind == "redo") { if (cur < moves.size()) { cur++; pendingOffer = false; } return true; }
        if (c.kind == "resign") { if (state() == ALIVE) resign = now().wtm ? RESIGN_WHITE : RESIGN_BLACK; return true; }
        if (c.kind == "accept") { if (state() == ALIVE && haveOffer()) draw = DRAW_AGREE; return true; }
        if (c.kind == "offer") { if (state() != ALIVE) return true; pendingOffer = true; if (legal) play(mv); return true; }
        if (c.kind == "rep" || c.kind == "fifty") {
            if (state() != ALIVE) return true;
            bool rep = c.kind == "rep";
            if (claimValid(rep, legal ? &mv : nullptr)) draw = rep ? DRAW_REP : DRAW_50;
            else { pendingOffer = true; if (legal) play(mv); }
            return true;
        }
        // a move, or text that is no move
        if (state() != ALIVE) return false;
        if (!legal) return false;
        play(mv);
        return true;
    }
};

// move text in one of four notations; all name the move unambiguously
std::string notate(const ref::Pos& p, const ref::Move& m, int style) {
    if (style == 0) return ref::san(p, m, true);
    if (style == 1) return ref::san(p, m, false);
    if (ref::isCastle(p, m) && style == 2) return ref::X(m.to) == 6 ? "O-O" : "O-O-O";
    std::string s;
    char pc = ref::lower(p.b[m.from]);
    if (style == 2) { if (pc != 'p') s += ref::upper(pc); s += ref::sqName(m.from); s += ref::isCapture(p, m) ? 'x' : '-'; s += ref::sqName(m.to); }
    else s = ref::sqName(m.from) + ref::sqName(m.to);
    if (m.promo) s += ref::upper(m.promo);
    return s;
}

const std::vector<std::string>& consoleFens() {
    static const std::vector<std::string> v = {
        "8/4k3/8/P7/8/8/8/1N2K2R w K - 99 83", "3k4/R7/3K4/8/8/8/8/8 w - - 99 78", "4k2n/8/8/8/4p3/8/3P4/3KR2N w - - 0 1",
        "3k4/8/8/8/3p4/8/4P3/3R2K1 w - - 0 1", "8/8/8/8/k2p3R/8/4P3/4K3 w - - 0 1", "4k3/4p3/8/3P3r/8/8/8/4K2R b K - 0 1",
        "r3k2r/8/8/8/8/8/8/R3K2R w KQkq - 0 1", "r3k2r/8/8/8/8/8/8/R3K2R b KQkq - 96 70", "4k3/8/8/8/8/8/3p4/3BK3 w - - 0 1",
        "5k2/5P2/4K3/8/8/8/8/8 w - - 97 90", "8/8/8/8/8/5k2/5p2/5K2 b - - 0 1", "k7/8/1K6/8/8/8/8/7R w - - 98 70",
        "8/8/8/3k4/8/8/3K4/BN6 w - - 95 60", "7k/8/6KN/8/8/8/8/5b2 w - - 90 60", "8/8/4k3/8/8/3K4/8/R7 b - - 97 40",
        "4k3/8/8/8/4p3/8/3P4/4K3 w - - 0 1", "8/2p5/8/KP5r/8/8/8/7k b - - 0 1", "rnbqkbnr/pppppppp/8/8/8/8/PPPPPPPP/RNBQKBNR w KQkq - 0 1",
        "4k3/8/8/8/8/8/8/4KB2 b - - 99 1", "8/8/8/8/8/2k5/8/K1n5 w - - 99 100", "6k1/5ppp/8/8/8/8/8/R5K1 w - - 98 50",
    };
    return v;
}

struct SeqCfg { bool computer = false; int maxCmds = 60; };

struct Runner {
    std::unique_ptr<Game> game;
    std::unique_ptr<ComputerPlayer> cp;
    void newGame() { game.reset(new Game(std::unique_ptr<Player>(new HumanPlayer()), std::unique_ptr<Player>(new HumanPlayer()))); }
};
Runner gRun;

Value cmdsJson(const std::vector<Cmd>& cmds) {
    Value a = Value::array();
    for (auto& c : cmds) { Value o = Value::object(); o["text"] = c.text; o["kind"] = c.kind; o["uci"] = c.uci; if (!c.fen.empty()) o["fen"] = c.fen; if (c.cp) o["cp"] = c.cp; a.push(o); }
    Value v = Value::object(); v["cmds"] = a; return v;
}

struct SeqStats { bool rep = false, fifty = false, agree = false, resign = false, mate = false, stale = false, nomate = false, undoRedo = false, invalidClaim = false, claimWithMove = false, cpClaim = false, cpMoves = false, redoDoublePush = false, gameOverCmd = false; int cmds = 0; };

void noteState(MState s, SeqStats& ss) {
    if (s == DRAW_REP) ss.rep = true; if (s == DRAW_50) ss.fifty = true; if (s == DRAW_AGREE) ss.agree = true;
    if (s == RESIGN_WHITE || s == RESIGN_BLACK) ss.resign = true; if (s == WHITE_MATE || s == BLACK_MATE) ss.mate = true;
    if (s == WHITE_STALEMATE || s == BLACK_STALEMATE) ss.stale = true; if (s == DRAW_NO_MATE) ss.nomate = true;
}

// compare Game with the model after a command; returns "" or the divergence
std::string compare(Game& g, const Model& m, bool accepted, bool modelAccepted) {
    if (accepted != modelAccepted) return std::string("processString returned ") + (accepted ? "true" : "false") + ", the rules/model say " + (modelAccepted ? "accepted" : "rejected");
    int gs = (int)g.getGameState(), ms = (int)m.state();
    if (gs != ms) return std::string("getGameState() = ") + stateName(gs) + ", model = " + stateName(ms);
    if (g.haveDrawOffer() != m.haveOffer()) return std::string("haveDrawOffer() = ") + (g.haveDrawOffer() ? "true" : "false") + ", model = " + (m.haveOffer() ? "true" : "false");
    // placement, side, castling rights and clocks (the e.p. square is compared only through its observable effect on claims)
    ref::Pos r = m.now();
    const Position& p = g.getPos();
    for (int s = 0; s < 64; s++) if (tx::pieceChar(p.getPiece(Square(s))) != r.b[s]) return "position differs on " + ref::sqName(s) + " (Game " + TextIO::toFEN(p) + ", model " + ref::toFEN(r) + ")";
    if (p.isWhiteMove() != r.wtm || p.h1Castle() != r.cK || p.a1Castle() != r.cQ || p.h8Castle() != r.ck || p.a8Castle() != r.cq ||
        p.getHalfMoveClock() != r.hmc || p.getFullMoveCounter() != r.fmc)
        return "position state differs (Game " + TextIO::toFEN(p) + ", model " + ref::toFEN(r) + ")";
    return "";
}

// one step of the command generator (needs the model to produce meaningful commands)
Cmd genCmd(Choices& c, const Model& m, int mode) {
    Cmd cmd;
    const ref::Pos& p = m.now();
    std::vector<ref::Move> lm = ref::legalMoves(p);
    auto moveText = [&](const ref::Move& mv) { return notate(p, mv, c.pick(4)); };
    auto pickMove = [&](bool& found) -> ref::Move {
        found = !lm.empty();
        if (lm.empty()) return ref::Move();
        int how = c.pick(8);
        if (how <= 3) { // return to a position seen before / complete a claim
            std::vector<ref::Move> back;
            for (auto& mv : lm) { if (!reversible(p, mv)) continue; ref::Pos n = ref::make(p, mv); std::string key = ref::repKey(n); for (size_t i = 0; i <= m.cur; i++) if (ref::repKey(m.pos[i]) == key) { back.push_back(mv); break; } }
            if (!back.empty()) return back[c.pick((int)back.size())];
        }
        if (how <= 5) { std::vector<ref::Move> rev; for (auto& mv : lm) if (reversible(p, mv)) rev.push_back(mv); if (!rev.empty()) return rev[c.pick((int)rev.size())]; }
        return lm[c.pick((int)lm.size())];
    };
    auto illegalText = [&]() {
        for (int t = 0; t < 20; t++) {
            int f = c.pick(64), to = c.pick(64); if (f == to) continue;
            bool clash = false; for (auto& mv : lm) if (mv.from == f && mv.to == to) clash = true;
            if (!clash) return ref::sqName(f) + ref::sqName(to);
        }
        return std::string("a1a1");
    };
    int k = c.pick(100);
    bool found = false;
    if (mode >= 1) { // shuffle modes: mostly moves; the other commands keep their relative weights
        if (k < 40) k = 0; else k = 52 + (k - 40) * 48 / 60;
    }
    if (m.state() == ALIVE && c.chance(1, mode >= 1 ? 3 : 6)) { // claim as soon as a valid claim exists
        bool rep = !c.chance(1, 4);
        std::vector<ref::Move> good; for (auto& mv : lm) if (m.claimValid(rep, &mv)) good.push_back(mv);
        bool nowValid = m.claimValid(rep, nullptr);
        if (nowValid || !good.empty()) {
            cmd.kind = rep ? "rep" : "fifty"; cmd.text = rep ? "draw rep" : "draw 50";
            if (!good.empty() && (!nowValid || c.flip())) { ref::Move mv = good[c.pick((int)good.size())]; cmd.uci = mv.uci(); cmd.text += " " + moveText(mv); }
            return cmd;
        }
    }
    if (k < 52) { ref::Move mv = pickMove(found); if (found) { cmd.kind = "move"; cmd.uci = mv.uci(); cmd.text = moveText(mv); } else { cmd.kind = "illegal"; cmd.text = illegalText(); } }
    else if (k < 55) { cmd.kind = "illegal"; cmd.text = illegalText(); }
    else if (k < 67) { // draw rep [m]
        cmd.kind = "rep"; cmd.text = "draw rep";
        int how = c.pick(6);
        if (how <= 2) { // look for a move that makes the claim valid
            std::vector<ref::Move> good; for (auto& mv : lm) if (m.claimValid(true, &mv)) good.push_back(mv);
            if (!good.empty()) { ref::Move mv = good[c.pick((int)good.size())]; cmd.uci = mv.uci(); cmd.text += " " + moveText(mv); }
        } else if (how == 3) { ref::Move mv = pickMove(found); if (found) { cmd.uci = mv.uci(); cmd.text += " " + moveText(mv); } }
        else if (how == 4) cmd.text += " " + illegalText();
    } else if (k < 76) {
        cmd.kind = "fifty"; cmd.text = "draw 50";
        int how = c.pick(5);
        if (how <= 2) { ref::Move mv = pickMove(found); if (found) { cmd.uci = mv.uci(); cmd.text += " " + moveText(mv); } }
        else if (how == 3) cmd.text += " " + illegalText();
    } else if (k < 82) {
        cmd.kind = "offer"; cmd.text = "draw offer ";
        if (c.chance(1, 5)) cmd.text += illegalText(); else { ref::Move mv = pickMove(found); if (found) { cmd.uci = mv.uci(); cmd.text += moveText(mv); } else cmd.text += illegalText(); }
    } else if (k < 86) { cmd.kind = "accept"; cmd.text = "draw accept"; }
    else if (k < 88) { cmd.kind = "resign"; cmd.text = "resign"; }
    else if (k < 94) { cmd.kind = "undo"; cmd.text = "undo"; }
    else if (k < 98) { cmd.kind = "redo"; cmd.text = "redo"; }
    else if (k < 99) { cmd.kind = "new"; cmd.text = "new"; }
    else { cmd.kind = "setpos"; cmd.fen = c.of(consoleFens()); cmd.text = "setpos " + cmd.fen; }
    return cmd;
}

std::string startFenFor(Choices& c) {
    int k = c.pick(10);
    if (k <= 3) return c.of(consoleFens());
    if (k == 4) { ref::Pos pred; ref::Move push; int fl; if (epConstruction(c, pred, push, fl)) return ref::toFEN(pred); return consoleFens()[2]; }
    if (k == 5) { ref::Pos p; ref::Move mm; if (mateInOne(c, p, mm, true)) { p.hmc = c.range(94, 99); p.fmc = 80; return ref::toFEN(p); } return consoleFens()[1]; }
    if (k == 6) { gen::Placed pl = gen::place(c, c.chance(1, 2) ? gen::T_ENDGAME : -1); if (pl.ok && ref::sane(pl.p)) { if (c.chance(1, 2)) { pl.p.hmc = c.range(90, 99); pl.p.fmc = std::max(pl.p.fmc, 60); pl.p.ep = -1; } return ref::toFEN(pl.p); } return consoleFens()[0]; }
    return ""; // standard start
}

// Ask ComputerPlayer for its command exactly as TUIGame::play does; judge the answer with the model's eyes.
Cmd askComputer(const std::string& sub, Game& g, const Model& m, int depth, const std::vector<Cmd>& sofar, SeqStats& ss) {
    Cmd cmd; cmd.cp = depth;
    std::vector<Position> hist; g.getHistory(hist);
    ComputerPlayerTest::limit(*gRun.cp, depth);
    vh::setCurrent(sub, cmdsJson(sofar));
    std::string s = gRun.cp->getCommand(g.getPos(), g.haveDrawOffer(), hist);
    vh::clearCurrent();
    cmd.text = s;
    const ref::Pos& p = m.now();
    // texel writes SAN without '=' in promotions; compare modulo the optional decorations '=', '+', '#'
    auto bare = [](const std::string& x) { std::string r; for (char ch : x) if (ch != '=' && ch != '+' && ch != '#') r += ch; return r; };
    auto findMove = [&](const std::string& t, ref::Move& out) { for (auto& mv : ref::legalMoves(p)) if (bare(ref::san(p, mv, false)) == bare(t)) { out = mv; return true; } return false; };
    auto failCase = [&](const std::string& msg) { std::vector<Cmd> all = sofar; Cmd probe = cmd; probe.kind = "ask"; all.push_back(probe); Value j = cmdsJson(all); j["computer_answer"] = s; j["fen"] = ref::toFEN(p); vh::fail(j, msg); };
    ref::Move mv;
    if (s.rfind("draw rep", 0) == 0 || s.rfind("draw 50", 0) == 0) {
        bool rep = s.rfind("draw rep", 0) == 0;
        cmd.kind = rep ? "rep" : "fifty";
        std::string rest = s.size() > (rep ? 8u : 7u) ? s.substr(rep ? 9 : 8) : "";
        bool hasMove = !rest.empty();
        if (hasMove && !findMove(rest, mv)) failCase("ComputerPlayer claims '" + s + "' but '" + rest + "' is not the SAN of a legal move in " + ref::toFEN(p));
        if (hasMove) cmd.uci = mv.uci();
        ss.cpClaim = true;
        if (!m.claimValid(rep, hasMove ? &mv : nullptr)) {
            ref::Pos t = hasMove ? ref::make(p, mv) : p;
            failCase("ComputerPlayer::getCommand claims '" + s + "' but the claim is not valid by the rules (occurrences " + std::to_string(m.occurrences(t, hasMove)) + ", half-move clock " + std::to_string(t.hmc) + ")");
        }
    } else if (findMove(s, mv)) { cmd.kind = "move"; cmd.uci = mv.uci(); ss.cpMoves = true; }
    else failCase("ComputerPlayer::getCommand answered '" + s + "', neither a legal move (SAN) nor a draw claim, in " + ref::toFEN(p));
    return cmd;
}

// Runs a command list against Game and the model.  `gen`: when set, commands are generated on the fly (and appended to cmds).
void runSequence(const std::string& sub, std::vector<Cmd>& cmds, Choices* gen, const SeqCfg& cfg, vh::Stats& st, SeqStats& ss) {
    gRun.newGame();
    Game& g = *gRun.game;
    Model m;
    if (cfg.computer) { if (!gRun.cp) { gRun.cp.reset(new ComputerPlayer()); } gRun.cp->clearTT(); }
    size_t i = 0;
    int undoBurst = 0, redoBurst = 0;
    int mode = gen ? gen->pick(10) : 0; mode = mode < 3 ? 0 : mode < 7 ? 1 : 2; // 0 random, 1 shuffle, 2 double push + shuffle + undo/redo through the push
    int n = gen ? (mode == 2 ? gen->range(30, cfg.maxCmds + 15) : gen->range(5, cfg.maxCmds)) : (int)cmds.size();
    std::vector<ref::Move> forced; size_t forcedAt = 0; int cyclesLeft = 0; bool burstPending = false;
    ref::Pos epPred; ref::Move epPush; int epFl = 0;
    if (gen && mode == 2 && !epConstruction(*gen, epPred, epPush, epFl)) mode = 1;
    for (int step = 0; step < n; step++, i++) {
        Cmd cmd;
        if (gen) {
            bool scripted = forcedAt < forced.size() || burstPending || undoBurst > 0 || redoBurst > 0;
            if (gen->empty() && step > 4 && !scripted) break;
            if (forcedAt < forced.size() && !(m.state() == ALIVE && ref::isLegal(m.now(), forced[forcedAt]))) { forced.clear(); forcedAt = 0; cyclesLeft = 0; }
            if (step == 0 && mode == 2) { cmd.kind = "setpos"; cmd.fen = ref::toFEN(epPred); cmd.text = "setpos " + cmd.fen; forced.push_back(epPush); cyclesLeft = gen->range(1, 3); }
            else if (step == 0) { std::string f = startFenFor(*gen); if (f.empty()) { cmd.kind = "new"; cmd.text = "new"; } else { cmd.kind = "setpos"; cmd.fen = f; cmd.text = "setpos " + f; } }
            else if (forcedAt < forced.size() && m.state() == ALIVE && ref::isLegal(m.now(), forced[forcedAt])) {
                ref::Move mv = forced[forcedAt++]; cmd.kind = "move"; cmd.uci = mv.uci(); cmd.text = notate(m.now(), mv, gen->pick(4));
                if (forcedAt == forced.size()) {
                    ref::Move cyc[4];
                    ref::Pos after = ref::make(m.now(), mv);
                    if (cyclesLeft > 0 && findCycle(*gen, after, cyc)) { cyclesLeft--; for (int j = 0; j < 4; j++) forced.push_back(cyc[j]); }
                    else if (mode == 2 && !burstPending) burstPending = true;
                }
            }
            else if (burstPending) { // go back through the double push (often to the start) and forward again
                burstPending = false; mode = 1;
                int played = (int)m.cur;
                undoBurst = gen->chance(2, 3) ? played : gen->range(1, std::max(1, played));
                cmd.kind = "undo"; cmd.text = "undo"; undoBurst--;
                if (!undoBurst) redoBurst = 1;
                else redoBurst = -1; // marker: set when the undo burst ends
                (void)redoBurst;
            }
            else if (undoBurst > 0) { undoBurst--; cmd.kind = "undo"; cmd.text = "undo"; if (!undoBurst) redoBurst = redoBurst < 0 ? (int)(m.moves.size() - m.cur + 1) : gen->range(0, 6); }
            else if (redoBurst > 0) { redoBurst--; cmd.kind = "redo"; cmd.text = "redo"; }
            else if (cfg.computer && m.state() == ALIVE && gen->chance(1, 2)) {
                cmd = askComputer(sub, g, m, gen->range(1, 3), cmds, ss);
            } else {
                cmd = genCmd(*gen, m, mode);
                if (cmd.kind == "undo" && gen->chance(1, 2)) { undoBurst = gen->range(0, 7); if (!undoBurst) redoBurst = gen->range(0, 2); }
            }
            cmds.push_back(cmd);
        } else {
            cmd = cmds[i];
            if (cmd.cp > 0 && cfg.computer && m.state() == ALIVE) { // replay: ask again (deterministic), judge the answer, continue with it
                std::vector<Cmd> sofar(cmds.begin(), cmds.begin() + (long)i);
                cmd = askComputer(sub, g, m, cmd.cp, sofar, ss);
            }
        }
        // annotations for the class histogram
        if (cmd.kind == "redo" && m.cur < m.moves.size()) { const ref::Pos& b = m.pos[m.cur]; const ref::Move& mv = m.moves[m.cur]; if (ref::lower(b.b[mv.from]) == 'p' && abs(ref::Y(mv.to) - ref::Y(mv.from)) == 2 && ref::make(b, mv).ep >= 0 && !ref::legalEp(ref::make(b, mv))) ss.redoDoublePush = true; }
        if ((cmd.kind == "undo" || cmd.kind == "redo")) ss.undoRedo = true;
        MState before = m.state();
        if (before != ALIVE && cmd.kind != "undo" && cmd.kind != "redo" && cmd.kind != "new" && cmd.kind != "setpos") ss.gameOverCmd = true;
        bool claim = cmd.kind == "rep" || cmd.kind == "fifty";
        if (claim && !cmd.uci.empty()) ss.claimWithMove = true;
        Value kase = cmdsJson(gen ? cmds : std::vector<Cmd>(cmds.begin(), cmds.begin() + (long)i + 1));
        vh::setCurrent(sub, kase);
        bool acc = g.processString(cmd.text);
        vh::clearCurrent();
        bool macc = m.apply(cmd);
        if (claim && before == ALIVE && m.state() == ALIVE) ss.invalidClaim = true;
        noteState(m.state(), ss);
        ss.cmds++;
        st.evaluations++;
        std::string d = compare(g, m, acc, macc);
        if (!d.empty()) {
            Value j = kase; j["game_fen"] = TextIO::toFEN(g.getPos()); j["model_fen"] = ref::toFEN(m.now());
            vh::fail(j, "after command " + std::to_string(i + 1) + " '" + cmd.text + "': " + d);
        }
    }
}

void classifySeq(const std::string& pre, const std::vector<Cmd>& cmds, const SeqStats& ss, vh::Stats& st) {
    auto mk = [&]() { Value a = Value::array(); for (auto& c : cmds) a.push(c.text); return a; };
    bool nt = false;
    auto cl = [&](bool f, const char* name) { if (f) { st.clsSample(pre + name, mk); nt = true; } };
    cl(ss.rep, "DRAW_REP reached"); cl(ss.fifty, "DRAW_50 reached"); cl(ss.agree, "DRAW_AGREE reached"); cl(ss.resign, "resignation");
    cl(ss.mate, "mate reached"); cl(ss.stale, "stalemate reached"); cl(ss.nomate, "DRAW_NO_MATE reached"); cl(ss.invalidClaim, "invalid claim (becomes an offer)");
    cl(ss.claimWithMove, "claim with a move"); cl(ss.redoDoublePush, "redo of a double push with pseudo-only e.p."); cl(ss.gameOverCmd, "command after the game is over");
    cl(ss.cpClaim, "ComputerPlayer claimed a draw");
    if (ss.cpMoves) st.cls(pre + "ComputerPlayer moved");
    if (ss.undoRedo) st.cls(pre + "undo/redo used");
    st.count(pre + "commands", ss.cmds);
    if (nt) { std::string canon; for (auto& c : cmds) canon += c.text + "\n"; st.nt(canon); } else st.cls(pre + "plain");
}

struct NullBuf : std::streambuf { int overflow(int c) override { return c; } };

} // namespace

int main(int argc, char** argv) {
    vh::Args a = vh::parseArgs(argc, argv);
    vh::installDeathHooks();
    vh::Stats& st = vh::ctx().stats;
    vh::ctx().shrinkBudget = a.num("shrink", 400);
    std::cout.rdbuf(new NullBuf()); // never freed: must outlive the iostream teardown // Game prints "Nothing to undo" etc.
    gExe = a.str("engine", "/verif/build/asan/bin/texel");
    gNet = a.str("net", "/verif/build/nets/material-1.net");
    gNetDir = a.str("netdir", "/verif/build/nets");
    gAnswerMs = (int)a.num("answer-ms", 60000);
    gWork = "/tmp/verif-c11-" + std::to_string(getpid());
    if (system(("mkdir -p " + gWork).c_str())) {}
    std::string netName = gNet.substr(gNet.rfind('/') == std::string::npos ? 0 : gNet.rfind('/') + 1);
    if (netName.size() > 4 && netName.substr(netName.size() - 4) == ".net") netName.resize(netName.size() - 4);
    int rc;
    if (!a.replay.empty()) {
        rc = vh::runReplay([&](const std::string& sub, const Value& k) {
            if (sub.rfind("uci", 0) == 0) { UciCase c = uciFrom(k); for (int i = 0; i < (int)a.num("repeat", 2); i++) runAndJudgeUci(c, st, true); }
            else {
                std::vector<Cmd> cmds;
                for (auto& o : k.at("cmds").a) { Cmd c; c.text = o.getStr("text"); c.kind = o.getStr("kind"); c.uci = o.getStr("uci"); c.fen = o.getStr("fen"); c.cp = (int)o.getInt("cp", 0); cmds.push_back(c); }
                SeqCfg cfg; cfg.computer = sub == "game-cp"; SeqStats ss;
                runSequence(sub, cmds, nullptr, cfg, st, ss);
            }
        });
    } else {
        long nu = a.num("uci", a.cases), ng = a.num("game", a.cases * 8), nc = a.num("cp", a.cases / 2);
        auto uciProp = [&](const std::string& sub, long n, double scale, bool (*genf)(Choices&, UciCase&)) {
            vh::runProp(sub, n, scale, [&, genf](Choices& c) {
                UciCase k; k.net = netName;
                if (!genf(c, k)) { st.discarded++; return; }
                runAndJudgeUci(k, st, false);
            });
        };
        uciProp("uci-rep", nu * 5 / 10, 8.0, genRepCase);
        uciProp("uci-fifty", nu * 3 / 10, 8.0, genFiftyCase);
        uciProp("uci-shuffle", nu - nu * 5 / 10 - nu * 3 / 10, 8.0, genShuffleCase);
        gSession.drop();
        vh::runProp("game", ng, 6.0, [&](Choices& c) {
            std::vector<Cmd> cmds; SeqCfg cfg; SeqStats ss;
            runSequence("game", cmds, &c, cfg, st, ss);
            classifySeq("game: ", cmds, ss, st);
        });
        vh::runProp("game-cp", nc, 6.0, [&](Choices& c) {
            std::vector<Cmd> cmds; SeqCfg cfg; cfg.computer = true; cfg.maxCmds = 40; SeqStats ss;
            runSequence("game-cp", cmds, &c, cfg, st, ss);
            classifySeq("cp: ", cmds, ss, st);
        });
        rc = vh::finish();
    }
    gSession.drop();
    if (system(("rm -rf " + gWork).c_str())) {}
    return rc;
}
