// G-session: generated UCI command scripts, their executor against the real
// engine binary, and the transcript monitor (the oracle of C05, reused by C09).
#pragma once
#include "common/gen.hpp"
#include "common/refchess.hpp"
#include "common/uci.hpp"
#include "common/vh.hpp"
#include <map>
#include <string>
#include <vector>

namespace sess {

using vh::Choices;
using vj::Value;

struct Option { std::string name, type; long long def = 0, lo = 0, hi = 0; };

// Parse the engine's own answer to "uci".
inline std::vector<Option> parseOptions(const std::vector<std::string>& lines) {
    std::vector<Option> out;
    for (auto& l : lines) {
        if (l.rfind("option name ", 0) != 0) continue;
        size_t t = l.find(" type ");
        if (t == std::string::npos) continue;
        Option o;
        o.name = l.substr(12, t - 12);
        std::vector<std::string> tok = uci::split(l.substr(t + 6));
        if (tok.empty()) continue;
        o.type = tok[0];
        for (size_t i = 1; i + 1 < tok.size(); i++) {
            if (tok[i] == "min") o.lo = atoll(tok[i + 1].c_str());
            if (tok[i] == "max") o.hi = atoll(tok[i + 1].c_str());
            if (tok[i] == "default" && o.type == "spin") o.def = atoll(tok[i + 1].c_str());
        }
        out.push_back(o);
    }
    return out;
}

enum Pace { P_NOW = 0, P_NEXT_INFO, P_DEPTH, P_BESTMOVE, P_SLEEP, P_DEPTH_LONG /* like P_DEPTH, waits up to 30 s */ };

struct Cmd {
    std::string text;   // the line to send ("" = blank line); "<EOF>" closes stdin
    int pace = P_NOW;   // what to wait for *before* sending this command
    int paceArg = 0;
    // annotations for the monitor (filled by the generator)
    std::string kind;   // uci isready setoption ucinewgame position go stop ponderhit quit unknown blank eof
    std::string goFen;  // for go: position searched (FEN after the move list), for legality of bestmove
    std::vector<std::string> searchMoves;
    bool goInfinite = false, goPonder = false, goHasLimit = false;
};

struct Session {
    std::vector<Cmd> cmds;
    Value toJson() const {
        Value a = Value::array();
        for (auto& c : cmds) {
            Value o = Value::object();
            o["text"] = c.text; o["pace"] = c.pace; o["arg"] = c.paceArg; o["kind"] = c.kind;
            if (c.kind == "go") {
                o["fen"] = c.goFen; o["searchmoves"] = Value::arrayOf(c.searchMoves);
                o["infinite"] = c.goInfinite; o["ponder"] = c.goPonder; o["limit"] = c.goHasLimit;
            }
            a.push(o);
        }
        Value s = Value::object(); s["cmds"] = a; return s;
    }
    static Session fromJson(const Value& v) {
        Session s;
        for (auto& o : v.at("cmds").a) {
            Cmd c;
            c.text = o.getStr("text"); c.pace = (int)o.getInt("pace", 0); c.paceArg = (int)o.getInt("arg", 0);
            c.kind = o.getStr("kind"); c.goFen = o.getStr("fen"); c.searchMoves = o.strs("searchmoves");
            c.goInfinite = o.getBool("infinite", false); c.goPonder = o.getBool("ponder", false); c.goHasLimit = o.getBool("limit", false);
            s.cmds.push_back(c);
        }
        return s;
    }
};

struct GenCfg {
    int maxCmds = 60;
    int maxThreads = 16;       // resource guard for *accepted* values
    int maxHash = 256;
    int minThreads = 1;
    bool concurrencyHeavy = false; // C09: over-weight commands during search
    bool floodIsready = false;
    int maxDepth = 7;
    bool allowTbRoots = true;
};

// State the generator tracks so that positions / move lists / searchmoves are legal.
struct GenState {
    ref::Pos pos = ref::startPos();   // position after the last "position" command (as the engine sees it)
    bool searching = false;           // a search may be running (conservative)
    bool pondering = false;
};

inline std::string genPositionCmd(Choices& c, GenState& st, const GenCfg& cfg) {
    std::string cmd = "position ";
    ref::Pos p;
    int kind = c.pick(10);
    if (kind < 5) { cmd += "startpos"; p = ref::startPos(); }
    else {
        std::string fen;
        if (kind < 8) fen = c.of(gen::seedFens());
        else if (kind >= 8 && cfg.allowTbRoots && (kind == 8 || c.flip())) {
            static const std::vector<std::string> tb = {"8/8/8/4k3/8/8/3K4/1Q6 w - - 0 1", "8/8/4k3/8/8/3K4/8/R7 b - - 3 40",
                "8/8/8/3k4/8/8/3K4/BN6 w - - 0 1", "6k1/8/8/8/8/8/8/KQ5r w - - 0 1", "8/8/8/8/4k3/8/7r/K1R5 b - - 10 60",
                "7k/5Q2/6K1/8/8/8/8/8 b - - 0 1", "R5k1/5ppp/8/8/8/8/8/6K1 b - - 0 1", "k7/8/1K6/8/8/8/8/7R w - - 0 1",
                "rnb1kbnr/pppp1ppp/8/4p3/6Pq/5P2/PPPPP2P/RNBQKBNR w KQkq - 1 3", "8/8/8/8/8/2k5/8/K7 w - - 0 1"};
            fen = c.of(tb);
        } else {
            gen::Placed pl = gen::place(c);
            fen = pl.ok ? ref::toFEN(pl.p) : gen::seedFens()[0];
        }
        if (!ref::fromFEN(fen, p) || !ref::sane(p)) { fen = gen::seedFens()[0]; ref::fromFEN(fen, p); }
        cmd += "fen " + fen;
    }
    int n = c.chance(1, 3) ? 0 : c.range(0, 40);
    std::string mv;
    for (int i = 0; i < n; i++) {
        std::vector<ref::Move> lm = ref::legalMoves(p);
        if (lm.empty()) break;
        ref::Move m = lm[c.pick((int)lm.size())];
        mv += " " + m.uci();
        p = ref::make(p, m);
    }
    if (!mv.empty() || c.chance(1, 8)) cmd += " moves" + mv;
    st.pos = p;
    return cmd;
}

inline Cmd genGoCmd(Choices& c, GenState& st, const GenCfg& cfg) {
    Cmd g; g.kind = "go";
    std::string s = "go";
    g.goFen = ref::toFEN(st.pos);
    std::vector<ref::Move> lm = ref::legalMoves(st.pos);
    if (c.chance(1, 5)) { g.goPonder = true; s += " ponder"; }
    if (!lm.empty() && c.chance(1, 5)) {
        s += " searchmoves";
        int n = c.range(1, std::min<int>(4, (int)lm.size()));
        std::vector<ref::Move> pool = lm;
        for (int i = 0; i < n && !pool.empty(); i++) {
            int k = c.pick((int)pool.size());
            s += " " + pool[k].uci(); g.searchMoves.push_back(pool[k].uci());
            pool.erase(pool.begin() + k);
        }
    }
    int kind = c.pick(12);
    if (kind <= 3) { s += " depth " + std::to_string(c.range(1, cfg.maxDepth)); g.goHasLimit = true; }
    else if (kind == 4) { s += " nodes " + std::to_string(c.range(1, 20000)); g.goHasLimit = true; }
    else if (kind == 5) { s += " movetime " + std::to_string(c.range(1, 300)); g.goHasLimit = true; }
    else if (kind <= 7) {
        s += " wtime " + std::to_string(c.range(1, 3000)) + " btime " + std::to_string(c.range(1, 3000));
        if (c.flip()) s += " winc " + std::to_string(c.range(0, 500)) + " binc " + std::to_string(c.range(0, 500));
        if (c.flip()) s += " movestogo " + std::to_string(c.range(0, 40));
        g.goHasLimit = true;
    } else if (kind == 8) { s += " mate " + std::to_string(c.range(1, 3)); g.goHasLimit = true; }
    else if (kind == 9) { s += " infinite"; g.goInfinite = true; }
    else if (kind == 10) { s += " depth " + std::to_string(c.range(1, 5)) + " nodes " + std::to_string(c.range(100, 5000)); g.goHasLimit = true; }
    else { /* bare "go": no limits => infinite */ g.goInfinite = !g.goPonder; }
    g.text = s;
    return g;
}

inline std::string genSetOption(Choices& c, const std::vector<Option>& opts, const GenCfg& cfg) {
    if (opts.empty()) return "setoption name Hash value 1";
    const Option& o = opts[c.pick((int)opts.size())];
    std::string s = "setoption name " + o.name;
    if (c.chance(1, 12)) { // case variation (names are matched case-insensitively)
        for (auto& ch : s) if (c.chance(1, 3)) ch = (char)toupper(ch);
        s = "setoption name" + s.substr(14);
    }
    if (o.type == "button") return c.chance(1, 6) ? s + " value x" : s;
    s += " value ";
    if (o.type == "check") { static const std::vector<std::string> v = {"true", "false", "TRUE", "1", "maybe", ""}; return s + c.of(v); }
    if (o.type == "spin") {
        int k = c.pick(10);
        long long hi = o.hi, lo = o.lo;
        // resource guard on accepted values only
        long long capHi = hi;
        if (o.name == "Hash") capHi = std::min<long long>(hi, cfg.maxHash);
        if (o.name == "Threads") capHi = std::min<long long>(hi, cfg.maxThreads);
        if (o.name == "GaviotaTbCache") capHi = std::min<long long>(hi, 64);
        if (o.name == "MultiPV") capHi = std::min<long long>(hi, 8);
        bool npsGuard = o.name == "MaxNPS"; // accepted values 1..999 make a search sleep for minutes between stop tests
        long long v;
        if (k <= 4) v = lo + (long long)c.pick((int)std::min<long long>(capHi - lo + 1, 1 << 20));
        else if (k == 5) v = lo;
        else if (k == 6) v = capHi;
        else if (k == 7) v = c.flip() ? lo - 1 - c.pick(1000) : hi + 1 + c.pick(1000); // out of range: ignored by the engine
        else if (k == 8) return s + c.of(std::vector<std::string>{"abc", "", "1e3", "0x10", "--1", "99999999999999999999"});
        else v = o.def;
        if (o.name == "Threads" && v >= lo && v <= hi) v = std::max<long long>(v, std::min<long long>(cfg.minThreads, capHi));
        if (npsGuard && v > 0 && v < 1000) v += 1000;
        return s + std::to_string(v);
    }
    if (o.type == "string") {
        static const std::vector<std::string> v = {"<empty>", "", "/nonexistent/dir", "/tmp", "some opponent name", "/dev/null", "a b  c"};
        return s + c.of(v);
    }
    return s + "x";
}

inline Session genSession(Choices& c, const std::vector<Option>& opts, const GenCfg& cfg) {
    Session s;
    GenState st;
    int n = c.range(1, cfg.maxCmds);
    auto paceFor = [&](Cmd& cmd) {
        if (!st.searching) { cmd.pace = c.chance(1, 6) ? P_SLEEP : P_NOW; cmd.paceArg = cmd.pace == P_SLEEP ? c.range(1, 30) : 0; return; }
        int k = c.pick(cfg.concurrencyHeavy ? 6 : 8);
        if (k <= 1) cmd.pace = P_NOW;
        else if (k == 2) cmd.pace = P_NEXT_INFO;
        else if (k == 3) { cmd.pace = P_DEPTH; cmd.paceArg = c.range(1, 5); }
        else if (k == 4) { cmd.pace = P_SLEEP; cmd.paceArg = c.range(1, 60); }
        else if (k == 5) cmd.pace = P_NOW;
        else if (st.pondering) { cmd.pace = P_SLEEP; cmd.paceArg = c.range(20, 200); }
        else cmd.pace = P_BESTMOVE;
    };
    bool ended = false;
    if (c.chance(1, 5)) { Cmd ob; ob.kind = "setoption"; ob.text = "setoption name OwnBook value true"; s.cmds.push_back(ob); }
    for (int i = 0; i < n && !c.empty() && !ended; i++) {
        Cmd cmd;
        int k = c.pick(100);
        if (cfg.floodIsready && st.searching && k < 60) k = 12;
        if (cfg.concurrencyHeavy && st.searching && k >= 70) k = 10 + c.pick(30);
        if (k < 5) { cmd.kind = "uci"; cmd.text = "uci"; }
        else if (k < 17) { cmd.kind = "isready"; cmd.text = "isready"; }
        else if (k < 35) { cmd.kind = "setoption"; cmd.text = genSetOption(c, opts, cfg); }
        else if (k < 39) { cmd.kind = "ucinewgame"; cmd.text = "ucinewgame"; }
        else if (k < 52) { cmd.kind = "position"; cmd.text = genPositionCmd(c, st, cfg); }
        else if (k < 72) { cmd = genGoCmd(c, st, cfg); }
        else if (k < 82) { cmd.kind = "stop"; cmd.text = "stop"; }
        else if (k < 88) { cmd.kind = "ponderhit"; cmd.text = "ponderhit"; }
        else if (k < 91) { cmd.kind = "unknown"; cmd.text = c.of(std::vector<std::string>{"xyzzy", "go_", "debug on", "register later", "position", "setoption", "setoption name", "position fen", "  isready", "\tuci"}); if (cmd.text == "  isready") cmd.kind = "isready"; if (cmd.text == "\tuci") cmd.kind = "uci"; }
        else if (k < 95) { cmd.kind = "blank"; cmd.text = c.of(std::vector<std::string>{"", " ", "\t", "   \t  "}); }
        else if (k < 98) { cmd.kind = "quit"; cmd.text = "quit"; ended = true; }
        else { cmd.kind = "eof"; cmd.text = "<EOF>"; ended = true; }
        paceFor(cmd);
        if (cmd.kind == "go") { st.searching = true; st.pondering = cmd.goPonder || cmd.goInfinite; }
        if (cmd.kind == "stop") { st.searching = false; st.pondering = false; }
        s.cmds.push_back(cmd);
        // options are applied by the engine thread (which may print, e.g. the tablebase count after a path option) while
        // the protocol thread goes on: follow such an option directly with the command that prints most
        if (cmd.kind == "setoption" && cmd.text.find("Path value") != std::string::npos && c.chance(1, 2)) {
            Cmd u; u.kind = "uci"; u.text = "uci"; u.pace = P_NOW; u.paceArg = 0;
            s.cmds.push_back(u);
        }
    }
    if (!ended) {
        Cmd cmd;
        if (c.chance(1, 4)) { cmd.kind = "eof"; cmd.text = "<EOF>"; } else { cmd.kind = "quit"; cmd.text = "quit"; }
        paceFor(cmd);
        s.cmds.push_back(cmd);
    }
    return s;
}

// ---- execution -------------------------------------------------------------------
struct RunCfg {
    std::string exe, net, stderrPath;
    std::vector<std::string> env;
    int exitTimeoutMs = 45000;
};

struct RunResult {
    std::vector<uci::Entry> log;
    bool exited = false, cleanExit = false;
    std::string exitDesc, stderrText;
    bool hang = false;          // no exit and zero CPU progress over the last 20 s
    bool stillBusy = false;     // no exit but still consuming CPU (inconclusive)
    bool searchAfterQuit = false; // search output more than 20 s after quit/EOF was sent
    int cmdsDuringSearch = 0;
};

inline RunResult execute(const Session& s, const RunCfg& rc) {
    RunResult r;
    uci::Engine e;
    std::vector<std::string> env = rc.env;
    env.push_back("TEXEL_VERIF_NET=" + rc.net);
    if (!e.start(rc.exe, env, rc.stderrPath)) { r.exitDesc = "spawn failed"; return r; }
    int goSent = 0, bestSeen = 0;
    auto countBest = [&]() { int n = 0; for (auto& en : e.log) if (en.dir == '<' && en.line.rfind("bestmove", 0) == 0) n++; return n; };
    for (const Cmd& c : s.cmds) {
        e.pump(0);
        bestSeen = countBest();
        bool searching = goSent > bestSeen;
        switch (c.pace) {
        case P_NOW: break;
        case P_NEXT_INFO: if (searching) { size_t before = e.log.size(); long long end = uci::nowMs() + 300; while (uci::nowMs() < end && e.log.size() == before) e.pump(10); } break;
        case P_DEPTH: case P_DEPTH_LONG: if (searching) {
            int want = c.paceArg; long long end = uci::nowMs() + (c.pace == P_DEPTH_LONG ? 30000 : 1000);
            auto reached = [&]() { for (size_t i = e.log.size(); i-- > 0;) { auto& en = e.log[i]; if (en.dir == '>' && en.line.rfind("go", 0) == 0) break; uci::Info inf; if (en.dir == '<' && uci::parseInfo(en.line, inf) && inf.depth >= want) return true; if (en.dir == '<' && en.line.rfind("bestmove", 0) == 0) return true; } return false; };
            while (uci::nowMs() < end && !reached()) e.pump(10);
        } break;
        case P_BESTMOVE: if (searching) { long long end = uci::nowMs() + 5000; while (uci::nowMs() < end && countBest() < goSent) e.pump(10); } break;
        case P_SLEEP: e.sleepMs(c.paceArg); break;
        }
        e.pump(0);
        if (goSent > countBest() && c.kind != "go") r.cmdsDuringSearch++;
        if (c.text == "<EOF>") e.closeStdin(); else e.send(c.text);
        if (c.kind == "go") goSent++;
    }
    // the generator always ends a session with quit or EOF
    // Hang rule: not exited exitTimeoutMs after quit/EOF and the process used < 5 % of one core during the last
    // 20 s (blocked, or only a sleep-polling loop is alive).  Still burning CPU => inconclusive.
    std::vector<std::pair<long long, long>> samples; // (time, ticks)
    long long start = uci::nowMs();
    long tps = sysconf(_SC_CLK_TCK);
    while (!e.tryReap()) {
        e.pump(50);
        long long now = uci::nowMs();
        if (samples.empty() || now - samples.back().first >= 1000) samples.push_back({now, e.cpuTicks()});
        if (now - start >= rc.exitTimeoutMs) {
            long used = -1;
            for (auto& sm : samples) if (now - sm.first <= 20500) { used = samples.back().second - sm.second; break; }
            if (used >= 0 && used < tps) r.hang = true; else r.stillBusy = true;
            // still producing search output long after quit/EOF = the search was never stopped
            for (auto& en : e.log)
                if (en.dir == '<' && en.t > start + 20000 && uci::isSearchOutput(uci::classify(en.line))) { r.searchAfterQuit = true; break; }
            break;
        }
    }
    if (e.reaped) { e.waitExit(1000); r.exited = true; r.cleanExit = e.exitedCleanly(); }
    r.exitDesc = e.exitDesc();
    e.kill();
    r.log = e.log;
    r.stderrText = e.stderrText();
    return r;
}

// ---- monitor ---------------------------------------------------------------------
// Returns "" if the transcript satisfies the C05 contract, else a description.
// `inconclusive` is set when the run could not be judged (engine still busy at the timeout).
inline std::string monitor(const Session& s, const RunResult& r, bool& inconclusive) {
    inconclusive = false;
    if (r.stillBusy && r.searchAfterQuit) return "the search was still running (search output) more than 20 s after quit/EOF; the process did not exit within 45 s";
    if (r.stillBusy) { inconclusive = true; return ""; }
    if (r.hang) return "hang: process did not exit within 45 s of quit/EOF and used < 5% of one core during the last 20 s (" + r.exitDesc + ")";
    if (!r.exited) return "process did not exit";
    if (r.stderrText.find("Sanitizer") != std::string::npos || r.stderrText.find("runtime error:") != std::string::npos)
        return "sanitizer report: " + r.stderrText.substr(0, 600);
    if (!r.cleanExit) return "process ended with " + r.exitDesc + (r.stderrText.empty() ? "" : " stderr: " + r.stderrText.substr(0, 400));
    // sent entries appear in script order
    size_t si = 0;
    int isreadySent = 0, readyokSeen = 0;
    struct Pending { const Cmd* go; bool released; };
    std::vector<Pending> q; // searches started and not yet answered, oldest first
    auto at = [&](size_t i) { return " (transcript line " + std::to_string(i) + ": '" + r.log[i].line.substr(0, 120) + "')"; };
    for (size_t i = 0; i < r.log.size(); i++) {
        const uci::Entry& en = r.log[i];
        if (en.dir == '>') {
            const Cmd* c = si < s.cmds.size() ? &s.cmds[si++] : nullptr;
            if (!c) continue;
            if (c->kind == "isready") isreadySent++;
            else if (c->kind == "go") {
                for (auto& p : q) p.released = true; // a new go first stops the running search
                q.push_back({c, !(c->goInfinite || c->goPonder)});
            } else if (c->kind == "stop" || c->kind == "quit" || c->kind == "eof") {
                for (auto& p : q) p.released = true;
            } else if (c->kind == "ponderhit") {
                if (!q.empty() && q.back().go->goPonder && q.back().go->goHasLimit && !q.back().go->goInfinite) q.back().released = true;
            }
            continue;
        }
        uci::Kind k = uci::classify(en.line);
        if (k == uci::K_MALFORMED || k == uci::K_EMPTY) return "malformed output line" + at(i);
        if (k == uci::K_READYOK) {
            if (++readyokSeen > isreadySent) return "readyok without a pending isready" + at(i);
        } else if (k == uci::K_BESTMOVE) {
            if (q.empty()) return "bestmove without a pending go" + at(i);
            Pending p = q.front(); q.erase(q.begin());
            if (!p.released) return "bestmove for an infinite/ponder search before stop/ponderhit released it" + at(i);
            std::vector<std::string> t = uci::split(en.line);
            ref::Pos pos;
            if (ref::fromFEN(p.go->goFen, pos)) {
                std::vector<ref::Move> lm = ref::legalMoves(pos);
                if (t[1] == "0000") { if (!lm.empty()) return "bestmove 0000 although legal moves exist in " + p.go->goFen + at(i); }
                else {
                    ref::Move m = ref::Move::fromUci(t[1]);
                    if (!ref::isLegal(pos, m)) return "illegal bestmove in " + p.go->goFen + at(i);
                    if (t.size() >= 4) { ref::Pos n = ref::make(pos, m); if (!ref::isLegal(n, ref::Move::fromUci(t[3]))) return "illegal ponder move" + at(i); }
                }
            }
        } else if (uci::isSearchOutput(k)) {
            if (q.empty()) return "search output while no search is owed an answer (after bestmove, before the next go)" + at(i);
        }
    }
    if (readyokSeen != isreadySent) return "isready sent " + std::to_string(isreadySent) + " times but " + std::to_string(readyokSeen) + " readyok received";
    if (!q.empty()) return std::to_string(q.size()) + " go command(s) never answered by a bestmove";
    return "";
}

} // namespace sess
