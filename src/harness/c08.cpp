// C08  The transposition table never returns mixed or out-of-range data.
// See DESIGN.md §3 C08 and notes/C08.md.
//
// --mode model    (i)  single-threaded model-based histories (insert / probe / clear / nextGeneration /
//                      setBusy, colliding keys) + (iv) mate-score ply shifting
// --mode hammer   (ii) multi-threaded hammer with self-validating keyed-hash payloads (asan and tsan builds;
//                      in the tsan build "no ThreadSanitizer report" is an additional oracle)
// --mode index    (iii) index arithmetic through VerifTTAccess (setUsedSize/getIndex only, never dereferenced)
// --mode alloc    (iii) really allocated tables (<= 1 GiB): explicit index bound + insert/probe round trips under ASan
// --mode tb       (v)  on-demand tablebase residency inside a 16 MiB table under hash traffic
#include "common/vh.hpp"
#include "common/refchess.hpp"
#include "common/tx.hpp"
#include "transpositionTable.hpp"
#include "constants.hpp"
#include <algorithm>
#include <atomic>
#include <memory>
#include <thread>

using vh::Value;
using vh::Choices;

// H7: friend of TranspositionTable under TEXEL_VERIF
struct VerifTTAccess {
    static void setUsedSize(TranspositionTable& t, U64 s) { t.setUsedSize(s); }
    static size_t getIndex(const TranspositionTable& t, U64 key) { return t.getIndex(key); }
    static U64 usedSize(const TranspositionTable& t) { return t.usedSize; }
    static U64 tableSize(const TranspositionTable& t) { return t.tableSize; }
    static void setTableSizeField(TranspositionTable& t, U64 n) { t.tableSize = n; } // index arithmetic only: the table memory is never touched afterwards
    static U64 usedSizeMask(const TranspositionTable& t) { return t.usedSizeMask; }
    static bool tbResident(const TranspositionTable& t) { return t.tbGen != nullptr; }
    static U64 contemptHash(const TranspositionTable& t) { return t.contemptHash; }
};

namespace {

using TTEntry = TranspositionTable::TTEntry;
const int MATE0 = SearchConst::MATE0;

struct Rng {
    uint64_t s;
    explicit Rng(uint64_t seed) : s(seed) {}
    uint64_t next() { s += 0x9e3779b97f4a7c15ULL; uint64_t z = s; z = (z ^ (z >> 30)) * 0xbf58476d1ce4e5b9ULL; z = (z ^ (z >> 27)) * 0x94d049bb133111ebULL; return z ^ (z >> 31); }
    int pick(int n) { return (int)(next() % (uint64_t)n); }
};
std::string hex(uint64_t v) { char b[32]; snprintf(b, sizeof b, "0x%016llx", (unsigned long long)v); return b; }
uint64_t unhex(const std::string& s) { return strtoull(s.c_str(), 0, 16); }

// the two documented score conversions ("mate in x" <-> "mate at ply"), written from the header comments
bool isWin(int s) { return s > MATE0 / 2; }
bool isLose(int s) { return s < -(MATE0 / 2); }
int toStored(int s, int ply) { return isWin(s) ? s + ply : isLose(s) ? s - ply : s; }
int fromStored(int s, int ply) { return isWin(s) ? s - ply : isLose(s) ? s + ply : s; }

// ============================ (i) model-based histories =======================================
enum OpKind { INSERT, PROBE, CLEAR, NEXTGEN, SETBUSY, CONTEMPT };   // CONTEMPT: key = index into ModelCase::contempts
struct Op { OpKind k; int key; int move; int score; int ply; int depth; int type; int eval; bool busy; };
struct ModelCase { long entries; std::vector<uint64_t> keys; std::vector<int> contempts; std::vector<Op> ops; };   // contempts[0] == 0 is in force at the start

Value caseJson(const ModelCase& c, size_t nOps = (size_t)-1) {
    Value k = Value::object();
    k["entries"] = (long long)c.entries;
    std::vector<std::string> ks;
    for (auto x : c.keys) ks.push_back(hex(x));
    k["keys"] = Value::arrayOf(ks);
    k["contempts"] = Value::arrayOf(c.contempts);
    Value ops = Value::array();
    for (size_t i = 0; i < c.ops.size() && i < nOps; i++) {
        const Op& o = c.ops[i];
        Value v = Value::array();
        switch (o.k) {
        case INSERT: v.push("insert"); v.push(o.key); v.push(o.move); v.push(o.score); v.push(o.ply); v.push(o.depth); v.push(o.type); v.push(o.eval); v.push(o.busy ? 1 : 0); break;
        case PROBE: v.push("probe"); v.push(o.key); v.push(o.ply); break;
        case SETBUSY: v.push("setbusy"); v.push(o.key); v.push(o.ply); break;
        case CLEAR: v.push("clear"); break;
        case NEXTGEN: v.push("nextgen"); break;
        case CONTEMPT: v.push("contempt"); v.push(o.key); break;
        }
        ops.push(v);
    }
    k["ops"] = ops;
    k["format"] = "insert: key#, move (from + to<<6 + promote<<12; 0 = empty move), score, ply, depth, type (1 exact 2 >= 3 <=), evalScore, busy | probe/setbusy: key#, ply | contempt: contempt# (setWhiteContempt)";
    return k;
}
bool caseFromJson(const Value& k, ModelCase& c) {
    c.entries = (long)k.getInt("entries", 512);
    for (auto& s : k.strs("keys")) c.keys.push_back(unhex(s));
    if (const Value* cs = k.find("contempts")) for (auto& e : cs->a) c.contempts.push_back((int)e.num());
    if (c.contempts.empty()) c.contempts.push_back(0);
    const Value* ops = k.find("ops");
    if (!ops) return false;
    for (auto& e : ops->a) {
        if (e.a.empty()) return false;
        auto num = [&](size_t i) { return i < e.a.size() ? (int)e.a[i].num() : 0; };
        Op o{PROBE, 0, 0, 0, 0, 0, 1, 0, false};
        const std::string& n = e.a[0].s;
        if (n == "insert") { o.k = INSERT; o.key = num(1); o.move = num(2); o.score = num(3); o.ply = num(4); o.depth = num(5); o.type = num(6); o.eval = num(7); o.busy = num(8) != 0; }
        else if (n == "probe") { o.k = PROBE; o.key = num(1); o.ply = num(2); }
        else if (n == "setbusy") { o.k = SETBUSY; o.key = num(1); o.ply = num(2); }
        else if (n == "clear") o.k = CLEAR;
        else if (n == "nextgen") o.k = NEXTGEN;
        else if (n == "contempt") { o.k = CONTEMPT; o.key = num(1); if (o.key < 0 || o.key >= (int)c.contempts.size()) return false; }
        else return false;
        if ((o.k == INSERT || o.k == PROBE || o.k == SETBUSY) && (o.key < 0 || o.key >= (int)c.keys.size())) return false;
        c.ops.push_back(o);
    }
    return true;
}

int drawScore(Choices& c, int ply) {
    switch (c.pick(8)) {
    case 0: return MATE0 - ply - c.pick(60);                 // win, mate soon
    case 1: return -(MATE0 - ply - c.pick(60));              // loss
    case 2: return (c.flip() ? 1 : -1) * (MATE0 / 2 + c.range(-3, 3));   // the win/lose-score boundary
    case 3: return 0;
    default: return c.range(-3000, 3000);
    }
}
int drawMove(Choices& c, bool allowEmpty) {
    if (allowEmpty && c.chance(1, 4)) return 0;
    int from = c.pick(64), to = c.pick(64);
    if (to == from) to = (from + 1) & 63;
    int promo = c.chance(1, 6) ? c.range(Piece::WQUEEN, Piece::WKNIGHT) + (c.flip() ? 6 : 0) : Piece::EMPTY;
    return from + (to << 6) + (promo << 12);
}

ModelCase decodeModel(Choices& c, bool withContempt) {
    static const long sizes[] = {512, 516, 520, 768, 1000, 1020, 1024, 1028, 2048, 4092, 4096, 5120, 8188, 8192};
    ModelCase k;
    k.entries = sizes[c.pick(sizeof sizes / sizeof sizes[0])];
    // keys that collide: same top 16 and low 16 bits as one of <= 3 representatives, random middle bits
    int nRep = c.range(1, 3), nKeys = c.range(5, 24);
    std::vector<uint64_t> rep;
    for (int i = 0; i < nRep; i++) {
        uint64_t r = ((uint64_t)c.raw() << 34) ^ ((uint64_t)c.raw() << 17) ^ c.raw();
        int e = c.pick(6);
        if (e == 0) r |= 0xffffULL << 48;              // last bucket of the table
        if (e == 1) r &= 0x0000ffffffffffffULL;        // first bucket
        if (e == 2) r |= 0xffff;                       // all low bits set
        rep.push_back(r);
    }
    k.contempts.push_back(0);
    if (withContempt) { int nc = c.range(1, 2); for (int i = 0; i < nc; i++) { int v = c.range(1, 200); k.contempts.push_back(c.flip() ? v : -v); } }
    if (c.chance(1, 10)) k.keys.push_back(0);          // key 0 looks like an empty slot
    while ((int)k.keys.size() < nKeys) {
        uint64_t r = rep[c.pick(nRep)];
        uint64_t mid = (((uint64_t)c.raw() << 16) ^ c.raw()) & 0xffffffffULL;
        k.keys.push_back((r & 0xffff00000000ffffULL) | (mid << 16));
    }
    int steps = c.range(1, 250);
    for (int i = 0; i < steps && !c.empty(); i++) {
        int r = c.pick(100);
        Op o{PROBE, c.pick(nKeys), 0, 0, 0, 0, 1, 0, false};
        if (r < 50) {
            o.k = INSERT;
            o.ply = c.chance(1, 3) ? 0 : c.range(0, 200);
            o.score = drawScore(c, o.ply);
            o.move = drawMove(c, true);
            o.depth = c.chance(1, 10) ? c.range(-4, 0) : c.chance(1, 10) ? c.range(100, 511) : c.range(0, 40);
            o.type = c.range(1, 3);
            o.eval = c.chance(1, 8) ? (c.flip() ? -32767 : 32767) : c.range(-3000, 3000);
            o.busy = c.chance(1, 8);
        } else if (r < 85) { o.k = PROBE; o.ply = c.range(0, 200); }
        else if (r < 93) { o.k = SETBUSY; o.ply = c.range(0, 200); }
        else if (r < 98) o.k = NEXTGEN;
        else o.k = CLEAR;
        if (withContempt && c.chance(1, 12)) { Op cc{CONTEMPT, c.pick((int)k.contempts.size()), 0, 0, 0, 0, 1, 0, false}; k.ops.push_back(cc); }
        k.ops.push_back(o);
    }
    return k;
}

struct Rec {
    int move, stored, depth, type, eval; bool busy;
    bool operator==(const Rec& o) const { return move == o.move && stored == o.stored && depth == o.depth && type == o.type && eval == o.eval && busy == o.busy; }
};
std::string recStr(const Rec& r, int ply) {
    return "{move " + std::to_string(r.move) + ", score@ply " + std::to_string(fromStored(r.stored, ply)) + ", depth " + std::to_string(r.depth) + ", type " + std::to_string(r.type) +
           ", eval " + std::to_string(r.eval) + ", busy " + (r.busy ? "1" : "0") + "}";
}
struct KeyState { std::vector<Rec> poss; bool maybeAbsent = false; bool everInserted = false; };

struct ModelFlags { bool evictionPossible = false, mergeEmptyMove = false, mateShift = false, hitAfterCollision = false, setBusyHit = false, lastBucket = false, contemptBusy = false; };

void runModel(const std::string& sub, const ModelCase& c, vh::Stats& st) {
    st.evaluations++;
    vh::setCurrent(sub, caseJson(c));
    if (c.entries < 512 || c.entries > (1 << 20) || (c.entries & 3)) vh::fail(caseJson(c, 0), "case: table size outside the domain (multiple of 4, >= 512)");
    TranspositionTable tt((U64)c.entries);
    // A record stored under one contempt is a record of another logical key under another contempt (the table
    // hashes the contempt into the key).  Logical key L = key# * nc + contempt#.
    const int nk = (int)c.keys.size(), nc = (int)c.contempts.size(), n = nk * nc;
    if (nc < 1 || c.contempts[0] != 0) vh::fail(caseJson(c, 0), "case: contempts[0] must be 0");
    std::vector<U64> ch(nc);
    for (int i = 0; i < nc; i++) { tt.setWhiteContempt(c.contempts[i]); ch[i] = VerifTTAccess::contemptHash(tt); }
    tt.setWhiteContempt(0);
    int cc = 0;                                           // contempt in force
    std::vector<KeyState> ks(n);
    std::vector<size_t> idx(n);
    std::vector<U64> eff(n);
    for (int L = 0; L < n; L++) {
        eff[L] = c.keys[L / nc] ^ ch[L % nc];
        idx[L] = VerifTTAccess::getIndex(tt, eff[L]);
        if (idx[L] + 3 >= (size_t)c.entries) vh::fail(caseJson(c, 0), "getIndex(" + hex(eff[L]) + ") = " + std::to_string(idx[L]) + " on a table of " + std::to_string(c.entries) + " entries: the bucket reaches past the end");
    }
    ModelFlags f;
    auto overlaps = [&](int a, int b) { size_t d = idx[a] > idx[b] ? idx[a] - idx[b] : idx[b] - idx[a]; return d < 4; };
    auto bad = [&](size_t i, const std::string& msg) { vh::fail(caseJson(c, i + 1), "after command " + std::to_string(i) + (c.contempts[cc] ? " (contempt " + std::to_string(c.contempts[cc]) + ")" : "") + ": " + msg); };
    auto sameKey = [&](int a, int b) { return eff[a] == eff[b]; };
    U64 rawKey = 0;                                       // the key of the running command as the caller passes it (the canonical logical key may belong to another contempt)
    auto raw = [&](int) { return rawKey; };
    // canonical logical key (duplicates in the pool share one state)
    std::vector<int> canon(n);
    for (int i = 0; i < n; i++) { canon[i] = i; for (int j = 0; j < i; j++) if (sameKey(i, j)) { canon[i] = j; break; } }

    auto modelInsert = [&](int K, const Rec& nw, bool busy) {
        KeyState& s = ks[K];
        bool wasCertain = !s.poss.empty() && !s.maybeAbsent;
        std::vector<Rec> np;
        auto add = [&](const Rec& r) { if (std::find(np.begin(), np.end(), r) == np.end()) np.push_back(r); };
        for (auto& r : s.poss) {
            Rec m = nw;
            if ((nw.move & 63) == ((nw.move >> 6) & 63)) { m.move = r.move; f.mergeEmptyMove = true; }   // an empty move keeps the stored move
            add(m);
            if (!busy) add(r);                                   // the table may keep a deeper record of the same kind
        }
        if (s.poss.empty() || s.maybeAbsent) add(nw);
        s.poss = np; s.maybeAbsent = false; s.everInserted = true;
        if (!wasCertain)
            for (int j = 0; j < n; j++)
                if (j != K && canon[j] == j && overlaps(j, K) && !ks[j].poss.empty()) { ks[j].maybeAbsent = true; f.evictionPossible = true; }
        if (idx[K] + 4 >= (size_t)c.entries) f.lastBucket = true;
    };
    // probe + model check; returns true on a hit and leaves the entry in `ent`.  K is a logical key of the contempt in force.
    auto doProbe = [&](size_t i, int K, int ply, TTEntry& ent) -> bool {
        KeyState& s = ks[K];
        ent = TTEntry();
        tt.probe(raw(K), ent);
        if (ent.getType() == TType::T_EMPTY) {
            if (!s.poss.empty() && !s.maybeAbsent) bad(i, "probe(" + hex(raw(K)) + ") misses although the key was stored and nothing else was inserted into its bucket since");
            s.poss.clear(); s.maybeAbsent = false;
            return false;
        }
        Move mv; ent.getMove(mv);
        Rec o{mv.getCompressedMove(), 0, ent.getDepth(), ent.getType(), ent.getEvalScore(), ent.getBusy()};
        int sc = ent.getScore(ply);
        if (c.contempts[cc] == 0 && ent.getKey() != raw(K)) bad(i, "probe(" + hex(raw(K)) + ") returns an entry whose key is " + hex(ent.getKey()));
        if (s.poss.empty()) bad(i, "probe(" + hex(raw(K)) + ") returns data although nothing is stored for that key (never inserted, or cleared): move " + std::to_string(o.move) + " score " + std::to_string(sc) +
                                   " depth " + std::to_string(o.depth) + " type " + std::to_string(o.type) + " busy " + (o.busy ? "1" : "0"));
        int match = -1;
        for (size_t j = 0; j < s.poss.size(); j++) {
            const Rec& r = s.poss[j];
            if (r.move == o.move && fromStored(r.stored, ply) == sc && r.depth == o.depth && r.type == o.type && r.eval == o.eval && r.busy == o.busy) { match = (int)j; break; }
        }
        if (match < 0) {
            std::string m = "probe(" + hex(raw(K)) + ", ply " + std::to_string(ply) + ") returns {move " + std::to_string(o.move) + ", score " + std::to_string(sc) + ", depth " + std::to_string(o.depth) +
                            ", type " + std::to_string(o.type) + ", eval " + std::to_string(o.eval) + ", busy " + (o.busy ? "1" : "0") + "}; records this key can hold:";
            for (auto& r : s.poss) m += " " + recStr(r, ply);
            bad(i, m);
        }
        Rec keep = s.poss[match];
        if ((isWin(keep.stored) || isLose(keep.stored)) && ply != 0) f.mateShift = true;
        if (s.maybeAbsent) f.hitAfterCollision = true;
        s.poss.assign(1, keep); s.maybeAbsent = false;
        return true;
    };

    for (size_t i = 0; i < c.ops.size(); i++) {
        const Op& op = c.ops[i];
        int K = (op.k == CLEAR || op.k == NEXTGEN || op.k == CONTEMPT) ? 0 : canon[op.key * nc + cc];
        if (op.k == INSERT || op.k == PROBE || op.k == SETBUSY) rawKey = c.keys[op.key];
        switch (op.k) {
        case INSERT: {
            if (std::abs(toStored(op.score, op.ply)) > MATE0 || op.type < 1 || op.type > 3 || op.depth > 511 || op.eval < -32768 || op.eval > 32767 || op.ply < 0)
                vh::fail(caseJson(c, i + 1), "case: insert arguments outside the domain");
            Move m; m.setFromCompressed((U16)op.move); m.setScore(op.score);
            tt.insert(raw(K), m, op.type, op.ply, op.depth, op.eval, op.busy);
            Rec nw{op.move, toStored(op.score, op.ply), std::max(op.depth, 0), op.type, op.eval, op.busy};
            modelInsert(K, nw, op.busy);
            // an insert always leaves the key in the table: it must be found right away
            TTEntry e;
            if (!doProbe(i, K, op.ply, e)) bad(i, "probe right after insert(" + hex(raw(K)) + ") misses");
            st.count("model: inserts");
            break;
        }
        case PROBE: {
            TTEntry e;
            bool hit = doProbe(i, K, op.ply, e);
            st.count(hit ? "model: probe hits" : "model: probe misses");
            break;
        }
        case SETBUSY: {
            TTEntry e;
            if (doProbe(i, K, op.ply, e)) {
                Rec r = ks[K].poss[0];
                tt.setBusy(e, op.ply);                              // "Set the busy flag for an entry"
                Rec nw{r.move, toStored(fromStored(r.stored, op.ply), op.ply), r.depth, r.type, r.eval, true};
                ks[K].poss.assign(1, nw);                           // busy stores unconditionally; the key is present, nothing is evicted
                TTEntry e2;
                if (!doProbe(i, K, op.ply, e2)) bad(i, "probe right after setBusy(" + hex(raw(K)) + ") misses");
                f.setBusyHit = true;
                if (c.contempts[cc]) f.contemptBusy = true;
                st.count("model: setBusy on a hit");
            }
            break;
        }
        case NEXTGEN: tt.nextGeneration(); st.count("model: nextGeneration"); break;
        case CLEAR:
            tt.clear();
            for (auto& s : ks) { s.poss.clear(); s.maybeAbsent = false; }
            st.count("model: clear");
            break;
        case CONTEMPT:
            cc = op.key;
            tt.setWhiteContempt(c.contempts[cc]);
            st.count("model: setWhiteContempt");
            break;
        }
    }
    // final sweep: every logical key
    for (int ci = 0; ci < nc; ci++) {
        cc = ci; tt.setWhiteContempt(c.contempts[ci]);
        for (int k = 0; k < nk; k++) { int K = k * nc + ci; rawKey = c.keys[k]; TTEntry e; doProbe(c.ops.size() ? c.ops.size() - 1 : 0, canon[K], 0, e); }
    }
    vh::clearCurrent();
    auto mk = [&]() { return caseJson(c); };
    if (f.evictionPossible) st.clsSample("model: insert into a full/contended bucket (another key may be evicted)", mk);
    if (f.hitAfterCollision) st.clsSample("model: hit on a key after other keys were inserted into its bucket", mk);
    if (f.mergeEmptyMove) st.clsSample("model: empty move merged with the stored move", mk);
    if (f.mateShift) st.clsSample("model: mate score read at another ply", mk);
    if (f.setBusyHit) st.clsSample("model: setBusy on a hit", mk);
    if (f.contemptBusy) st.clsSample("model: setBusy on a hit under non-zero contempt", mk);
    if (f.lastBucket) st.clsSample("model: key in the last bucket of the table", mk);
    if (nc > 1) st.cls("model: history with contempt changes");
    if (f.evictionPossible || f.mergeEmptyMove || f.mateShift || f.setBusyHit) st.nt(vj::dump(caseJson(c))); else st.cls("model: plain");
}

// ============================ (iv) mate-score ply shifting ======================================
struct MateCase { int score, ply1, ply2; };
Value mateJson(const MateCase& m) { Value k = Value::object(); k["score"] = m.score; k["ply1"] = m.ply1; k["ply2"] = m.ply2; return k; }
void runMate(const std::string& sub, const MateCase& m, vh::Stats& st, TranspositionTable& tt, uint64_t key) {
    st.evaluations++;
    Value kase = mateJson(m);
    if (m.ply1 < 0 || m.ply1 > 200 || m.ply2 < 0 || m.ply2 > 200 || std::abs(m.score) > MATE0 - m.ply1) vh::fail(kase, "case outside the domain |s| <= MATE0 - ply1, plies 0..200");
    int want = isWin(m.score) ? m.score - (m.ply2 - m.ply1) : isLose(m.score) ? m.score + (m.ply2 - m.ply1) : m.score;
    TTEntry e;
    e.setScore(m.score, m.ply1);
    int got = e.getScore(m.ply2);
    if (got != want) vh::fail(kase, "TTEntry: setScore(" + std::to_string(m.score) + ", ply " + std::to_string(m.ply1) + ") then getScore(ply " + std::to_string(m.ply2) + ") = " + std::to_string(got) + ", expected " + std::to_string(want));
    // the same through the table
    Move mv(Square(12), Square(28), Piece::EMPTY, m.score);
    tt.insert(key, mv, TType::T_EXACT, m.ply1, 7, 11);
    TTEntry r;
    tt.probe(key, r);
    if (r.getType() != TType::T_EXACT) vh::fail(kase, "probe right after insert misses");
    got = r.getScore(m.ply2);
    if (got != want) vh::fail(kase, "insert(score " + std::to_string(m.score) + ", ply " + std::to_string(m.ply1) + ") then probe + getScore(ply " + std::to_string(m.ply2) + ") = " + std::to_string(got) + ", expected " + std::to_string(want));
    bool mate = isWin(m.score) || isLose(m.score);
    st.cls(mate ? (isWin(m.score) ? "mate: win score" : "mate: loss score") : "mate: ordinary score");
    if (mate && m.ply1 != m.ply2) st.nt(vh::mix(((uint64_t)(uint32_t)m.score << 20) ^ (m.ply1 << 10) ^ m.ply2));
}

// ============================ (iii) index arithmetic ============================================
// The bucket of a key is entries getIndex(key) .. getIndex(key)+3: all of them must be < usedSize.
struct IndexChecker {
    TranspositionTable tt;          // small; only setUsedSize/getIndex are called after a size was set
    vh::Stats& st;
    long evals = 0, sizesFull = 0, sizesExtreme = 0, nonPow2 = 0, sizesResident = 0;
    const U64 realSize;
    explicit IndexChecker(vh::Stats& s) : tt(1024), st(s), realSize(VerifTTAccess::tableSize(tt)) {}
    ~IndexChecker() { VerifTTAccess::setTableSizeField(tt, realSize); VerifTTAccess::setUsedSize(tt, realSize); }
    // The state the engine is in when the used size is s: the whole table is used (tableSize = s), or an on-demand
    // tablebase is resident in the last 5 MiB (tableSize = s + 5 MiB).  Only setUsedSize/getIndex are called in this state.
    void enter(U64 s, bool resident) {
        VerifTTAccess::setTableSizeField(tt, resident ? s + 5 * 1024 * 1024 / 16 : s);
        VerifTTAccess::setUsedSize(tt, s);
    }

    static Value kase(U64 s, U64 key) { Value k = Value::object(); k["kind"] = "index"; k["used_size"] = std::to_string(s); k["key"] = hex(key); return k; }
    bool one(U64 s, U64 key) {
        size_t i = VerifTTAccess::getIndex(tt, key);
        evals++;
        if ((U64)i + 3 < s) return true;
        vh::recordViolation("index", kase(s, key), "setUsedSize(" + std::to_string(s) + "): getIndex(" + hex(key) + ") = " + std::to_string(i) + ", so the bucket " + std::to_string(i) + ".." + std::to_string(i + 3) +
                            " reaches past the used size");
        return false;
    }
    void lows(U64* out) {
        U64 mask = VerifTTAccess::usedSizeMask(tt);
        out[0] = 0; out[1] = 3; out[2] = 4; out[3] = mask; out[4] = mask + 1; out[5] = mask ? mask - 1 : 0; out[6] = 0x0000ffffffffffffULL;
    }
    // all 2^16 top-bit patterns x the low-bit patterns
    bool full(U64 s, bool resident = false) {
        enter(s, resident);
        U64 lo[7]; lows(lo);
        for (U64 top = 0; top < 65536; top++)
            for (int j = 0; j < 7; j++)
                if (!one(s, (top << 48) | (lo[j] & 0x0000ffffffffffffULL))) return false;
        sizesFull++;
        if (resident) sizesResident++;
        if (s & (s - 1)) nonPow2++;
        return true;
    }
    // extreme top-bit patterns only
    bool extreme(U64 s, Rng& rng, bool resident = false) {
        enter(s, resident);
        U64 lo[7]; lows(lo);
        U64 tops[10] = {0xffff, 0xfffe, 0xff00, 0x8000, 0x7fff, 0x0001, 0x0000, rng.next() & 0xffff, rng.next() & 0xffff, 0xfff0 | (rng.next() & 15)};
        for (U64 top : tops)
            for (int j = 0; j < 7; j++)
                if (!one(s, (top << 48) | (lo[j] & 0x0000ffffffffffffULL))) return false;
        if (!one(s, rng.next()) || !one(s, rng.next() | (0xffffULL << 48))) return false;
        sizesExtreme++;
        if (resident) sizesResident++;
        if (s & (s - 1)) nonPow2++;
        return true;
    }
};

const U64 MAXSIZE = 1ULL << 35;      // 512 GiB / 16
const U64 TBRES = 5 * 1024 * 1024 / 16;

std::vector<U64> specialSizes() {
    std::vector<U64> v;
    for (int e = 9; e <= 36; e++) {
        U64 p = 1ULL << e;
        for (int d = -16; d <= 16; d += 4) { U64 s = p + d; if (s >= 512 && s <= (1ULL << 36)) v.push_back(s); }
        if (p > TBRES + 131072) { v.push_back(p - TBRES); v.push_back(p - TBRES - 4); v.push_back(p - TBRES + 4); }   // a power-of-two table with a resident TB
        for (U64 m : {3ULL, 5ULL, 7ULL, 255ULL, 257ULL}) { U64 s = (p / 256 * m) & ~3ULL; if (s >= 512 && s <= (1ULL << 36)) v.push_back(s); }
    }
    for (U64 mb : {7ULL, 12ULL, 24ULL, 48ULL, 100ULL, 1000ULL, 3000ULL, 100000ULL}) { U64 s = mb * 65536; v.push_back(s); if (s > TBRES + 131072) v.push_back(s - TBRES); }
    for (U64 s = 512; s <= 1536; s += 4) v.push_back(s);       // the smallest legal sizes, all of them
    std::sort(v.begin(), v.end());
    v.erase(std::unique(v.begin(), v.end()), v.end());
    return v;
}

// shard `part` of `parts`.  quick: special sizes fully, all multiples of 65536 with extreme keys;
// thorough: additionally a slice of the multiples of 65536 fully.
void runIndex(vh::Args& a, vh::Stats& st) {
    IndexChecker ic(st);
    const int part = (int)a.num("slice", 0), parts = (int)std::max(1L, a.num("slices", 1));
    Rng rng(vh::mix(a.seed * 31 + part));
    bool ok = true;
    std::vector<U64> sp = specialSizes();
    for (size_t i = 0; i < sp.size() && ok; i++) if ((int)(i % parts) == part) ok = ic.full(sp[i]) && ic.full(sp[i], true);
    long nMult = (long)(MAXSIZE / 65536);
    for (long m = 1 + part; m <= nMult && ok; m += parts) {
        ok = ic.extreme((U64)m * 65536, rng);
        // "Hash m MiB" with a resident tablebase (the engine builds one from 7 MiB on)
        if (ok && m >= 7) ok = ic.extreme((U64)m * 65536 - TBRES, rng, true);
    }
    long fullMult = a.num("full-multiples", 0), randomSizes = a.num("random-sizes", 2000);
    // a seeded, evenly spread slice of the multiples of 65536, every key pattern
    if (fullMult > 0) {
        long step = std::max(1L, nMult / (fullMult * parts));
        long off = (long)(rng.next() % (uint64_t)step);
        for (long j = 0; j < fullMult && ok; j++) { long m = 1 + off + (j * parts + part) * step; if (m <= nMult) ok = ic.full((U64)m * 65536); }
    }
    // random sizes (any multiple of 4 in [512, 2^36]), log-uniform
    for (long j = 0; j < randomSizes && ok; j++) {
        int e = 9 + rng.pick(27);
        U64 s = ((1ULL << e) + (rng.next() & ((1ULL << e) - 1))) & ~3ULL;
        ok = (j % 8 == 0) ? ic.full(s, j % 16 == 0) : ic.extreme(s, rng, j % 2 == 1);
    }
    st.evaluations += ic.evals;
    st.count("index: sizes with all 2^16 top-bit patterns x 7 low-bit patterns", ic.sizesFull);
    st.count("index: sizes with extreme key patterns", ic.sizesExtreme);
    st.count("index: sizes that are not a power of two", ic.nonPow2);
    st.count("index: sizes checked in the state 'tablebase resident' (tableSize = used size + 5 MiB)", ic.sizesResident);
    st.count("index: getIndex evaluations", ic.evals);
    for (int i = 0; i < 64 && i < ic.nonPow2; i++) st.nt(vh::mix(a.seed * 977 + part * 64 + i) | 1);   // distinct non-trivial sizes are counted exactly in the counters; a token number enters the hash set
}

// ============================ payload for (ii), alloc, tb ==========================================
struct Payload { int move, score, depth, type; };
inline Payload payload(uint64_t key, unsigned nonce) {
    uint64_t h = vh::mix(key ^ (0x9e3779b97f4a7c15ULL * (nonce + 1)));
    Payload p;
    int from = (int)(h & 63), to = (int)((h >> 6) & 63);
    if (to == from) to = (from + 1) & 63;
    int promo = (int)((h >> 12) % 13);
    p.move = from + (to << 6) + (promo << 12);
    p.score = (int)(int16_t)(h >> 16);
    if (p.score < -MATE0) p.score = -MATE0; if (p.score > MATE0) p.score = MATE0;
    p.depth = (int)((h >> 32) & 511);
    p.type = 1 + (int)((h >> 41) % 3);
    return p;
}
inline void insertPayload(TranspositionTable& tt, uint64_t key, unsigned nonce) {
    Payload p = payload(key, nonce);
    Move m; m.setFromCompressed((U16)p.move); m.setScore(p.score);
    tt.insert(key, m, p.type, 0, p.depth, (int)(int16_t)nonce);
}
// "" if the entry is payload(key, nonce carried by the entry)
inline std::string checkPayload(uint64_t key, const TTEntry& e) {
    unsigned nonce = (unsigned)(uint16_t)e.getEvalScore();
    Payload p = payload(key, nonce);
    Move m; e.getMove(m);
    if (m.getCompressedMove() == p.move && e.getScore(0) == p.score && e.getDepth() == p.depth && e.getType() == p.type) return "";
    return "probe(" + hex(key) + ") returns {move " + std::to_string(m.getCompressedMove()) + ", score " + std::to_string(e.getScore(0)) + ", depth " + std::to_string(e.getDepth()) + ", type " +
           std::to_string(e.getType()) + ", eval/nonce " + std::to_string(nonce) + "} but the record written with that nonce for that key is {move " + std::to_string(p.move) + ", score " +
           std::to_string(p.score) + ", depth " + std::to_string(p.depth) + ", type " + std::to_string(p.type) + "}: a blend of two writes";
}

// ============================ (ii) hammer =====================================================
struct HammerCase { int threads, buckets, keysPerBucket; long entries; long opsPerThread; uint64_t seed; };
Value hammerJson(const HammerCase& h) {
    Value k = Value::object();
    k["kind"] = "hammer"; k["threads"] = h.threads; k["buckets"] = h.buckets; k["keys_per_bucket"] = h.keysPerBucket; k["entries"] = (long long)h.entries;
    k["ops_per_thread"] = (long long)h.opsPerThread; k["seed"] = std::to_string(h.seed);
    return k;
}
struct HammerResult { std::string error; long hits = 0, crossHits = 0, inserts = 0, probes = 0, setBusy = 0; std::vector<uint64_t> ntHashes; };

HammerResult hammerOnce(const HammerCase& h) {
    TranspositionTable tt((U64)h.entries);
    Rng r0(h.seed);
    // key pool: per bucket one representative; the others share its top 16 and low 16 bits
    std::vector<uint64_t> keys; std::vector<int> bucketOf;
    for (int b = 0; b < h.buckets; b++) {
        uint64_t rep = r0.next();
        if (b == 0) rep |= 0xffffULL << 48;                 // last bucket of the table
        for (int k = 0; k < h.keysPerBucket; k++) { keys.push_back((rep & 0xffff00000000ffffULL) | ((r0.next() & 0xffffffffULL) << 16)); bucketOf.push_back(b); }
    }
    std::vector<std::atomic<unsigned>> writers(h.buckets);
    for (auto& w : writers) w.store(0);
    std::atomic<bool> stop(false);
    std::vector<HammerResult> res(h.threads);
    std::vector<std::thread> th;
    // The operations are split into rounds; between two rounds (all threads at a barrier, as between two searches of
    // the engine) the generation is increased, so that stale entries are refreshed by concurrent probes while other
    // threads replace them.
    struct Barrier {
        std::atomic<int> count{0}, gen{0}; int n = 1;
        void wait() { int g = gen.load(); if (count.fetch_add(1) + 1 == n) { count.store(0); gen.fetch_add(1); } else while (gen.load() == g) std::this_thread::yield(); }
    } barrier;
    barrier.n = h.threads;
    const int rounds = 16 + (int)(h.seed % 1009);
    for (int t = 0; t < h.threads; t++) {
        th.emplace_back([&, t]() {
            Rng rng(vh::mix(h.seed * 131 + t));
            HammerResult& R = res[t];
            const int nk = (int)keys.size();
            for (int round = 0; round < rounds; round++) {
            barrier.wait();
            if (t == 0 && round > 0) tt.nextGeneration();
            barrier.wait();
            for (long i = 0; i < h.opsPerThread / rounds && !stop.load(std::memory_order_relaxed); i++) {
                int ki = rng.pick(nk);
                uint64_t key = keys[ki];
                int what = rng.pick(16);
                if (what < 7) {
                    unsigned nonce = ((unsigned)t << 12) | (unsigned)(rng.next() & 0xfff);
                    writers[bucketOf[ki]].fetch_or(1u << t, std::memory_order_relaxed);
                    insertPayload(tt, key, nonce);
                    R.inserts++;
                } else {
                    TTEntry e;
                    tt.probe(key, e);
                    R.probes++;
                    if (e.getType() == TType::T_EMPTY) continue;
                    R.hits++;
                    std::string err = e.getKey() != key ? "probe(" + hex(key) + ") returns an entry with key " + hex(e.getKey()) : checkPayload(key, e);
                    if (!err.empty()) { R.error = err; stop.store(true); break; }
                    unsigned nonce = (unsigned)(uint16_t)e.getEvalScore();
                    unsigned w = writers[bucketOf[ki]].load(std::memory_order_relaxed);
                    if ((int)(nonce >> 12) != t && (w & (w - 1))) { R.crossHits++; if (R.ntHashes.size() < 20000) R.ntHashes.push_back(vh::mix(key ^ nonce)); }
                    if (what == 15) { tt.setBusy(e, 0); R.setBusy++; }
                }
            }
            }
        });
    }
    for (auto& x : th) x.join();
    HammerResult all;
    for (auto& R : res) {
        if (all.error.empty() && !R.error.empty()) all.error = R.error;
        all.hits += R.hits; all.crossHits += R.crossHits; all.inserts += R.inserts; all.probes += R.probes; all.setBusy += R.setBusy;
        all.ntHashes.insert(all.ntHashes.end(), R.ntHashes.begin(), R.ntHashes.end());
    }
    return all;
}

void runHammer(const std::string& sub, const HammerCase& h, vh::Stats& st) {
    st.evaluations++;
    Value kase = hammerJson(h);
    vh::setCurrent(sub, kase);
    HammerResult r = hammerOnce(h);
    vh::clearCurrent();
    st.count("hammer: inserts", r.inserts); st.count("hammer: probes", r.probes); st.count("hammer: probe hits", r.hits);
    st.count("hammer: hits on a record of another thread in a bucket written by >= 2 threads", r.crossHits);
    st.count("hammer: setBusy", r.setBusy);
    st.cls("hammer: " + std::to_string(h.threads <= 4 ? 4 : h.threads <= 8 ? 8 : 16) + " or fewer threads");
    for (uint64_t x : r.ntHashes) st.nt(x);
    if (!r.error.empty()) vh::fail(kase, r.error);     // a torn record cannot be spurious: reported on first sight
}

// ============================ alloc: really allocated tables ======================================
void runAlloc(vh::Args& a, vh::Stats& st) {
    std::vector<U64> sizes = {512, 516, 520, 1020, 1024, 1028, 2044, 2048, 4092, 4096, 4100, 65532, 65536, 65540, 458752, 458756, 1 << 20, (1 << 20) + 4, (1 << 20) - 4, 3 << 19};
    if (a.tier != "quick") for (U64 s : {(U64)1 << 22, ((U64)1 << 22) + 65536, (U64)3 << 22, (U64)1 << 24, (U64)1 << 26}) sizes.push_back(s);
    else sizes.push_back((U64)1 << 22);
    const int part = (int)a.num("slice", 0), parts = (int)std::max(1L, a.num("slices", 1));
    Rng rng(vh::mix(a.seed * 17 + part));
    std::unique_ptr<TranspositionTable> tt(new TranspositionTable(512));
    const U64 only = strtoull(a.str("only", "0").c_str(), 0, 10);      // replay: one size
    if (only) sizes.assign(1, only);
    for (size_t si = 0; si < sizes.size(); si++) {
        if (!only && (int)(si % parts) != part) continue;
        U64 n = sizes[si];
        Value kase = Value::object(); kase["kind"] = "alloc"; kase["entries"] = std::to_string(n); kase["seed"] = std::to_string(a.seed);
        vh::setCurrent("alloc", kase);
        if (rng.pick(2)) tt.reset(new TranspositionTable(n)); else tt->reSize(n);
        if (VerifTTAccess::tableSize(*tt) != n || VerifTTAccess::usedSize(*tt) != n) { vh::recordViolation("alloc", kase, "after reSize(" + std::to_string(n) + ") tableSize/usedSize = " + std::to_string(VerifTTAccess::tableSize(*tt)) + "/" + std::to_string(VerifTTAccess::usedSize(*tt))); return; }
        U64 mask = VerifTTAccess::usedSizeMask(*tt);
        U64 lo[7] = {0, 3, 4, mask, mask + 1, mask ? mask - 1 : 0, 0x0000ffffffffffffULL};
        long nKeys = 0;
        auto oneKey = [&](U64 key) -> bool {
            size_t i = VerifTTAccess::getIndex(*tt, key);
            nKeys++;
            if ((U64)i + 3 >= n) { Value k = kase; k["key"] = hex(key); vh::recordViolation("alloc", k, "table of " + std::to_string(n) + " entries: getIndex(" + hex(key) + ") = " + std::to_string(i) + ", the bucket reaches past the end"); return false; }
            unsigned nonce = (unsigned)(rng.next() & 0xffff);
            insertPayload(*tt, key, nonce);
            TTEntry e;
            tt->probe(key, e);
            std::string err = e.getType() == TType::T_EMPTY ? "probe right after insert(" + hex(key) + ") misses" : checkPayload(key, e);
            if (!err.empty()) { Value k = kase; k["key"] = hex(key); vh::recordViolation("alloc", k, "table of " + std::to_string(n) + " entries: " + err); return false; }
            return true;
        };
        bool ok = true;
        U64 topStep = n <= (1 << 20) ? 1 : 7;          // big tables: every 7th top pattern + the extremes
        for (U64 top = 0; top < 65536 && ok; top += topStep)
            for (int j = 0; j < 7 && ok; j++) ok = oneKey((top << 48) | (lo[j] & 0x0000ffffffffffffULL) | ((rng.next() & 0xffffffffULL) << 16 & ~mask & 0x0000ffffffff0000ULL));
        for (U64 top : {0xffffULL, 0xfffeULL, 0x8000ULL, 0ULL})
            for (int j = 0; j < 7 && ok; j++) ok = oneKey((top << 48) | (lo[j] & 0x0000ffffffffffffULL));
        for (int j = 0; j < 20000 && ok; j++) ok = oneKey(rng.next());
        vh::clearCurrent();
        st.evaluations += nKeys;
        st.count("alloc: keys inserted and probed in really allocated tables", nKeys);
        st.cls(std::string("alloc: table ") + ((n & (n - 1)) ? "not a power of two" : "power of two"));
        if (n & (n - 1)) st.nt(vh::mix(n));
        if (!ok) return;
    }
}

// ============================ (v) tablebase residency ==============================================
struct PosBuilder {
    Position pos; int occ[8]; int nOcc = 0;
    void clear() { for (int i = 0; i < nOcc; i++) pos.setPiece(Square(occ[i]), Piece::EMPTY); nOcc = 0; }
    void put(int sq, char c) { pos.setPiece(Square(sq), tx::pieceCode(c)); occ[nOcc++] = sq; }
};

void runTB(vh::Args& a, vh::Stats& st) {
    static const char* roots3[] = {"8/8/8/4k3/8/8/Q7/1K6 w - - 0 1", "8/8/8/4k3/8/8/8/RK6 b - - 0 1", "8/8/3q4/4k3/8/8/8/1K6 w - - 0 1", "8/8/3r4/4k3/8/8/8/1K6 b - - 0 1",
                                   "8/8/8/4k3/8/8/B7/1K6 w - - 0 1", "8/8/3n4/4k3/8/8/8/1K6 w - - 0 1"};
    static const char* men3[] = {"KQk", "KRk", "Kkq", "Kkr", "KBk", "Kkn"};
    static const char* roots4[] = {"8/8/3r4/4k3/8/8/Q7/1K6 w - - 0 1", "8/8/8/4k3/8/8/Q7/1KR5 w - - 0 1", "8/8/2nr4/4k3/8/8/8/1K6 b - - 0 1", "8/8/3n4/4k3/8/8/B7/1K6 w - - 0 1"};
    static const char* men4[] = {"KQkr", "KQRk", "Kkrn", "KBkn"};
    const int part = (int)a.num("slice", 0);
    const long inserts = a.num("inserts", 2000000);
    const bool four = a.num("four", 0) != 0;
    Rng rng(vh::mix(a.seed * 19 + part));
    int which = four ? rng.pick(4) : (int)((a.seed + part) % 6);
    std::string fen = four ? roots4[which] : roots3[which], men = four ? men4[which] : men3[which];
    Value kase = Value::object(); kase["kind"] = "tb"; kase["root"] = fen; kase["inserts"] = (long long)inserts; kase["seed"] = std::to_string(a.seed); kase["part"] = part; kase["four"] = four ? 1 : 0;
    vh::setCurrent("tb", kase);
    const U64 N = 1 << 20;
    TranspositionTable tt(N);
    // some ordinary traffic first, then the table is built
    for (int i = 0; i < 100000; i++) insertPayload(tt, rng.next(), (unsigned)(rng.next() & 0xffff));
    Position root = TextIO::readFEN(fen);
    RelaxedShared<S64> mt(-1);
    if (!tt.updateTB(root, mt)) { vh::recordViolation("tb", kase, "updateTB(" + fen + ", maxTimeMillis=-1) on a 16 MiB table returns false"); return; }
    const U64 used = VerifTTAccess::usedSize(tt), bytes = tt.byteSize();
    const U64 tbBytes = 5 * 1024 * 1024;
    if (used > N - tbBytes / 16) { vh::recordViolation("tb", kase, "after updateTB usedSize = " + std::to_string(used) + " of " + std::to_string(N) + " entries: fewer than 5 MiB are reserved for the tablebase"); return; }
    // snapshot: reserved region byte by byte, and the answers of every placement
    std::vector<U8> region(tbBytes);
    for (U64 i = 0; i < tbBytes; i++) region[i] = tt.getByte(bytes - tbBytes + i);
    const int m = (int)men.size();
    std::vector<int> answers;       // score, or INT_MIN for "not found"
    PosBuilder pb;
    long found = 0;
    const U64 step = four ? 5 : 1;   // 4 men: every 5th placement code
    auto sweep = [&](bool record) -> bool {
        size_t ai = 0;
        for (U64 code = 0; code < (1ULL << (6 * m)); code += step) {
            int sq[5]; bool overlap = false;
            for (int k = 0; k < m; k++) { sq[k] = (int)(code >> (6 * k)) & 63; for (int j = 0; j < k; j++) if (sq[j] == sq[k]) overlap = true; }
            if (overlap) continue;
            pb.clear();
            for (int k = 0; k < m; k++) pb.put(sq[k], men[k]);
            for (int w = 0; w < 2; w++) {
                pb.pos.setWhiteMove(w);
                int sc = 0;
                int v = tt.probeDTM(pb.pos, 0, sc) ? sc : INT32_MIN;
                if (record) { answers.push_back(v); if (v != INT32_MIN) found++; }
                else if (answers[ai] != v) {
                    Value k = kase; k["fen"] = TextIO::toFEN(pb.pos);
                    vh::recordViolation("tb", k, "probeDTM(" + TextIO::toFEN(pb.pos) + ") answered " + (answers[ai] == INT32_MIN ? std::string("not found") : std::to_string(answers[ai])) + " before the hash traffic and " +
                                        (v == INT32_MIN ? std::string("not found") : std::to_string(v)) + " after it");
                    return false;
                }
                ai++;
            }
        }
        return true;
    };
    sweep(true);
    if (found == 0) { vh::recordViolation("tb", kase, "updateTB returned true but no placement of the root's material is found"); return; }
    // Interlude, as between two searches of the engine: updateTB() is asked about roots the resident table cannot serve
    // (another pawnless <=4-man class with too little time to regenerate; a root with pawns / too many men, at most three
    // times).  As long as the resident table still answers, its 5 MiB must stay reserved.
    {
        static const char* other[] = {"8/8/8/4k3/8/8/8/RK6 b - - 0 1", "8/8/3q4/4k3/8/8/8/1K6 w - - 0 1", "8/8/8/4k3/8/8/B7/1KN5 w - - 0 1", "8/8/2r5/4k3/8/8/Q7/1K6 w - - 0 1",
                                      "8/8/8/4k3/8/4P3/8/1K6 w - - 0 1", "r3k3/8/8/8/8/8/8/1KQQ2R1 w - - 0 1"};
        int nCalls = 1 + rng.pick(3);
        for (int i = 0; i < nCalls; i++) {
            std::string of = other[rng.pick(6)];
            Position op = TextIO::readFEN(of);
            int sc0;
            if (tt.probeDTM(op, 0, sc0)) continue; // covered by the resident table (sub-class): not an interlude
            RelaxedShared<S64> small((S64)rng.pick(3000));
            tt.updateTB(op, small);
        }
        int sc1;
        bool stillAnswers = tt.probeDTM(root, 0, sc1);
        const U64 usedNow = VerifTTAccess::usedSize(tt);
        if (stillAnswers && usedNow > N - tbBytes / 16) {
            vh::recordViolation("tb", kase, "after updateTB() calls for other roots the resident table still answers probeDTM but usedSize = " + std::to_string(usedNow) +
                                " of " + std::to_string(N) + " entries: its 5 MiB are no longer reserved");
            return;
        }
        if (!stillAnswers) { st.count("tb: resident table dropped by the interlude (nothing to protect)"); vh::clearCurrent(); return; }
        st.cls("tb: updateTB for other roots while a table is resident");
    }
    // hammer: all top-bit patterns x low patterns, then random keys; every bucket must stay below usedSize
    U64 mask = VerifTTAccess::usedSizeMask(tt);
    U64 lo[7] = {0, 3, 4, mask, mask + 1, mask ? mask - 1 : 0, 0x0000ffffffffffffULL};
    long n = 0;
    auto oneKey = [&](U64 key) -> bool {
        size_t i = VerifTTAccess::getIndex(tt, key);
        n++;
        if ((U64)i + 3 >= used) { Value k = kase; k["key"] = hex(key); vh::recordViolation("tb", k, "tablebase resident, usedSize " + std::to_string(used) + ": getIndex(" + hex(key) + ") = " + std::to_string(i) + " reaches into the reserved region"); return false; }
        insertPayload(tt, key, (unsigned)(rng.next() & 0xffff));
        if ((n & 7) == 0) { TTEntry e; tt.probe(key, e); if (e.getType() == TType::T_EMPTY) { Value k = kase; k["key"] = hex(key); vh::recordViolation("tb", k, "probe right after insert(" + hex(key) + ") misses"); return false; }
            std::string err = checkPayload(key, e); if (!err.empty()) { Value k = kase; k["key"] = hex(key); vh::recordViolation("tb", k, err); return false; }
            if ((n & 63) == 0) tt.setBusy(e, 0); }
        if ((n & 0xfffff) == 0) tt.nextGeneration();
        return true;
    };
    bool ok = true;
    for (U64 top = 0; top < 65536 && ok; top++) for (int j = 0; j < 7 && ok; j++) ok = oneKey((top << 48) | (lo[j] & 0x0000ffffffffffffULL));
    while (ok && n < inserts) ok = oneKey((n & 1) ? rng.next() : (rng.next() | (0xf000ULL << 48)));
    if (!ok) return;
    for (U64 i = 0; i < tbBytes; i++)
        if (region[i] != tt.getByte(bytes - tbBytes + i)) {
            Value k = kase; k["byte"] = std::to_string(bytes - tbBytes + i);
            vh::recordViolation("tb", k, "byte " + std::to_string(bytes - tbBytes + i) + " of the table (inside the 5 MiB reserved for the tablebase, entry " + std::to_string((bytes - tbBytes + i) / 16) + ", usedSize " + std::to_string(used) +
                                ") changed from " + std::to_string(region[i]) + " to " + std::to_string(tt.getByte(bytes - tbBytes + i)) + " under " + std::to_string(n) + " inserts");
            return;
        }
    if (!sweep(false)) return;
    // clear() drops the tablebase: nothing may be found any more, and the whole table is usable again
    tt.clear();
    if (VerifTTAccess::usedSize(tt) != N || VerifTTAccess::tbResident(tt)) { vh::recordViolation("tb", kase, "after clear() the tablebase is still resident / usedSize is not the table size"); return; }
    int sc = 0;
    if (tt.probeDTM(root, 0, sc)) { vh::recordViolation("tb", kase, "after clear() probeDTM(root) still answers"); return; }
    vh::clearCurrent();
    st.evaluations += n + (long)answers.size();
    st.count("tb: inserts with a resident tablebase", n);
    st.count("tb: probeDTM answers compared before/after", (long)answers.size());
    st.count("tb: reserved bytes compared", (long)tbBytes);
    st.cls(four ? "tb: 4-man table resident (region fully used)" : "tb: 3-man table resident");
    st.nt(vh::fnv(fen) ^ vh::mix(a.seed * 3 + part));
}

// The hammer's parameters come from the choice stream mixed with (seed, shard, case number), so that
// the first cases of a run (rapidcheck starts with empty streams) already differ.
HammerCase decodeHammer(Choices& c, long ops, int maxThreads, uint64_t salt) {
    HammerCase h;
    uint64_t s = (uint64_t)c.raw() << 30;
    s ^= c.raw();
    Rng r(vh::mix(s ^ salt));
    static const int tset[] = {2, 3, 4, 6, 8, 12, 16};
    int nt = 0; while (nt < 7 && tset[nt] <= maxThreads) nt++;
    h.threads = tset[r.pick(std::max(1, nt))];
    h.buckets = 1 + r.pick(8);
    h.keysPerBucket = 5 + r.pick(4);
    static const long es[] = {512, 1024, 4096, 516};
    h.entries = es[r.pick(4)];
    h.opsPerThread = ops;
    h.seed = r.next();
    return h;
}

} // namespace

int main(int argc, char** argv) {
    vh::Args a = vh::parseArgs(argc, argv);
    vh::installDeathHooks();
    vh::Stats& st = vh::ctx().stats;

    if (!a.replay.empty()) {
        return vh::runReplay([&](const std::string& sub, const Value& k) {
            std::string kind = k.getStr("kind");
            if (sub == "model" || sub == "model-contempt") { ModelCase c; if (!caseFromJson(k, c)) vh::fail(k, "replay file: bad model case"); runModel(sub, c, st); return; }
            if (sub == "mate") { TranspositionTable tt(1024); MateCase m{(int)k.getInt("score", 0), (int)k.getInt("ply1", 0), (int)k.getInt("ply2", 0)}; runMate(sub, m, st, tt, 0x123456789abcdefULL); return; }
            if (kind == "hammer" || sub == "hammer") {
                HammerCase h{(int)k.getInt("threads", 4), (int)k.getInt("buckets", 2), (int)k.getInt("keys_per_bucket", 6), (long)k.getInt("entries", 512), (long)k.getInt("ops_per_thread", 1000000), strtoull(k.getStr("seed").c_str(), 0, 10)};
                for (int i = 0; i < 3; i++) runHammer(sub, h, st);      // OS scheduling: three attempts
                return;
            }
            if (kind == "index") {
                IndexChecker ic(st);
                U64 s = strtoull(k.getStr("used_size").c_str(), 0, 10);
                VerifTTAccess::setUsedSize(ic.tt, s);
                if (!ic.one(s, unhex(k.getStr("key")))) throw vh::CaseFailed{"bucket reaches past the used size"};
                return;
            }
            size_t before = vh::ctx().violations.size();
            vh::Args b = a;
            b.seed = strtoull(k.getStr("seed", "1").c_str(), 0, 10);
            if (kind == "alloc") { b.kv["slices"] = "1"; b.kv["only"] = k.getStr("entries", "512"); runAlloc(b, st); }
            else if (kind == "tb") { b.kv["slice"] = std::to_string(k.getInt("part", 0)); b.kv["inserts"] = std::to_string(k.getInt("inserts", 2000000)); b.kv["four"] = std::to_string(k.getInt("four", 0)); runTB(b, st); }
            else vh::fail(k, "replay file: unknown case kind");
            if (vh::ctx().violations.size() > before) throw vh::CaseFailed{"see the VIOLATION line above"};
        });
    }

    std::string mode = a.str("mode", "model");
    if (mode == "model") {
        long n = a.cases;
        long ncont = a.num("contempt-cases", n / 4);
        vh::runProp("model", n - ncont, 12.0, [&](Choices& c) { ModelCase k = decodeModel(c, false); runModel("model", k, st); });
        vh::runProp("model-contempt", ncont, 12.0, [&](Choices& c) { ModelCase k = decodeModel(c, true); runModel("model-contempt", k, st); });
        TranspositionTable tt(1024);
        long nm = a.num("mate-cases", 20000);
        vh::runProp("mate", nm, 1.0, [&](Choices& c) {
            MateCase m;
            m.ply1 = c.range(0, 200); m.ply2 = c.range(0, 200);
            int lim = MATE0 - m.ply1;
            switch (c.pick(6)) {
            case 0: m.score = lim - c.pick(300); break;
            case 1: m.score = -(lim - c.pick(300)); break;
            case 2: m.score = (c.flip() ? 1 : -1) * (MATE0 / 2 + c.range(-4, 4)); break;
            case 3: m.score = c.range(-lim, lim); break;
            case 4: m.score = (c.flip() ? 1 : -1) * c.range(MATE0 / 2, lim); break;
            default: m.score = c.range(-3000, 3000); break;
            }
            uint64_t key = ((uint64_t)c.raw() << 34) ^ ((uint64_t)c.raw() << 17) ^ c.raw();
            vh::setCurrent("mate", mateJson(m));
            runMate("mate", m, st, tt, key);
            vh::clearCurrent();
        });
    } else if (mode == "hammer") {
        long ops = a.num("ops", 400000);
        int maxThreads = (int)a.num("max-threads", 8);
        vh::ctx().shrinkBudget = 2;
        long caseNo = 0;
        vh::runProp("hammer", a.cases, 1.0, [&](Choices& c) { HammerCase h = decodeHammer(c, ops, maxThreads, vh::mix(a.seed * 1000003ULL + (uint64_t)a.shard * 7919 + caseNo++)); runHammer("hammer", h, st); }, 100);
    } else if (mode == "index") runIndex(a, st);
    else if (mode == "alloc") runAlloc(a, st);
    else if (mode == "tb") runTB(a, st);
    else { fprintf(stderr, "c08: unknown mode\n"); return 2; }
    return vh::finish();
}
