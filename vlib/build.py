"""Build machinery: compiles /repo's sources (globbed at run time) plus the
harness sources in /verif/src into /verif/build/<variant>/ with ninja.

Every registered command goes through ensure(), so a check always runs
binaries rebuilt from the current working tree of the repository
(VERIF_REPO, default /repo).  No repo CMake is used; nndata.cpp (INCBIN of
the empty network file) is replaced at link time by src/common/nndata_rt.cpp.
"""
import fcntl
import glob
import hashlib
import os
import subprocess
import sys

VERIF = os.path.dirname(os.path.dirname(os.path.abspath(__file__)))
REPO = os.environ.get("VERIF_REPO", "/repo")
BUILD = os.environ.get("VERIF_BUILD", os.path.join(VERIF, "build"))
GUARD = "TEXEL_VERIF"

INC_DIRS = ["lib/texellib", "lib/texellib/book", "lib/texellib/debug",
            "lib/texellib/hw", "lib/texellib/nn", "lib/texellib/tb",
            "lib/texellib/util", "lib/texellib/tb/gtb/sysport",
            "lib/texellib/tb/gtb/compression",
            "lib/texellib/tb/gtb/compression/lzma",
            "lib/texelutillib", "lib/texelutillib/pg", "app/texel"]

GXX, GCC = "g++", "gcc"
CLANGXX, CLANG = "clang++", "clang"

SAN = "-fsanitize=address,undefined -fno-sanitize-recover=undefined"

VARIANTS = {
    # name: (cxx, cc, cflags, ldflags)
    "opt":    (GXX, GCC, "-O3 -g1", ""),  # upstream CMake rewrites -O2 to -O3; g++ 12 -O2 miscompiles NNEvaluator::eval (see notes/C07.md)
    "asan":   (GXX, GCC, "-O1 -g1 -fno-omit-frame-pointer " + SAN, SAN),
    "tsan":   (GXX, GCC, "-O1 -g1 -fsanitize=thread", "-fsanitize=thread"),
    "fuzz":   (CLANGXX, CLANG,
               "-O1 -g -fno-omit-frame-pointer -fsanitize=fuzzer-no-link,address,undefined "
               "-fno-sanitize-recover=undefined",
               "-fsanitize=fuzzer,address,undefined"),
    "ssse3":  (GXX, GCC, "-O3 -g1 -mssse3 -DUSE_SSSE3", ""),
    "avx2":   (GXX, GCC, "-O3 -g1 -mssse3 -mavx2 -DUSE_SSSE3 -DUSE_AVX2", ""),
    "avx512": (GXX, GCC, "-O3 -g1 -mssse3 -mavx2 -mavx512f -mavx512bw -mavx512vnni "
                          "-DUSE_SSSE3 -DUSE_AVX2 -DUSE_AVX512", ""),
}


def cpu_flags():
    try:
        for line in open("/proc/cpuinfo"):
            if line.startswith("flags"):
                return set(line.split(":", 1)[1].split())
    except OSError:
        pass
    return set()


def variant_supported(v):
    need = {"ssse3": {"ssse3"}, "avx2": {"ssse3", "avx2"},
            "avx512": {"ssse3", "avx2", "avx512f", "avx512bw", "avx512_vnni"}}.get(v)
    return need is None or need <= cpu_flags()


def repo_sources():
    """(lib sources, app sources) relative to REPO, globbed now."""
    lib = []
    for root in ("lib/texellib", "lib/texelutillib"):
        for dp, dn, fn in os.walk(os.path.join(REPO, root)):
            for f in sorted(fn):
                if f.endswith((".cpp", ".c")) and f not in ("incbin.c",):
                    lib.append(os.path.relpath(os.path.join(dp, f), REPO))
    lib.sort()
    app = sorted(os.path.relpath(p, REPO)
                 for p in glob.glob(os.path.join(REPO, "app/texel/*.cpp")))
    return lib, app


# Harness targets. name -> dict(variant-independent description)
#   srcs: sources under /verif/src;  app: link app/texel objects (minus texel.cpp);
#   main: link app/texel/texel.cpp too (the real engine binary);
#   libs: extra link flags; fuzzer: libFuzzer target (fuzz variant only)
TARGETS = {}


def target(name, srcs, app=False, main=False, libs="", fuzzer=False, std="gnu++17", nolib=False):
    TARGETS[name] = dict(srcs=srcs, app=app, main=main, libs=libs, fuzzer=fuzzer,
                         std=std, nolib=nolib)


COMMON = ["common/nndata_rt.cpp"]
RC = "-lrapidcheck"

target("texel", COMMON, app=True, main=True)
target("netgen", ["common/netgen.cpp"])
target("refperft", ["common/refperft.cpp"], nolib=True)


def discover_targets():
    """Every src/harness/*.cpp is a rapidcheck harness target named after the
    file; every src/fuzz/*.cpp is a libFuzzer target (fuzz variant only).  A line
    `// VERIF-TARGET: app main norc extra=common/foo.cpp` in the first lines of
    the file adjusts the defaults (app: link app/texel objects except texel.cpp;
    main: link texel.cpp as well; norc: do not link rapidcheck)."""
    for sub, fuzzer in (("harness", False), ("fuzz", True)):
        for f in sorted(glob.glob(os.path.join(VERIF, "src", sub, "*.cpp"))):
            name = os.path.basename(f)[:-4]
            opts = []
            with open(f, errors="replace") as fh:
                for _ in range(15):
                    line = fh.readline()
                    if "VERIF-TARGET:" in line:
                        opts = line.split("VERIF-TARGET:", 1)[1].split()
            extra = [o.split("=", 1)[1] for o in opts if o.startswith("extra=")]
            target(name, COMMON + extra + ["%s/%s.cpp" % (sub, name)], app="app" in opts, main="main" in opts,
                   libs="" if ("norc" in opts or fuzzer) else RC, fuzzer=fuzzer)


discover_targets()


def obj_name(rel):
    return rel.replace("/", "_").replace(".", "_") + ".o"


def gen_ninja(variants):
    lib, app = repo_sources()
    out = []
    w = out.append
    w("ninja_required_version = 1.3")
    w("builddir = %s" % BUILD)
    w("rule cxx\n  command = $cxx -MMD -MF $out.d $flags -c $in -o $out\n  depfile = $out.d\n"
      "  deps = gcc\n  description = CXX $out")
    w("rule ar\n  command = rm -f $out && ar rcs $out @$out.rsp\n  rspfile = $out.rsp\n"
      "  rspfile_content = $in\n  description = AR $out")
    w("rule link\n  command = $cxx $ldflags -o $out $in $libs\n  description = LINK $out")
    incs = " ".join("-I%s/%s" % (REPO, d) for d in INC_DIRS) + " -I%s/src" % VERIF
    for v in variants:
        cxx, cc, cflags, ldflags = VARIANTS[v]
        vdir = os.path.join(BUILD, v)
        base = "%s -D%s -DHAS_RT -pthread -Wno-deprecated-declarations %s" % (cflags, GUARD, incs)
        libobjs = []
        for s in lib:
            o = os.path.join(vdir, "lib", obj_name(s))
            libobjs.append(o)
            if s.endswith(".c"):
                w("build %s: cxx %s/%s\n  cxx = %s\n  flags = %s" % (o, REPO, s, cc, base))
            else:
                w("build %s: cxx %s/%s\n  cxx = %s\n  flags = -std=c++11 %s" % (o, REPO, s, cxx, base))
        w("build %s/libtexel.a: ar %s" % (vdir, " ".join(libobjs)))
        appobjs, mainobj = [], None
        for s in app:
            o = os.path.join(vdir, "app", obj_name(s))
            w("build %s: cxx %s/%s\n  cxx = %s\n  flags = -std=c++11 %s" % (o, REPO, s, cxx, base))
            if os.path.basename(s) == "texel.cpp":
                mainobj = o
            else:
                appobjs.append(o)
        srcobjs = {}
        for name, t in sorted(TARGETS.items()):
            if t["fuzzer"] != (v == "fuzz"):
                continue
            objs = []
            for s in t["srcs"]:
                key = (s, t["std"])
                if key not in srcobjs:
                    o = os.path.join(vdir, "src", obj_name(s))
                    w("build %s: cxx %s/src/%s\n  cxx = %s\n  flags = -std=%s %s" %
                      (o, VERIF, s, cxx, t["std"], base))
                    srcobjs[key] = o
                objs.append(srcobjs[key])
            if t["app"]:
                objs += appobjs
            if t["main"] and mainobj:
                objs.append(mainobj)
            if not t["nolib"]:
                objs.append("%s/libtexel.a" % vdir)
            ld = ldflags
            if v == "fuzz" and not t["fuzzer"]:
                ld = "-fsanitize=address,undefined"
            w("build %s/bin/%s: link %s\n  cxx = %s\n  ldflags = %s\n  libs = %s -lpthread -lrt" %
              (vdir, name, " ".join(objs), cxx, ld, t["libs"]))
    return "\n".join(out) + "\n"


def binpath(variant, name):
    return os.path.join(BUILD, variant, "bin", name)


def ensure(wanted, quiet=True):
    """wanted: list of (variant, target-name). Builds them (incrementally)."""
    os.makedirs(BUILD, exist_ok=True)
    variants = sorted(set(v for v, _ in wanted))
    lockf = open(os.path.join(BUILD, ".lock"), "w")
    fcntl.flock(lockf, fcntl.LOCK_EX)
    try:
        text = gen_ninja(list(VARIANTS))
        nf = os.path.join(BUILD, "build.ninja")
        old = open(nf).read() if os.path.exists(nf) else None
        if old != text:
            with open(nf, "w") as f:
                f.write(text)
        goals = [binpath(v, n) for v, n in wanted]
        cmd = ["ninja", "-f", nf, "-j", str(min(os.cpu_count() or 4, 12))] + goals
        p = subprocess.run(cmd, stdout=subprocess.PIPE, stderr=subprocess.STDOUT, text=True)
        if p.returncode != 0:
            sys.stdout.write(p.stdout[-20000:])
            raise SystemExit("BUILD-FAILED (exit 2): the tree under %s does not compile" % REPO)
        elif not quiet:
            sys.stdout.write(p.stdout[-3000:])
    finally:
        fcntl.flock(lockf, fcntl.LOCK_UN)
        lockf.close()
    return [binpath(v, n) for v, n in wanted]
