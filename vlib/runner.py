"""Check runner: builds from the repository's current tree, replays the
regression corpus, runs the seeded shards in parallel, merges the per-shard
parts into /verif/evidence/<id>.json and prints VIOLATION / KNOWN-FINDING lines.
"""
import array
import concurrent.futures as cf
import glob
import importlib
import json
import os
import re
import shutil
import subprocess
import sys
import time

from . import build

VERIF = build.VERIF
# Runs against a scratch copy (VERIF_REPO / VERIF_BUILD set: mutant and seeded-change judging) keep their
# evidence and found replays inside their own build directory, so they never disturb /verif/evidence.
_SCRATCH = "VERIF_BUILD" in os.environ or "VERIF_REPO" in os.environ
EVID = os.path.join(build.BUILD, "evidence") if _SCRATCH else os.path.join(VERIF, "evidence")
FOUND = os.path.join(build.BUILD, "found") if _SCRATCH else os.path.join(VERIF, "replays", "found")
REGRESS = os.path.join(VERIF, "replays", "regress")
NETS = os.path.join(build.BUILD, "nets")
NCPU = int(os.environ.get("VERIF_JOBS", "0") or 0) or os.cpu_count() or 4

NET_FAMILIES = ["material", "random-small", "random-wide", "extreme", "zero"]


def net_path(family, seed=1):
    return os.path.join(NETS, "%s-%d.net" % (family, seed))


def ensure_nets(names):
    """names: list of (family, seed)."""
    os.makedirs(NETS, exist_ok=True)
    need = [(f, s) for f, s in names if not os.path.exists(net_path(f, s))]
    if not need:
        return
    exe = build.ensure([("opt", "netgen")])[0]
    for f, s in need:
        tmp = net_path(f, s) + ".tmp%d" % os.getpid()
        subprocess.check_call([exe, f, str(s), tmp])
        os.replace(tmp, net_path(f, s))


def load_known():
    p = os.path.join(VERIF, "known_findings.json")
    if not os.path.exists(p):
        return {"fixed": [], "known": []}
    return json.load(open(p))


def san_env():
    return {
        "ASAN_OPTIONS": "abort_on_error=1:detect_leaks=0:allocator_may_return_null=1:malloc_context_size=3",
        "UBSAN_OPTIONS": "abort_on_error=1:halt_on_error=1:print_stacktrace=1",
        "TSAN_OPTIONS": "halt_on_error=1:second_deadlock_stack=1:exitcode=66",
    }


def run_shard(spec):
    """spec: dict(cmd, env, timeout, part, log). Returns dict."""
    env = dict(os.environ)
    env.update(san_env())
    env.update(spec.get("env") or {})
    t0 = time.time()
    out = ""
    status = "ok"
    try:
        p = subprocess.run(spec["cmd"], env=env, stdout=subprocess.PIPE, stderr=subprocess.STDOUT,
                           timeout=spec.get("timeout", 3600), cwd=VERIF)
        out = p.stdout.decode("utf-8", "replace")
        rc = p.returncode
    except subprocess.TimeoutExpired as e:
        out = (e.stdout or b"").decode("utf-8", "replace")
        rc = None
        status = "timeout"
    with open(spec["log"], "w") as f:
        f.write(out)
    part = None
    if spec.get("part") and os.path.exists(spec["part"]):
        try:
            part = json.load(open(spec["part"]))
        except Exception:
            part = None
    viol = re.findall(r"^VIOLATION property=(\S+) replay=(\S+)\s*\n?(.*)$", out, re.M)
    return dict(rc=rc, status=status, part=part, out=out, wall=time.time() - t0,
                viol=viol, spec=spec)


def merge_hashes(parts):
    seen = set()
    for p in parts:
        hf = p.get("hashes_file")
        if hf and os.path.exists(hf):
            a = array.array("Q")
            with open(hf, "rb") as f:
                data = f.read()
            a.frombytes(data[: len(data) // 8 * 8])
            seen.update(a)
    return len(seen)


def run_check(mod, tier, seed, replay=None):
    pid = mod.ID
    t0 = time.time()
    os.makedirs(EVID, exist_ok=True)
    os.makedirs(FOUND, exist_ok=True)
    evid_file = os.path.join(EVID, pid + ".json")
    if os.path.exists(evid_file) and not replay:
        os.remove(evid_file)
    plan = mod.plan(tier, seed)
    # --- build from the current tree
    wanted = list(plan["builds"]) + [("opt", "refperft")]
    build.ensure(wanted)
    if plan.get("nets"):
        ensure_nets(plan["nets"])
    if replay:
        rb = plan.get("replay_bin") or plan["builds"][0]
        cmd = [build.binpath(*rb), "--prop", pid, "--replay", replay] + [str(x) for x in plan.get("replay_args", [])]
        env = dict(os.environ); env.update(san_env()); env.update(plan.get("env") or {})
        p = subprocess.run(cmd, env=env, cwd=VERIF)
        if p.returncode != 0:
            print("VIOLATION property=%s replay=%s" % (pid, replay))
            return 1
        return 0
    # --- oracle self-validation (seconds)
    p = subprocess.run([build.binpath("opt", "refperft")], stdout=subprocess.PIPE, stderr=subprocess.STDOUT)
    if p.returncode != 0:
        sys.stdout.write(p.stdout.decode())
        print("ORACLE-SELFTEST-FAILED: refchess does not reproduce published perft numbers; no verdict")
        return 2
    work = os.path.join(build.BUILD, "run", pid)
    shutil.rmtree(work, ignore_errors=True)
    os.makedirs(work)
    violations = []   # (replay, message)
    known_lines = []
    # --- regression corpus first
    regress = sorted(glob.glob(os.path.join(REGRESS, pid + "-*.json")))
    rb = plan.get("replay_bin") or plan["builds"][0]
    specs = []
    for i, f in enumerate(regress):
        binsel = rb
        try:
            meta = json.load(open(f))
            if meta.get("bin"):
                binsel = tuple(meta["bin"])
        except Exception:
            pass
        specs.append(dict(cmd=[build.binpath(*binsel), "--prop", pid, "--replay", f] + [str(x) for x in plan.get("replay_args", [])],
                          env=plan.get("env"), timeout=plan.get("replay_timeout", 600),
                          log=os.path.join(work, "regress%d.log" % i), kind="regress", file=f))
    for i, sh in enumerate(plan["shards"]):
        part = os.path.join(work, "part%d.json" % i)
        if sh.get("cmd"):
            # arbitrary command shard; placeholders: {part} {found} {seed} {shard} {tier} {work} {verif} {build}
            sub = dict(part=part, found=FOUND, seed=str(seed), shard=str(sh.get("shard", i)), tier=tier,
                       work=work, verif=VERIF, build=build.BUILD, prop=pid)
            cmd = [str(x).format(**sub) for x in sh["cmd"]]
        else:
            cmd = [build.binpath(*sh["bin"]), "--prop", pid, "--seed", str(seed), "--shard", str(sh.get("shard", i)),
                   "--tier", tier, "--part", part, "--found-dir", FOUND] + [str(x) for x in sh.get("args", [])]
        env = dict(plan.get("env") or {}); env.update(sh.get("env") or {})
        specs.append(dict(cmd=cmd, env=env, timeout=sh.get("timeout", plan.get("timeout", 3600)), part=part,
                          log=os.path.join(work, "shard%d.log" % i), kind="shard", weight=sh.get("cpus", 1)))
    workers = plan.get("workers", NCPU)
    results = []
    with cf.ThreadPoolExecutor(max_workers=workers) as ex:
        for r in ex.map(run_shard, specs):
            results.append(r)
    parts = []
    errors = []
    replayed = 0
    for r in results:
        sp = r["spec"]
        if sp["kind"] == "regress":
            replayed += 1
            if r["rc"] != 0:
                if r["status"] == "timeout":
                    errors.append("regression replay timed out: %s" % sp["file"])
                else:
                    violations.append((sp["file"], "regression replay fails: " + r["out"].strip().splitlines()[-1][:300] if r["out"].strip() else "regression replay fails"))
            continue
        if r["part"] is not None:
            parts.append(r["part"])
        listed = set()
        if r["part"]:
            for v in r["part"].get("violations", []):
                violations.append((v["replay"], v.get("message", ""), v.get("key")))
                listed.add(v["replay"])
        for (_p, rp, msg) in r["viol"]:
            if rp not in listed:
                violations.append((rp, msg.strip() or "crash", None))
                listed.add(rp)
        if r["status"] == "timeout":
            errors.append("shard timed out (inconclusive): " + " ".join(sp["cmd"][-6:]))
        elif r["rc"] not in (0, 1) and not r["viol"]:
            errors.append("shard failed with status %s without a verdict: see %s" % (r["rc"], sp["log"]))
        elif r["rc"] == 1 and not listed:
            errors.append("shard exited 1 without naming a violation: see %s" % sp["log"])
    # --- merge evidence
    ev = dict(evaluations=0, inconclusive=0, discarded=0)
    classes, counters, samples = {}, {}, {}
    for p in parts:
        for k in ev:
            ev[k] += p.get(k, 0)
        for k, v in p.get("classes", {}).items():
            classes[k] = classes.get(k, 0) + v
        for k, v in p.get("counters", {}).items():
            counters[k] = counters.get(k, 0) + v
        for k, v in p.get("samples", {}).items():
            samples.setdefault(k, [])
            if len(samples[k]) < 2:
                samples[k].extend(v[: 2 - len(samples[k])])
    distinct = merge_hashes(parts)
    extra = {}
    if hasattr(mod, "post"):
        extra = mod.post(tier, seed, parts, results, work) or {}
        for v in extra.pop("violations", []):
            violations.append(v)
        errors.extend(extra.pop("errors", []))
    # --- floors
    floor_msgs = []
    for cls, need in (plan.get("floors") or {}).items():
        have = classes.get(cls, 0) + counters.get(cls, 0)
        if have < need:
            floor_msgs.append("class '%s': %d < floor %d" % (cls, have, need))
    # --- crash replays bypassed rapidcheck's shrinking: minimise the first few by delta debugging
    try:
        from . import shrink
        rbin = plan.get("replay_bin") or plan["builds"][0]
        prefix = [build.binpath(*rbin), "--prop", pid] + [str(x) for x in plan.get("replay_args", [])] + ["--replay"]
        menv = dict(os.environ); menv.update(san_env()); menv.update(plan.get("env") or {})
        done = 0
        for i, v in enumerate(violations):
            if done >= 2:
                break
            rp = v[0]
            if "-crash-" in os.path.basename(rp) and rp.endswith(".json") and os.path.exists(rp):
                newp = shrink.minimise(rp, prefix, menv, budget=plan.get("crash_shrink_budget", 60))
                violations[i] = (newp,) + tuple(v[1:])
                done += 1
    except Exception as ex:  # minimisation is best effort
        errors.append("crash minimisation failed: %r" % (ex,))
    # --- known findings
    known = load_known()
    real = []
    for v in violations:
        rp, msg = v[0], v[1]
        key = v[2] if len(v) > 2 else None
        hit = None
        for k in known.get("known", []):
            if k.get("property") == pid and key and k.get("key") == key:
                hit = k
        if hit:
            known_lines.append("KNOWN-FINDING: property=%s %s" % (pid, hit.get("what", key)))
        else:
            real.append((rp, msg))
    sample_list = []
    for k in sorted(samples):
        for s in samples[k]:
            sample_list.append({"class": k, "case": s})
    sample_list = sample_list[:40]
    if not sample_list:
        sample_list = [{"note": "no sample recorded"}]
    coverage = dict(evaluations=max(ev["evaluations"], 0), distinct_nontrivial=distinct,
                    rule=plan.get("rule", ""), samples=sample_list, classes=classes, counters=counters,
                    inconclusive=ev["inconclusive"], discarded=ev["discarded"],
                    regression_replays=replayed, shards=len(plan["shards"]),
                    shards_completed=len(parts), exhaustive=bool(extra.pop("exhaustive", False)))
    coverage.update(extra)
    if floor_msgs:
        coverage["floors_not_met"] = floor_msgs
    if errors:
        coverage["run_errors"] = errors
    evidence = dict(property_id=pid, tier=tier, seed=int(seed), level=getattr(mod, "LEVEL", "exploration"),
                    coverage=coverage, assumptions=plan.get("assumptions", []),
                    wall_s=round(time.time() - t0, 2), violations=len(real))
    with open(evid_file + ".tmp", "w") as f:
        json.dump(evidence, f, indent=1)
    os.replace(evid_file + ".tmp", evid_file)
    for line in sorted(set(known_lines)):
        print(line)
    for m in floor_msgs:
        print("INCONCLUSIVE property=%s generator floor not met: %s" % (pid, m))
    for e in errors:
        print("NOTE property=%s %s" % (pid, e))
    if real:
        seen = set()
        for rp, msg in real:
            if rp in seen:
                continue
            seen.add(rp)
            print("VIOLATION property=%s replay=%s" % (pid, rp))
            if msg:
                print("  " + msg[:1000])
        return 1
    print("OK property=%s tier=%s seed=%s evaluations=%d distinct_nontrivial=%d wall=%.0fs" %
          (pid, tier, seed, coverage["evaluations"], distinct, time.time() - t0))
    return 0


def load_check(pid):
    sys.path.insert(0, VERIF)
    return importlib.import_module("checks." + pid)
