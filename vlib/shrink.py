"""Minimisation of crash replays.

A sanitizer abort / assert / signal inside the code under test bypasses
rapidcheck's shrinking (the process dies), so the death hook saves the case it
was running unshrunk.  This module minimises such a replay file by delta
debugging over the JSON arrays of the case (move lists, command lists, operation
lists): a candidate is kept iff the harness' --replay still fails on it.
"""
import copy
import json
import os
import subprocess


def _arrays(node, path=()):
    """Yield paths of all lists inside the case (depth-first)."""
    if isinstance(node, list):
        yield path
        for i, x in enumerate(node):
            yield from _arrays(x, path + (i,))
    elif isinstance(node, dict):
        for k, v in node.items():
            yield from _arrays(v, path + (k,))


def _get(node, path):
    for p in path:
        node = node[p]
    return node


def _set(node, path, value):
    for p in path[:-1]:
        node = node[p]
    node[path[-1]] = value


def minimise(replay_file, cmd_prefix, env, budget=80, timeout=120):
    """cmd_prefix + [file] must exit non-zero while the case still fails.
    Returns the path of the minimised file (or the original)."""
    try:
        doc = json.load(open(replay_file))
    except Exception:
        return replay_file
    case = doc.get("case")
    if not isinstance(case, (dict, list)):
        return replay_file
    tmp = replay_file + ".min.json"
    runs = [0]

    def fails(candidate):
        if runs[0] >= budget:
            return False
        runs[0] += 1
        d = dict(doc)
        d["case"] = candidate
        with open(tmp, "w") as f:
            json.dump(d, f)
        try:
            p = subprocess.run(cmd_prefix + [tmp], env=env, stdout=subprocess.DEVNULL, stderr=subprocess.DEVNULL, timeout=timeout)
            return p.returncode != 0
        except subprocess.TimeoutExpired:
            return False

    if not fails(case):
        # not reproducible from the file: keep the original
        if os.path.exists(tmp):
            os.remove(tmp)
        return replay_file
    best = case
    changed = True
    while changed and runs[0] < budget:
        changed = False
        for path in list(_arrays(best)):
            try:
                arr = _get(best, path) if path else best
            except (KeyError, IndexError, TypeError):
                continue
            if not isinstance(arr, list) or len(arr) < 1:
                continue
            n = 2
            while len(arr) >= 1 and runs[0] < budget:
                chunk = max(1, len(arr) // n)
                removed = False
                # prefer dropping suffixes (histories stay legal), then other chunks
                starts = list(range(len(arr) - chunk, -1, -chunk))
                for st in starts:
                    cand_arr = arr[:st] + arr[st + chunk:]
                    cand = copy.deepcopy(best)
                    if path:
                        _set(cand, path, cand_arr)
                    else:
                        cand = cand_arr
                    if fails(cand):
                        best = cand
                        arr = cand_arr
                        removed = True
                        changed = True
                        break
                if not removed:
                    if chunk == 1:
                        break
                    n = min(len(arr), n * 2)
    d = dict(doc)
    d["case"] = best
    d["minimised"] = "delta debugging over JSON arrays, %d replays" % runs[0]
    out = replay_file[:-5] + "-min.json" if replay_file.endswith(".json") else replay_file + "-min.json"
    with open(out, "w") as f:
        json.dump(d, f)
    if os.path.exists(tmp):
        os.remove(tmp)
    return out
