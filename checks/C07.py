import hashlib
import json
import os
import struct
import subprocess

from vlib import build, runner

ID = "C07"
LEVEL = "exploration"

# all families of netgen, several seeds; one shard per (variant, net) because the network is loaded once per process
NETS = [("material", 1), ("random-small", 1), ("random-small", 2), ("random-wide", 1), ("random-wide", 2),
        ("extreme", 1), ("extreme", 2), ("zero", 1)]
XV_NETS = [n for n in NETS if n[0] != "zero"]
SIMD_VARIANTS = ["ssse3", "avx2", "avx512"]        # NEON kernels cannot run on this CPU


def net_name(n):
    return "%s-%d" % n


def work_dir():
    return os.path.join(build.BUILD, "run", ID)


def stream_file(group, variant, net):
    return os.path.join(work_dir(), "stream-%s-%s-%s.bin" % (group, variant, net_name(net)))


def opt_usable():
    """g++ 12 at plain -O2 miscompiles NNEvaluator::eval() in the generic build (the call of computeL1Out() is
    dropped: see notes/C07.md).  Upstream builds with -O3.  The fast generic variant takes part in the comparison
    only if the framework's flags for it are not plain -O2; the ASan build (generic code, -O1) always does."""
    flags = build.VARIANTS["opt"][2].split()
    return "-O2" not in flags or "-fno-tree-slp-vectorize" in flags


def simd_here():
    return [v for v in SIMD_VARIANTS if build.variant_supported(v)]


def fast_variants():
    return (["opt"] if opt_usable() else []) + simd_here()


def plan(tier, seed):
    quick = tier == "quick"
    fast = fast_variants()
    shards = []
    if quick:
        asan_args = ["--cases", 0, "--seq", 56, "--promo", 12, "--sym", 400, "--search", 5, "--nodes", 3000, "--max-pollute", 1500]
        big_args = ["--cases", 0, "--seq", 1400, "--promo", 300, "--sym", 6000, "--search", 50, "--nodes", 4000]
    else:
        asan_args = ["--cases", 0, "--seq", 5000, "--promo", 1000, "--sym", 40000, "--search", 400, "--nodes", 6000, "--max-pollute", 1500]
        big_args = ["--cases", 0, "--seq", 100000, "--promo", 20000, "--sym", 500000, "--search", 4000, "--nodes", 8000]
    # (1)-(4),(6) under ASan+UBSan: two shards per network.  The first of each pair also writes its value stream
    # ("small" group) and has one twin per fast variant (same shard number => same seeded cases): generic-vs-SIMD
    # comparison with the sanitized generic build as reference.
    for i, n in enumerate(NETS):
        env = {"TEXEL_VERIF_NET": runner.net_path(*n)}
        shards.append(dict(bin=("asan", "c07"), shard=2000 + i, args=asan_args + ["--stream", stream_file("small", "asan", n)], env=env))
        shards.append(dict(bin=("asan", "c07"), shard=3000 + i, args=asan_args, env=env))
        if n in XV_NETS:
            for v in fast:
                shards.append(dict(bin=(v, "c07"), shard=2000 + i, args=asan_args + ["--stream", stream_file("small", v, n)], env=env))
    # (5) "big" group: a much longer seeded case stream in every fast variant the CPU supports; these shards
    # also run oracles (1)-(4),(6) on their own
    for i, n in enumerate(XV_NETS):
        for v in fast:
            shards.append(dict(bin=(v, "c07"), shard=1000 + i, args=big_args + ["--stream", stream_file("big", v, n)],
                               env={"TEXEL_VERIF_NET": runner.net_path(*n)}))
    # (7) coverage-guided symmetry fuzzing on small material (src/fuzz/c07_egsym.cpp): the hand-written end-game rules are
    # reached through coverage feedback rather than by sampling; seeded from corpus/c07_egsym (a merged corpus of earlier
    # campaigns), one campaign per tier also from an empty corpus
    fuzz_runs = 250000 if quick else 6000000
    nfuzz = 3 if quick else 6
    for j in range(nfuzz):
        cmd = ["python3", "{verif}/tools/fuzzshard.py", "--prop", ID, "--target", "c07_egsym", "--build", "{build}",
               "--verif", "{verif}", "--part", "{part}", "--found", "{found}", "--work", "{work}",
               "--seed", "{seed}", "--shard", str(500 + j), "--runs", str(fuzz_runs), "--max-len", "17", "--minimize-runs", "0"]
        if j == nfuzz - 1:
            cmd.append("--empty-corpus")
        shards.append(dict(cmd=cmd, env={"TEXEL_VERIF_NET": runner.net_path(*NETS[j % 2 * 3])}))
    # measured minima over five seeds (quick, asan + 4 fast variants) are 1.7-2x these numbers; the fast variants
    # contribute most of the cases, so the floors scale with how many of them this CPU can run
    floors = {
        "king move before an evaluation": 20000, ">4 pending feature changes (overflow to full refresh)": 9000,
        "evaluation at network stack depth >= 8": 7000, "take-back with empty network stack (after assignment/reconnect)": 20000,
        "king crossed the d/e-file boundary before an evaluation": 10000, "castling made": 1400, "capture-promotion made": 1800,
        "e.p. capture made": 150, "evaluation after a null-move edit": 16000, "evaluation answered from the evaluation hash": 26000,
        "pollution with >= 1000 other positions": 1100, "contempt changed with shared caches": 10000, ">=6 queens of one colour": 1800,
        "another position assigned into the connected one": 5000, "direct setPiece edit of the connected position": 18000,
        "symmetry on end-game-rule material": 60000, "search evaluating at network stack depth >= 8": 350,
        "consecutive searches with different contempt on shared tables": 110,
        "in-search evaluations compared": 900000, "evaluations compared": 550000,
    }
    scale = (20 if not quick else 1) * max(len(fast), 1) / 4.0
    floors = {k2: int(v * scale) for k2, v in floors.items()}
    return dict(
        builds=[("asan", "c07")] + [(v, "c07") for v in fast] + [("fuzz", "c07_egsym")],
        replay_bin=("asan", "c07"),
        nets=NETS,
        env={"TEXEL_VERIF_NET": runner.net_path(*NETS[0])},
        shards=shards,
        timeout=900 if quick else 6 * 3600,
        rule=("seq/promo: command sequences (decoded from a rapidcheck choice stream, <= 220 commands) over a Position with an Evaluate connected: "
              "make a legal move (six profiles, king moves/castling/e.p./capture-promotions preferred one time in three), unmake, take-back "
              "segments, unmake-all, the search's null-move edit, direct setPiece edits (1-8 removals/relocations of non-king men), "
              "assignment / move-assignment into the connected position, reconnecting the evaluator to a copy (before and after destroying "
              "the old position), FEN re-read, contempt change, cache pollution by evaluating 1..10^4 other positions (fixed corpus, four "
              "contempt settings) through the same evaluator; evalPos / evalPos twice / raw network evaluations are interleaved at a generated "
              "rate; at the end everything is taken back with an evaluation at every depth.  Starts: initial position, C01's seeded FENs, "
              "constructed placements, end-game material; 'promo' = games from the pawn-race start (up to 8 queens a side).  Networks: "
              "material, random-small x2, random-wide x2, extreme x2, zero; contempt 0, +-1..20 or uniform in +-200.  Non-trivial = sequence "
              "(distinct by its full description) with a king move or >4 pending feature changes before an evaluation, or an evaluation at "
              "network stack depth >= 8.  sym: positions from 70 end-game material signatures with shaped placements (edge pawns, cornered "
              "defender, bishop+pawn fortress squares), sparse/dense placements and random games; non-trivial = position (distinct by FEN + "
              "contempt) whose material triggers an end-game rule.  search: 1-3 consecutive depth<=8 / node-limited searches of class Search "
              "on shared tables (contempt may change in between, best move played in between) with verif::evalHook; non-trivial = case with "
              ">= 50 evaluations including an evaluation-hash hit or a network stack depth >= 8.  Cross-variant: every ASan shard of the first series has a twin per fast variant "
              "(generic -O?, SSSE3, AVX2, AVX-512) running the same seeded cases, and a 25x longer series runs in the fast variants only; "
              "every value obtained from the evaluator under test is written to a stream and the streams are compared element-wise."),
        floors=floors,
        assumptions=[
            "oracle for purity = the same engine code run from scratch: Evaluate::evalPosPrint() on an evaluator whose connected Position is "
            "overwritten by assignment (never reads/writes the evaluation hash, always recomputes the material entry), cross-checked every 64th "
            "time and on every mismatch against evalPos() of a newly constructed EvalHashTables+Evaluate on a copy",
            "colour-flip relation as the code defines contempt: eval(flip(P), -whiteContempt) == eval(P, whiteContempt), values relative to the side to move; "
            "left/right mirror only for positions without castling rights (rights are dropped first)",
            "connected-position domain: at most 190 un-popped makeMove calls (NNEvaluator asserts stackTop < 2*MAX_SEARCH_DEPTH), direct setPiece "
            "edits never touch kings, rooks that carry a castling right or a position with an e.p. square, keep promotion-consistent material and <= 32 men",
            "synthetic networks keep |output| small enough for the 16-bit score field of the evaluation hash (as every trained net does); "
            "16-bit first-layer accumulators wrap identically in all variants",
            "build variants compared: asan (generic code, -O1, sanitized), " + ", ".join(fast) + " (as far as /proc/cpuinfo allows); NEON variants cannot run on this CPU"
            + ("" if opt_usable() else "; the fast generic variant `opt` is left out because vlib/build.py compiles it with plain g++ -O2, which miscompiles NNEvaluator::eval() (notes/C07.md)"),
            "ASan+UBSan build with assert() enabled for the 16 asan shards; optimised builds with assert() for the others",
        ],
    )


# ---- cross-variant comparison ---------------------------------------------------------------------------------
def read_stream(fn):
    try:
        data = open(fn, "rb").read()
    except OSError:
        return None
    if data[:4] != b"C07S":
        return None
    blocks = []
    off = 4
    while off + 12 <= len(data):
        n, h = struct.unpack_from("<IQ", data, off)
        off += 12
        blocks.append((n, h, data[off:off + 4 * n]))
        off += 4 * n
    return blocks


def run_trace(spec, block, out):
    cmd = list(spec["cmd"])
    for opt in ("--stream", "--part"):
        if opt in cmd:
            i = cmd.index(opt)
            del cmd[i:i + 2]
    cmd += ["--trace-block", str(block), "--trace-out", out, "--found-dir", os.path.join(work_dir(), "trace-found")]
    env = dict(os.environ)
    env.update(spec.get("env") or {})
    subprocess.run(cmd, env=env, stdout=subprocess.DEVNULL, stderr=subprocess.DEVNULL, timeout=3600)
    try:
        return json.load(open(out))
    except Exception:
        return None


def eval_fen(variant, netfile, fen, contempt):
    env = dict(os.environ, TEXEL_VERIF_NET=netfile)
    p = subprocess.run([build.binpath(variant, "c07"), "--evalfen", fen, "--contempt", str(contempt)], env=env,
                       stdout=subprocess.PIPE, stderr=subprocess.STDOUT, timeout=600)
    return p.stdout.decode("utf-8", "replace").strip()


def write_replay(sub, kase, message):
    os.makedirs(runner.FOUND, exist_ok=True)
    h = hashlib.sha1(json.dumps(kase, sort_keys=True).encode()).hexdigest()[:16]
    fn = os.path.join(runner.FOUND, "%s-%s-%s.json" % (ID, sub, h))
    with open(fn, "w") as f:
        json.dump(dict(property=ID, sub=sub, message=message, case=kase), f)
    return fn


def reduce_mismatch(net, va, vb, block, spec_a, spec_b):
    """First differing block of two streams -> replay file naming a single (net, FEN, variant pair) if possible."""
    ta = run_trace(spec_a, block, os.path.join(work_dir(), "trace-%s-%s.json" % (va, net_name(net))))
    tb = run_trace(spec_b, block, os.path.join(work_dir(), "trace-%s-%s.json" % (vb, net_name(net))))
    netfile = runner.net_path(*net)
    if not ta or not tb:
        kase = dict(net=net_name(net), variants=[va, vb], block=block, note="trace could not be produced")
        return write_replay("xv-case", kase, "value streams differ in block %d" % block), "value streams of %s and %s differ (net %s, block %d); no trace" % (va, vb, net_name(net), block)
    ea, eb = ta["elements"], tb["elements"]
    idx = None
    for i in range(min(len(ea), len(eb))):
        if ea[i]["value"] != eb[i]["value"] or ea[i]["fen"] != eb[i]["fen"]:
            idx = i
            break
    if idx is None:
        idx = min(len(ea), len(eb)) - 1
    el = ea[max(idx, 0)] if ea else None
    if el is not None:
        oa = eval_fen(va, netfile, el["fen"], el["contempt"])
        ob = eval_fen(vb, netfile, el["fen"], el["contempt"])
        if oa != ob:
            kase = dict(net=net_name(net), fen=el["fen"], contempt=el["contempt"], variants=[va, vb], outputs=[oa, ob])
            msg = "net %s, position %s, contempt %d: %s prints '%s' but %s prints '%s'" % (net_name(net), el["fen"], el["contempt"], va, oa, vb, ob)
            return write_replay("xv", kase, msg), msg
    kase = dict(net=net_name(net), variants=[va, vb], inner_sub=ta["sub"], inner=ta["case"], element=idx,
                values=[ea[idx]["value"] if ea and idx < len(ea) else None, eb[idx]["value"] if eb and idx < len(eb) else None])
    msg = ("net %s: element %d (%s) of the case differs between %s and %s (%s vs %s) although the position alone evaluates equally: history-dependent"
           % (net_name(net), idx, el["fen"] if el else "?", va, vb, kase["values"][0], kase["values"][1]))
    return write_replay("xv-case", kase, msg), msg


def post(tier, seed, parts, results, workdir):
    fast = fast_variants()
    by_stream = {}
    for r in results:
        cmd = r["spec"]["cmd"]
        if "--stream" in cmd:
            by_stream[cmd[cmd.index("--stream") + 1]] = r
    violations, errors = [], []
    compared_values = 0
    compared_pairs = 0
    for group, cand in (("small", ["asan"] + fast), ("big", fast)):
        for n in XV_NETS:
            streams = {}
            for v in cand:
                r = by_stream.get(stream_file(group, v, n))
                if r is None or r["rc"] != 0:
                    continue                     # that shard reported its own violation / error
                b = read_stream(stream_file(group, v, n))
                if b is None:
                    errors.append("no value stream from variant %s, net %s (%s series)" % (v, net_name(n), group))
                    continue
                streams[v] = b
            vs = [v for v in cand if v in streams]
            if len(vs) < 2:
                continue
            ref = vs[0]
            for v in vs[1:]:
                a, b = streams[ref], streams[v]
                compared_pairs += 1
                bad = None
                for i in range(min(len(a), len(b))):
                    if a[i] != b[i]:
                        bad = i
                        break
                    compared_values += a[i][0]
                if bad is None and len(a) != len(b):
                    bad = min(len(a), len(b))
                if bad is not None:
                    rp, msg = reduce_mismatch(n, ref, v, bad, by_stream[stream_file(group, ref, n)]["spec"],
                                              by_stream[stream_file(group, v, n)]["spec"])
                    violations.append((rp, "cross-variant: " + msg))
    extra = dict(cross_variant_values_compared=compared_values, cross_variant_stream_pairs=compared_pairs,
                 variants_compared=["asan"] + fast,
                 variants_not_compared=[v for v in ["opt"] + SIMD_VARIANTS if v not in fast] + ["neon", "neon-dot"])
    if violations:
        extra["violations"] = violations
    if errors:
        extra["errors"] = errors
    return extra
