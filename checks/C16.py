ID = "C16"
LEVEL = "exploration"


def plan(tier, seed):
    quick = tier == "quick"
    nshards = 16
    if quick:
        games, short, it = 500, 300, 12
        asan = ["--games", 80, "--short", 20, "--iter", 0]
    else:
        games, short, it = 20000, 1500, 125
        asan = ["--games", 1500, "--short", 200, "--iter", 0]
    opt_args = ["--games", games, "--short", short, "--iter", it, "--iters", 4]
    shards = [dict(bin=("opt", "c16"), args=opt_args) for _ in range(nshards)]
    # sanitizer sample: same oracle under ASan+UBSan with the repository's asserts
    shards.append(dict(bin=("asan", "c16"), args=asan + ["--iters", 1], shard=nshards))  # first filter pass only: the later iterations (path and proof-game search with large node budgets) can take tens of minutes per position under ASan
    # coverage-guided search over games (src/fuzz/c16_bound.cpp): one byte per ply selects the move; the bound / computeBlocked
    # oracle of sub 'games' on every prefix.  Seeded from corpus/c16_bound (merged corpus of earlier campaigns).
    fuzz_runs = 12000 if quick else 500000
    nfuzz = 2 if quick else 5
    for j in range(nfuzz):
        cmd = ["python3", "{verif}/tools/fuzzshard.py", "--prop", ID, "--target", "c16_bound", "--build", "{build}",
               "--verif", "{verif}", "--part", "{part}", "--found", "{found}", "--work", "{work}",
               "--seed", "{seed}", "--shard", str(700 + j), "--runs", str(fuzz_runs), "--max-len", "150", "--minimize-runs", "0"]
        if (not quick) and j == nfuzz - 1:
            cmd.append("--empty-corpus")
        shards.append(dict(cmd=cmd))
    floors_q = {
        "games: game with >=1 promotion": 400,
        "games: e.p. right in the final position": 150,
        "games: >=3 captures": 2500,
        "games: castling right lost, king and rook at home": 500,
        "games: game with castling": 500,
        "games: game with e.p. capture": 300,
        "games: 26 men": 1500,
        "bound: prefix positions checked": 200000,
        "short: proof games replayed in refchess": 4000,
        "iter: proof games replayed in refchess": 100,
    }
    floors_t = {k: v * 30 for k, v in floors_q.items()}
    floors_t["short: proof games replayed in refchess"] = 20000
    floors_t["iter: proof games replayed in refchess"] = 1000
    return dict(
        builds=[("opt", "c16"), ("asan", "c16"), ("fuzz", "c16_bound")],
        replay_bin=("opt", "c16"),
        shards=shards,
        timeout=1800 if quick else 8 * 3600,
        rule=("random legal games from the standard initial position, 1..150 plies, eight move-choice themes (uniform, "
              "develop+castle, promotion race, e.p., king/rook out and home, quiet, captures, pawns, scripted openings, castle-then-the-castled-rook-is-captured) with changes of mood; "
              "after the 6th capture only non-capturing moves are chosen (the game ends if none is legal), so the final "
              "position has >= 26 men by construction; with probability 1/3 the final move is a double push beside an enemy "
              "pawn. sub 'games': first pass of ProofGameFilter on the final FEN (e.p. field only when an e.p. capture is "
              "legal) + lower bound / computeBlocked on every prefix of the game; sub 'short': games of <= 12 plies, "
              "exhaustive ProofGame::search with weights 1:1 + up to 4 filter iterations; sub 'iter': up to 4 filter "
              "iterations (kernel, path, proof game with the filter's own node budgets) on final FENs of full games. "
              "libFuzzer shards (c16_bound): games decoded from bytes (byte mod number of legal moves, <= 6 captures, <= 150 plies), same bound / "
              "computeBlocked oracle on every prefix, coverage-guided. evaluations = games. Non-trivial = game (distinct by sub + final FEN) with >= 1 promotion, an e.p. right in "
              "the final position, >= 3 captures, or a castling right lost with king and rook on their home squares."),
        floors=floors_q if quick else floors_t,
        assumptions=[
            "refchess (independent mailbox rules, validated by published perft counts at the start of the run) replays every proof game and generates the games",
            "domain: positions with >= 26 men reached by a legal game from the standard initial position; FEN with the e.p. target only when an e.p. capture is legal (ProofGame rejects any other spelling as 'Lossy FEN conversion')",
            "'unknown' verdicts and exhausted node budgets are inconclusive, never violations; nothing is demanded about the length of a proof game",
            "bound <= remaining plies is not demanded for games whose final double push leaves a non-capturable e.p. square (texel's search does not identify that position with the goal)",
            "class D8-castling-bound (overshoot <= 4 plies with a castling move in the continuation) is collected and reported at the end of a shard; D8 is fixed, so any member is a VIOLATION",
            "opt build with assert() enabled; one extra shard under ASan+UBSan",
        ],
    )
