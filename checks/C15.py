ID = "C15"
LEVEL = "exploration"


def plan(tier, seed):
    quick = tier == "quick"
    nshards = 16
    cases = 300 if quick else 5000
    return dict(
        builds=[("asan", "c15")],
        shards=[dict(bin=("asan", "c15"), args=["--cases", cases]) for _ in range(nshards)],
        timeout=900 if quick else 6 * 3600,
        rule=("pairs (P, m) -> Q along random legal games (<=250 plies, six move-choice profiles, extra weight on "
              "castling, e.p. captures, double pushes that give an e.p. right, (capture-)promotions and captures on corner "
              "squares) from the standard start position only; P and Q normalised with TextIO::fixupEPSquare as Game does. "
              "At every ply: the played move and every legal castling / e.p. / promotion / rights-changing / corner-capture "
              "move of P; at every 10th ply every legal move of P. Completeness is checked for every pair with both "
              "values of includeAllEpSquares; soundness (every listed un-move of Q restores a legal position in which the move "
              "is legal and leads back to Q) for every un-move of Q for played and special moves. evaluations = pairs; "
              "non-trivial = pair (distinct by P + m) whose m is a capture, castling, e.p., promotion or changes castling rights."),
        floors={"castling": 200, "e.p. capture": 100, "capture-promotion": 500, "promotion": 1000,
                "changes castling rights": 20000, "rook captured with its right": 100,
                "P has an e.p. right, other move played": 500, "Q has an e.p. right": 300,
                "un-moves checked for soundness": 4000000} if quick else
               {"castling": 10000, "e.p. capture": 5000, "capture-promotion": 25000, "promotion": 50000,
                "changes castling rights": 1000000, "rook captured with its right": 5000,
                "P has an e.p. right, other move played": 25000, "Q has an e.p. right": 15000,
                "un-moves checked for soundness": 200000000},
        assumptions=["refchess (independent mailbox rules, validated by published perft counts at the start of the run) decides legality",
                     "domain: positions reachable from the standard start position (RevMoveGen documents a piece-count filter relative to it)",
                     "P and Q carry the e.p. target only when an e.p. capture is legal (TextIO::fixupEPSquare, as Game does)",
                     "UndoInfo.halfMoveClock of an un-move is documented as always 0 and is not required to restore P's clock",
                     "ASan+UBSan build, assert() enabled"],
    )
