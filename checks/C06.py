from vlib import runner

ID = "C06"
LEVEL = "exploration"


def plan(tier, seed):
    quick = tier == "quick"
    net = runner.net_path("material", 1)
    shards = [dict(bin=("opt", "c06"), args=["--cases", 600 if quick else 7000]) for _ in range(16)]
    return dict(
        builds=[("opt", "c06")],
        nets=[("material", 1)],
        env={"TEXEL_VERIF_NET": net},
        shards=shards,
        timeout=1800 if quick else 8 * 3600,
        rule=("time controls decoded from the choice stream: movetime 1..10^5 or wtime/btime 1..10^7 with winc/binc 0..10^5 and movestogo 0..100, "
              "side to move, Ponder option, BufferTime 1..10000, MaxNPS {0, 10^3..10^6}, Threads 1..4, positions with 1 / few / many legal "
              "moves, ns-per-node {200, 1000, 5000, 20000}, 'go' or 'go ponder', and event injections at an exact main-thread node count "
              "(stop; ponderhit before and after the limits are exhausted; ponderhit then stop), under 3 schedule strategies. Large budgets "
              "get an injected stop so that a run stays below ~2*10^5 nodes (the limits handed to the search are still checked). "
              "Non-trivial = distinct (go line, BufferTime, MaxNPS, Ponder, Threads, position, ns-per-node, event) tuple."),
        floors={"search cut by time": 300, "bestmove after injected stop": 300, "ponderhit with exhausted limits": 20,
                "single legal move": 60, "movestogo 1": 30, "clock < buffer": 150, "inc > clock": 40, "MaxNPS": 150, "Threads > 1": 300},
        assumptions=["virtual clock: time advances by ns-per-node at every stop test of the main search thread and jumps when all threads sleep; wall-clock behaviour is not asserted",
                     "budget = movetime, or clock - min(BufferTime, 9*clock/10) (computeTimeLimit's documented intent: keep the buffer, but never use negative time)",
                     "one polling interval = (nodesBetweenTimeCheck + 1500 nodes that quiescence may add before the next stop test) * ns-per-node + 1 ms clock granularity (+ one MaxNPS sleep quantum = those nodes / MaxNPS when throttled; + the 10 ms wait loop of a ponder/infinite search that has already ended)",
                     "tame positions (short quiescence) are used so that the polling interval is well defined"],
    )
