from vlib import build, runner

ID = "C11"
LEVEL = "exploration"
NETS = [("material", 1), ("random-small", 1), ("random-wide", 1), ("material", 2)]

# measured (ASan+UBSan, one core): UCI part ~35 cases/s on a persistent engine process (ucinewgame before every case);
# console part ~5000 commands/s (Game + model side by side); ComputerPlayer part ~1000 commands/s (depth 1..3 searches).


def plan(tier, seed):
    quick = tier == "quick"
    uci = 250 if quick else 7000        # per shard -> 4 000 / 112 000 UCI cases
    game = 1500 if quick else 65000     # per shard -> 24 000 / 1 040 000 command sequences
    cp = 150 if quick else 4000         # per shard -> 2 400 / 64 000 sequences with ComputerPlayer answers
    shards = []
    for i in range(16):
        fam, s = NETS[i % len(NETS)]
        shards.append(dict(bin=("asan", "c11"), args=["--engine", build.binpath("asan", "texel"), "--net", runner.net_path(fam, s),
                                                     "--uci", uci, "--game", game, "--cp", cp],
                           env={"TEXEL_VERIF_NET": runner.net_path(fam, s)}))
    sc = 1 if quick else 25
    return dict(
        builds=[("asan", "c11"), ("asan", "texel")],
        nets=NETS,
        env={"TEXEL_VERIF_NET": runner.net_path("material", 1)},
        shards=shards,
        replay_args=["--engine", build.binpath("asan", "texel"), "--net", runner.net_path("material", 1)],
        timeout=1500 if quick else 8 * 3600,
        rule=("UCI part: history h + final move m, sent as 'position fen F moves h' + 'go depth 1..6 searchmoves m [m2]' (MultiPV 1|2) to the real "
              "engine (ASan+UBSan). Histories are built by construction: a start (random game, constructed placement, castling position, or the "
              "position before a double push whose e.p. capture is legal / pseudo-only (pinned) / absent) + 2..5 there-and-back shuffle cycles "
              "(varied or identical, optionally a king/rook cycle that loses castling rights, optionally an irreversible move followed by more "
              "cycles), cut anywhere in the last cycles; 50-move cases: clock by FEN and/or by 0..27 played cycles so that the clock after m is "
              "98..110, with m mating (with a reversible move or a capture) in a third of them; plus SHUFFLE-profile random games. The verdict "
              "(third occurrence by FIDE 9.2 identity with the legal e.p. notion / clock >= 100 / mate) comes from refchess. Non-trivial = distinct "
              "case in which something is demanded (cp 0 or mate 1). Console part: command streams (moves in SAN with/without suffix, long "
              "algebraic, coordinate notation; illegal move text; draw rep|50 [move]; draw offer; draw accept; resign; undo/redo bursts; new; "
              "setpos) generated against a model of Game written on refchess, three modes (random, shuffle, double push + shuffle + undo/redo "
              "through the push); Game (two HumanPlayer objects) and the model are compared after every command (accepted, getGameState, "
              "haveDrawOffer, placement/side/castling/clocks). ComputerPlayer part: the same, with half of the commands taken from "
              "ComputerPlayer::getCommand (depth 1..3) as TUIGame::play does; a draw claim it makes must be valid for the model. Non-trivial "
              "sequence = distinct sequence reaching a game-over state, making a claim with a move, an invalid claim, a redo of a double push "
              "with pseudo-only e.p., a command after game over, or a ComputerPlayer claim."),
        floors={"uci: third occurrence": 900 * sc, "uci: third occurrence, odd history length": 300 * sc, "uci: third occurrence, even history length": 300 * sc,
                "uci: third occurrence, first one right after a double push with pseudo-only e.p.": 60 * sc,
                "uci: third occurrence, first one right after a double push without capturer": 15 * sc,
                "uci: third occurrence, same placement with a legal e.p. capture earlier (not counted)": 20 * sc,
                "uci: third occurrence, same placement with other castling rights also in history": 80 * sc,
                "uci: third occurrence, irreversible move earlier in the history": 300 * sc,
                "uci: hmc 99 -> 100": 200 * sc, "uci: hmc reached by play (>= 60 history plies)": 80 * sc,
                "uci: mate on the move that reaches hmc >= 100": 120 * sc, "uci: MultiPV 2 with two root moves": 150 * sc,
                "game: DRAW_REP reached": 800 * sc, "game: DRAW_50 reached": 2000 * sc, "game: DRAW_AGREE reached": 2000 * sc,
                "game: DRAW_NO_MATE reached": 900 * sc, "game: mate reached": 100 * sc, "game: stalemate reached": 100 * sc,
                "game: resignation": 2000 * sc, "game: redo of a double push with pseudo-only e.p.": 800 * sc,
                "game: invalid claim (becomes an offer)": 5000 * sc, "game: command after the game is over": 5000 * sc,
                "cp: ComputerPlayer claimed a draw": 80 * sc, "cp: ComputerPlayer moved": 1500 * sc},
        assumptions=["FIDE 9.2 identity = same placement, side to move, castling rights and *legal* e.p. possibilities (ref::repKey); 9.3 = half-move clock >= 100",
                     "UCI part: only exact (non-bound) score lines whose pv starts with m are judged; nothing is demanded when refchess sees no third occurrence, "
                     "clock < 100 and no mate; every case starts with ucinewgame on a persistent engine process and a failure is reported only if it "
                     "reproduces in a freshly started process (the replay file is that single case)",
                     "console part: the model mirrors Game's documented command semantics (GameTest: an invalid claim becomes a draw offer and plays the move, "
                     "commands after game over are accepted no-ops, undo clears claim/resign state, mate/stalemate/dead material take precedence) and decides "
                     "every chess question itself with refchess; dead material = K v K, K+minor v K, bishops of one colour only",
                     "the e.p. square of Game's position is not compared directly, only through claims (its documented normalisation is fixupEPSquare)",
                     "ComputerPlayer is bounded by depth (friend class ComputerPlayerTest), book off; nothing is demanded about which move it plays"],
    )
