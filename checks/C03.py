from vlib import build, runner

ID = "C03"
LEVEL = "exploration"
NETS = [("material", 1), ("material", 2), ("random-small", 1), ("random-wide", 1)]


def plan(tier, seed):
    quick = tier == "quick"
    cases = 20 if quick else 1200
    nets = ",".join(runner.net_path(f, s) for f, s in NETS)
    shards = []
    for i in range(16):
        variant, md = ("asan", 5 if quick else 6) if i % 8 < 5 else ("opt", 9 if quick else 12)
        shards.append(dict(bin=("asan", "c03"), args=["--cases", cases if variant == "asan" else cases * 2, "--engine", build.binpath(variant, "texel"),
                                                     "--nets", nets, "--max-depth", md] + (["--answer-ms", 40000, "--max-threads", 4] if quick else [])))
    return dict(
        builds=[("asan", "c03"), ("asan", "texel"), ("opt", "texel")],
        nets=NETS,
        shards=shards,
        replay_args=["--engine", build.binpath("asan", "texel"), "--nets", nets],
        timeout=1500 if quick else 8 * 3600,
        rule=("1..6 consecutive searches in one engine process; each = generated option changes (Hash 1..64, Threads 1..8, MultiPV 1..5, "
              "Strength, UCI_LimitStrength/UCI_Elo, MaxNPS, UseNullMove, UCI_AnalyseMode, Contempt, AnalyzeContempt, OwnBook, Clear Hash) x "
              "position (random game with its tail given as 'moves' history / constructed placement / checkmate, stalemate, single-move, "
              "<=4-man, hmc 96..100 roots) x limit (depth 1..12, nodes, movetime, clock, mate n, infinite or ponder released by stop/ponderhit "
              "after a generated pacing event incl. immediately) x random searchmoves subset x 4 synthetic nets. Non-trivial = case (distinct by "
              "its full description) with a non-default option, searchmoves, a special root, a stop inside iteration 1, or >=2 searches."),
        floors={"MultiPV > 1": 30, "searchmoves": 60, "Threads > 1": 20, "Strength < 1000": 15, "stop in iteration 1": 30,
                "second-or-later search in the process": 200, "root without legal moves": 10, "single-legal-move root": 5},
        assumptions=["validity is judged by refchess on the transcript of the real engine binary (10 shards ASan+UBSan depth<=6, 6 shards -O2 depth<=12)",
                     "nothing is demanded about depth numbers, node counts, timing fields, or agreement between a mate score and the length of its TT-extracted pv",
                     "a search that does not answer within 120 s (quick tier: 40 s) is counted inconclusive; quick tier caps Threads at 4 and depth at 5 (ASan) / 9 (-O2)"],
    )
