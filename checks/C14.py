from vlib import build, runner

ID = "C14"
LEVEL = "exploration"
NETS = [("material", 1), ("random-small", 1), ("random-wide", 1), ("material", 2)]

# measured (opt engine, one core, machine shared): 2.0-3.5 s per case = 3 engine processes
# (fresh, fresh, history + Clear Hash + probe); ~160 k probe nodes per case on average.


def plan(tier, seed):
    quick = tier == "quick"
    cases = 10 if quick else 250            # per shard; 25 % "wrap", 15 % "tb", rest general histories
    nets = ",".join(runner.net_path(f, s) for f, s in NETS)
    common = ["--engine", build.binpath("opt", "texel"), "--nets", nets]
    args = common + ["--guard", 150000 if quick else 400000, "--max-threads", 4 if quick else 6]
    if quick:
        # one sub-generator per shard: rapidcheck ramps the size from 0 within each run, so few long runs waste fewer cases on
        # degenerate (empty choice stream) histories than many short ones: 7 x 10 general, 4 x 10 'wrap', 3 x 8 'tb', 2 x 8 'salt' = 150 cases
        shards = [dict(bin=("opt", "c14"), args=args + ["--cases", 10, "--wrap", 0, "--tb", 0, "--salt", 0]) for _ in range(7)]
        shards += [dict(bin=("opt", "c14"), args=args + ["--cases", 10, "--wrap", 10, "--tb", 0, "--salt", 0]) for _ in range(4)]
        shards += [dict(bin=("opt", "c14"), args=args + ["--cases", 8, "--wrap", 0, "--tb", 8, "--salt", 0]) for _ in range(3)]
        # 'salt': small tables whose size is not a power of two, first search under non-zero (analysis) contempt, large probe
        shards += [dict(bin=("opt", "c14"), args=args + ["--cases", 8, "--wrap", 0, "--tb", 0, "--salt", 8]) for _ in range(2)]
    else:
        shards = [dict(bin=("opt", "c14"), args=args + ["--cases", cases]) for _ in range(16)]
    scale = 1 if quick else 25
    return dict(
        builds=[("opt", "c14"), ("opt", "texel")],
        nets=NETS,
        shards=shards,
        replay_args=common,
        timeout=1500 if quick else 8 * 3600,
        rule=("case = history + probe, run in three processes of the real engine (-O2): fresh, fresh, history+Clear Hash. History = N prior searches, "
              "N drawn uniformly from 1..40 (sub-generator 'wrap': from {15,16,31,32} with every search ageing the table and no Hash change; "
              "'tb': 1..12 with a 'go infinite' on a <=4-man pawnless root that installs the on-demand table, Hash >= 8) of all limit kinds "
              "(depth 1..4, nodes <= 2000, movetime <= 30, clock, mate n, infinite+stop, ponder+ponderhit/stop, searchmoves) on the probe position, "
              "its neighbours in the same game, unrelated positions and table roots, interleaved with ucinewgame and option changes (Hash 1..64, "
              "Threads, MultiPV, Contempt, AnalyzeContempt, UseNullMove, Strength, UCI_LimitStrength/UCI_Elo, UCI_AnalyseMode, OwnBook, "
              "AnalysisAgeHash, AutoContempt, MaxNPS, Ponder, MinProbeDepth) that are all put back to their defaults before 'setoption name Clear "
              "Hash'. Probe = 'go depth 6..11' (depth >= 8 carries a node guard) or 'go nodes n' on a random game position / constructed "
              "placement / <=5-man endgame, Threads 1, Hash 16 (30 %: another size, set in both processes). 4 synthetic nets. Non-trivial = "
              "distinct case whose history has >= 5 searches, or installs a table, or resizes the hash table."),
        floors={"prior searches = 15": 3 * scale, "prior searches = 16": 3 * scale, "prior searches = 31": 3 * scale, "prior searches = 32": 3 * scale,
                "generation counter would wrap to 0 at the probe (aging searches since last resize = 15 mod 16)": 10 * scale,
                "on-demand tablebase installed in history": 15 * scale, "Hash resize in history": 12 * scale,
                "related position searched under non-zero contempt (reverted)": 12 * scale,
                "ucinewgame in history": 30 * scale, "Threads > 1 in history": 20 * scale,
                "probe: depth-limited": 20 * scale, "probe: node-limited": 15 * scale, "probe: depth + node guard": 20 * scale},
        assumptions=["compared per probe: every 'info ... score ... pv' line projected to (depth, score, bound, nodes, multipv, pv) in order, plus the bestmove/ponder line; "
                     "time, nps, hashfull, tbhits, currmove, bare 'info depth', 'info nodes' and 'info string' lines are not part of the stated result",
                     "the probe runs with every option at its default except Hash when the case says so (then the fresh process is given the same 'setoption name Hash' first)",
                     "the probe is depth- and/or node-limited, full strength, MaxNPS 0, OwnBook false, one thread: no clock reading can influence its tree",
                     "a search that does not answer within 90 s (probe: 240 s) makes the case inconclusive; an engine that dies is reported",
                     "synthetic networks stand in for the missing trained one; the oracle does not depend on evaluation quality"],
    )
