ID = "C20"
LEVEL = "exploration"


def plan(tier, seed):
    quick = tier == "quick"
    nshards = 16
    cases = 60000 if quick else 1250000      # quick 4e5 systems, thorough 2e7 (DESIGN: 2e5 / 2e7)
    big = 300 if quick else 25000            # systems with 20..192 constraints (ConstrSet capacity)
    total = nshards * (cases + big)
    args = ["--cases", cases, "--big", big, "--budget", 20000]
    if not quick:
        args += ["--hashcap", 400000]        # distinct_nontrivial becomes a lower bound (16 x 4e5 hashes kept)
    return dict(
        builds=[("asan", "c20")],
        shards=[dict(bin=("asan", "c20"), args=args) for _ in range(nshards)],
        timeout=1200 if quick else 3 * 3600,
        # malloc_context_size: with the default (30 frames) ASan's stack depot grows by ~13 kB per rapidcheck case
        # (0.9 GB per shard after 25 000 cases, would be 16 GB per thorough shard); 3 frames keep it flat at 140 MB.
        env={"ASAN_OPTIONS": "abort_on_error=1:detect_leaks=0:allocator_may_return_null=1:malloc_context_size=3:quarantine_size_mb=64"},
        rule=("constraint systems decoded from the choice stream as the sequence of public CspSolver calls "
              "(addVariable/makeEven/makeOdd/addMinVal/addMaxVal/addIneq/addEq/solve, some with a second solve after "
              "further calls): 0-14 variables with ranges inside [-16,47], all four PrefVal orders, 0-25 constraints "
              "(sub-property 'big': 20-192). Shapes: random, ExtProofKernel-like pawn chains, explicit cycles with "
              "offset sum around 0, parity traps, offsets that put max(D2)+c / min(D1)-c on the window edges, planted "
              "solution with spoilers, no variables. Systems whose complete static-order backtracking tree exceeds "
              "20000 value trials have their widest domains halved by extra addMinVal/addMaxVal calls (size bound, no "
              "time limit). Non-trivial = the difference graph has a directed cycle through >= 2 variables, or the "
              "system is unsatisfiable and becomes satisfiable when one constraint is removed; distinct by the hash "
              "of the call sequence."),
        floors={"unsat": int(0.30 * total), "sat": int(0.25 * total),
                "directed cycle in the difference graph": int(0.25 * total),
                "unsat, satisfiable after removing one constraint": int(0.08 * total),
                "negative cycle (unsat whatever the domains)": int(0.08 * total),
                "unsat through domains/parity only": int(0.10 * total),
                "shape: kernel-like": int(0.10 * total),
                "domain touches the window edge -16/47": int(0.15 * total),
                "MIDDLE_* preference": int(0.30 * total),
                "parity restriction": int(0.30 * total),
                "re-solve after further calls": int(0.05 * total),
                "> 25 constraints": int(0.5 * nshards * big),
                "> 100 constraints": int(0.2 * nshards * big),
                "oracle: brute force cross-check (product <= 4096)": int(0.4 * total),
                "oracle: brute force cross-check (product 4097..1e6)": int(0.002 * total)},
        assumptions=["oracle: complete plain backtracking over explicit domain lists, cross-checked on every system by a "
                     "support-based arc-consistency decider (exact because x<=y+c is max-closed; witness re-checked) and by "
                     "brute-force enumeration when the product of domain sizes is <= 4096 (<= 1e6 for 1 system in 24); "
                     "a disagreement among the three aborts the shard without a verdict",
                     "domain: documented preconditions only - values, addMinVal/addMaxVal arguments inside [-16,47], "
                     "at most 192 constraints (addEq counts twice), variable ids that exist",
                     "every generated system has a complete backtracking tree of <= 20000 value trials, so a hang "
                     "(10 s CPU inside one solve()) is recorded as inconclusive with the case saved, never as a violation",
                     "ASan+UBSan build, assert() enabled"],
    )


def post(tier, seed, parts, results, workdir):
    hangs = sum(p.get("counters", {}).get("hang: solve() did not return within 10 s CPU (case saved)", 0) for p in parts)
    out = {"solver_hangs": hangs}
    if hangs:
        out["errors"] = ["%d shard(s) stopped because solve() did not return within 10 s CPU on a system whose complete "
                         "search tree has <= 20000 value trials (inconclusive; case saved under replays/found/C20-*-hang-*.json)" % hangs]
    return out
