import json
import os

ID = "C19"
LEVEL = "exploration"

KNOWN_KEY = "stale-path-error"


def _tolerated():
    """The stale-path-error state (notes/C19.md, replays/regress/C19-stale-path-error.json) is skipped over - and
    counted - only when known_findings.json lists it as a `known:` entry; then the run goes on looking for anything
    else and the runner prints KNOWN-FINDING.  VERIF_C19_TOLERATE=1 does the same silently (development / mutant
    runs on a tree that still has the defect)."""
    if os.environ.get("VERIF_C19_TOLERATE"):
        return ["--tolerate", KNOWN_KEY, "--silent-known", 1]
    try:
        kf = json.load(open(os.path.join(os.path.dirname(os.path.dirname(os.path.abspath(__file__))), "known_findings.json")))
        for k in kf.get("known", []):
            if k.get("property") == ID and k.get("key") == KNOWN_KEY:
                return ["--tolerate", KNOWN_KEY]
    except Exception:
        pass
    return []


def plan(tier, seed):
    quick = tier == "quick"
    nshards = 16
    cases = 500 if quick else 6000           # quick 4000 sequences (DESIGN: 2000); thorough 9.6e4 (DESIGN 2e5 would take ~45 min: 0.11 s/sequence)
    big = 3 if quick else 40                 # import-dominated books: quick <= ~400 nodes, thorough <= ~3000
    total = nshards * cases
    args = ["--cases", cases, "--big", big, "--ops", 60, "--import", 30,
            "--bignodes", 300 if quick else 2400, "--bigscale", 40 if quick else 150] + _tolerated()
    return dict(
        builds=[("asan", "c19")],
        shards=[dict(bin=("asan", "c19"), args=args) for _ in range(nshards)],
        replay_args=_tolerated()[:2],
        timeout=1800 if quick else 4 * 3600,
        env={"ASAN_OPTIONS": "abort_on_error=1:detect_leaks=0:allocator_may_return_null=1:malloc_context_size=3:quarantine_size_mb=64"},
        rule=("operation sequences on BookBuild::Book that follow Book::extendBook's protocol: addPosToBook under an "
              "existing node (transposition hunt, the parent's own best non-book move, completion of nodes with few "
              "legal moves, seed lines to mate/stalemate and to tempo-losing transpositions, moves restricted to a few "
              "files so lines commute), every hash of toSearch queued with getPosition + getMovesToSearch + addPending, "
              "<= 8 work units outstanding, commits in order with removePending + setSearchResult(move from the unit's "
              "moves-to-search, ordinary/0/mate score; IGNORE_SCORE or the mate/stalemate value when nothing is left) + "
              "writeBackup, abort (results dropped), re-search of an existing node, Book::addToBook of PGN text with "
              "variations, writeToFile/readFromFile into the same or a fresh Book, reload of the incremental backup file. "
              "After every step all nodes are compared with a from-scratch evaluation. Non-trivial = a node with >= 2 "
              "parents changed its (valid) negamax score during the sequence, or a reload happened with >= 50 nodes; "
              "distinct by the hash of the operation list."),
        floors={"score update propagated through a node with >= 2 parents": int(0.25 * total),
                "new node linked to >= 2 parents (transposition)": total,
                "added move is the parent's best non-book move (stale result covered by a child)": int(0.5 * total),
                "result for a move that got a book node while the search ran": int(0.5 * total),
                "parent deeper than its child (tempo-losing transposition)": int(0.05 * total),
                "depth of an existing node decreased (new shorter path)": int(0.03 * total),
                "result: mate score": total,
                "result: checkmated node": int(0.03 * total),
                "result: nothing left to search (IGNORE_SCORE)": int(0.004 * total),
                "abort with work outstanding": int(0.1 * total),
                "PGN import": int(0.5 * total),
                "reload with >= 50 nodes": int(0.1 * total),
                "reload from the incremental backup file": int(0.05 * total),
                "save + load into a fresh book": int(0.2 * total),
                "nodes: 50-299": int(0.08 * total)},
        assumptions=["oracle: independent model (refchess positions; links = legal-move relation between book positions; "
                     "node identity = placement, side, castling, recorded e.p. square, min(half-move clock,100)) evaluated "
                     "from scratch after every step: BFS depth, negamax/expansion cost children-first in topological order, "
                     "path errors parents-first; equations from the class comment in bookbuild.hpp plus three rules that only "
                     "the code/its unit test state (own cost -10000 when the best move has a book node, moveError 1000 under "
                     "an unscored pending node, 'being searched' takes precedence over 'unscored')",
                     "only results a search could return are injected (move from the unit's moves-to-search computed at queue "
                     "time, |score| <= 9000 or within 80 plies of mate, forced values for empty move lists)",
                     "books stay acyclic because the half-move clock never reaches 100 in the generated lines",
                     "no search threads: results enter through removePending/setSearchResult/writeBackup exactly as in the commit loop",
                     "ASan+UBSan build, assert() enabled"],
    )
