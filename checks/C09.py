from vlib import build, runner

ID = "C09"
LEVEL = "exploration"


def plan(tier, seed):
    quick = tier == "quick"
    net = runner.net_path("material", 1)
    shards = []
    nsess = 12 if quick else 14
    for i in range(nsess):
        shards.append(dict(bin=("tsan", "c09"), args=["--mode", "sessions", "--cases", 12 if quick else 350,
                                                     "--engine", build.binpath("tsan", "texel"), "--net", net]))
    for i in range(16 - nsess):
        shards.append(dict(bin=("tsan", "c09"), args=["--mode", "filter", "--cases", 4 if quick else 250, "--max-fens", 16 if quick else 60,
                                                     "--max-plies", 10 if quick else 24]))  # quick: short games, whose proof games are found at once (a hard position costs tens of minutes under TSan)
    return dict(
        builds=[("tsan", "c09"), ("tsan", "texel")],
        nets=[("material", 1)],
        env={"TEXEL_VERIF_NET": net},
        shards=shards,
        replay_args=["--engine", build.binpath("tsan", "texel"), "--net", net],
        timeout=2400 if quick else 10 * 3600,
        rule=("UCI sessions as in C05 restricted to Threads 2..8 and short searches (depth <= 5), with commands during a search "
              "over-weighted (setoption / isready / ucinewgame / Clear Hash / Hash resize / ponderhit / stop / quit / EOF while "
              "helper threads run), every sixth session a tablebase hand-over (a 3-man root searched without limit so that the on-demand table "
              "is generated, then 1..3 searches from roots with one more, capturable man, Threads 2..4), every sixth a ponder/ponderhit session on roots with one legal move, every sixth a worker-tree churn "
              "(Threads 6..8, 12 or 16; 4..10 short searches with Threads / Strength / UCI_LimitStrength changes in between, so that the two-level "
              "helper tree is torn down and rebuilt), "
              "executed on the ThreadSanitizer build of the engine; plus in-process ProofGameFilter.filterFens "
              "with 2..16 workers over 4..N FENs from random games (this harness is itself TSan-instrumented). Non-trivial = session "
              "(distinct by script) in which a protocol command was sent while >= 2 engine threads were searching, or a filter run "
              "with >= 2 workers and >= 4 FENs."),
        floors={"protocol command while >=2 engine threads were searching": 40, "proof-game filter run": 8,
                "tablebase hand-over session (resident on-demand table probed from a larger root)": 6 if quick else 300,
                "worker-tree churn session (Threads >= 6, thread count changes between searches)": 6 if quick else 300,
                "ponder / ponderhit session on forced-move roots": 5 if quick else 250},
        assumptions=["oracle = ThreadSanitizer happens-before analysis (halt_on_error, exit code 66) on the interleavings the OS produced in this run",
                     "no suppressions file is used",
                     "libstdc++ internals (iostream state) are not instrumented",
                     "the C05 transcript monitor runs on every session so that it is known to have done what it claims"],
    )
