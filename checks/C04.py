from vlib import build, runner

ID = "C04"
LEVEL = "exploration"
NETS = [("material", 1), ("material", 2), ("random-small", 1), ("random-wide", 1)]

import os
DTM_CACHE = os.path.join(build.BUILD, "refdtm")
P = "QRBN"
THREE = ["K%sk" % a for a in P] + ["Kk%s" % a.lower() for a in P]
FOUR = []
for i in range(4):
    for j in range(i, 4):
        FOUR += ["K%s%sk" % (P[i], P[j]), "Kk%s%s" % (P[i].lower(), P[j].lower())]
for a in P:
    for b in P:
        FOUR.append("K%sk%s" % (a, b.lower()))
assert len(THREE) == 8 and len(FOUR) == 36


def classes_for(shard, seed, per):
    """the 3-man classes plus `per` four-man classes; 16 shards x 3 cover all 36 (rotated by the seed)"""
    k = [FOUR[(shard * per + j + seed * 7) % 36] for j in range(per)]
    return THREE + k


def plan(tier, seed):
    quick = tier == "quick"
    nets = ",".join(runner.net_path(f, s) for f, s in NETS)
    shards = []
    for i in range(16):
        asan = i in (7, 15)
        eng = build.binpath("asan" if asan else "opt", "texel")
        if quick:
            caps = ["--cap-3", 10, "--cap-light", 6, "--cap-mid", 5, "--cap-heavy", 4] if asan else ["--cap-3", 14, "--cap-light", 9, "--cap-mid", 8, "--cap-heavy", 6]
            args = ["--cases", 30 if asan else 110, "--solve-limit", 3, "--budget", 300000, "--answer-ms", 60000]
            cls = classes_for(i, seed, 1 if asan else 3)
        else:
            caps = ["--cap-3", 12, "--cap-light", 8, "--cap-mid", 7, "--cap-heavy", 5] if asan else ["--cap-3", 14, "--cap-light", 12, "--cap-mid", 10, "--cap-heavy", 9]
            args = ["--cases", 450 if asan else 2000, "--solve-limit", 4, "--budget", 3000000, "--answer-ms", 300000]
            cls = THREE + FOUR[(i * 9) % 36:(i * 9) % 36 + 9] if not asan else classes_for(i, seed, 4)
        shards.append(dict(bin=("opt", "c04"), args=args + caps + ["--engine", eng, "--nets", nets, "--classes", ",".join(cls), "--dtm-cache", DTM_CACHE]))
    return dict(
        builds=[("opt", "c04"), ("opt", "texel"), ("asan", "texel")],
        nets=NETS,
        shards=shards,
        replay_args=["--engine", build.binpath("opt", "texel"), "--nets", nets, "--classes", "all", "--solve-limit", "4", "--budget", "3000000", "--dtm-cache", DTM_CACHE],
        timeout=1500 if quick else 8 * 3600,
        rule=("one engine process per case: Hash {1,16} x Threads 1..4 x UseNullMove on/off x 4 synthetic nets, full strength; 1..6 groups of related "
              "positions searched one after the other without clearing the hash (a position alone / its child first / its child afterwards / two "
              "children / its grandchild first), each with 'go depth d' (d 1..14 for <=3 men, capped lower for more men, see assumptions). Roots: "
              "(a) <=4-man pawnless placements of the shard's material classes, uniformly random or stratified over every distance-to-mate value of "
              "the class (refdtm oracle), (b)+(c) 13 mate-pattern templates that construct mates (back rank, smothered in 1/2/3, queen and knight "
              "promotion, en passant, discovered, double check, O-O, O-O-O, ladder, K+Q), constructed placements and ends of random games (exhaustive "
              "solver oracle, <=3 attacker moves quick / 4 thorough); hmc 0..20. Non-trivial = search (distinct by FEN, depth and configuration) in "
              "which the engine printed at least one mate score that the oracle could decide, or whose root has a mate in one."),
        floors=({"decisive search": 600, "decisive: dtm domain": 150, "decisive: template domain": 150, "decisive: game/placement domain": 30,
                 "decisive: after a related search in the same process": 200, "decisive: Threads > 1": 100, "decisive: Hash 1": 100,
                 "decisive: UseNullMove off": 80, "final 'mate -N' verified": 40, "bestmove keeps the announced mate (verified)": 300,
                 "root with mate in 1: promotion": 8, "root with mate in 1: underpromotion": 8, "root with mate in 1: en passant": 8,
                 "root with mate in 1: discovered": 8, "root with mate in 1: double check": 8, "root with mate in 1: castling": 10,
                 "verified announcement N=2 (solver)": 40, "verified announcement N=3 (solver)": 15} if quick else
                {"decisive search": 20000, "decisive: dtm domain": 5000, "decisive: template domain": 5000, "decisive: game/placement domain": 1000,
                 "final 'mate -N' verified": 1000, "root with mate in 1: en passant": 200, "root with mate in 1: castling": 300,
                 "root with mate in 1: underpromotion": 200, "verified announcement N=3 (solver)": 500, "verified announcement N=4 (solver)": 50}),
        assumptions=["oracles: refdtm (own retrograde generator; every table validated in-process by the minimax recurrence over refchess successors on "
                     "10^4 random placements + literature maxima) for <=4-man pawnless roots; exhaustive AND/OR solver on refchess otherwise",
                     "announcements longer than the solver limit outside tablebase material are counted inconclusive unless a mate within the limit exists",
                     "the 50-move rule and repetition are outside this check (hmc <= 20, no game history); a mate score is judged against forced mate under the move rules",
                     "depth caps (search cost explodes in few-men endings without tablebases): quick 14/9/8/6 for <=3/<=5/<=12/more men (ASan engine 10/6/5/4), "
                     "thorough 14/12/10/9; 14 of 16 shards drive the -O2 engine, 2 the ASan+UBSan engine",
                     "a search that does not answer within 60 s (thorough 300 s) is inconclusive"],
    )
