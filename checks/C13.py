import os
from vlib import build, runner
from checks import C04 as _c04

ID = "C13"
LEVEL = "exploration"
NETS = [("material", 1), ("random-small", 1), ("random-wide", 1)]
DTM_CACHE = os.path.join(build.BUILD, "refdtm")


def plan(tier, seed):
    quick = tier == "quick"
    nets = ",".join(runner.net_path(f, s) for f, s in NETS)
    shards = []
    for i in range(16):
        asan = i == 15
        eng = build.binpath("asan" if asan else "opt", "texel")
        if quick:
            cls = _c04.THREE + ([] if asan else [_c04.FOUR[(i * 3 + j + seed * 11) % 36] for j in range(3)])
            args = ["--cases", 8 if asan else 20, "--max-roots", 10, "--wait-ms", 90000, "--answer-ms", 60000]
        else:
            cls = _c04.THREE + (_c04.FOUR[(i * 5) % 36:(i * 5) % 36 + 3] if asan else _c04.FOUR[(i * 7) % 36:] + _c04.FOUR[:(i * 7) % 36])[:12 if not asan else 3]
            args = ["--cases", 40 if asan else 270, "--max-roots", 12, "--wait-ms", 300000, "--answer-ms", 120000]
        shards.append(dict(bin=("opt", "c13"), args=args + ["--engine", eng, "--nets", nets, "--classes", ",".join(cls), "--dtm-cache", DTM_CACHE]))
    return dict(
        builds=[("opt", "c13"), ("opt", "texel"), ("asan", "texel")],
        nets=NETS,
        shards=shards,
        replay_args=["--engine", build.binpath("opt", "texel"), "--nets", nets, "--classes", "all", "--dtm-cache", DTM_CACHE],
        timeout=1500 if quick else 8 * 3600,
        rule=("one engine process per case: Hash {8,16,64} x Threads 1..4 x 3 synthetic nets; 3..10 consecutive roots, each a pawnless <=4-man placement of "
              "the current material class (uniformly random, or stratified over every distance-to-mate value of the class incl. draws, then one of the 8 "
              "board symmetries) with half-move clock 0..99 (30% 0..30, 40% within 4 plies of the 50-move boundary 100-plies_to_mate, 30% uniform); the "
              "class changes with probability 1/4 per root (regeneration; both colour assignments are separate classes) and sometimes 5-6 non-tablebase "
              "roots are searched in between (the engine drops its table). Each root: 'go infinite', wait for 'info depth 3' (iteration 2 complete) or an "
              "exact 'mate 1' at depth 2, 'stop'. Non-trivial = root (distinct by FEN, configuration and table history) with DTM >= 3 moves or hmc >= 60."),
        floors=({"tablebase roots searched": 1000, "non-trivial root (DTM >= 3 or hmc >= 60)": 700, "root won, mate inside the 50-move limit": 150,
                 "root lost, mate inside the 50-move limit": 200, "root drawn": 100, "root beyond the 50-move limit, class without zeroing moves": 25,
                 "reuse of the resident table": 500, "class switch": 100, "first table of the process": 200, "Threads > 1": 300,
                 "Hash 8": 150, "Hash 16": 150, "Hash 64": 150, "hash cleared between two tablebase roots": 60} if quick else
                {"tablebase roots searched": 12000, "non-trivial root (DTM >= 3 or hmc >= 60)": 8000, "root drawn": 1000,
                 "root beyond the 50-move limit, class without zeroing moves": 500, "class switch": 1500, "regeneration after the table was dropped": 50}),
        assumptions=["oracle: refdtm tables (own retrograde generator, validated in-process by the minimax recurrence over refchess successors and literature maxima); "
                     "no dependence on texel's generator or on C12",
                     "reading of the 50-move rule: a root won/lost in P plies with hmc + P <= 100 must show exactly 'mate +-N' as its last exact score; with "
                     "hmc + P > 100 a mate score is a violation only in classes where every capture leaves a drawn class (KQK KRK KBBK KBNK KNNK and colour "
                     "flips) - in KQQK, KQRK, ... a forced capture by the lone king resets the clock and the mate can still be real, so there only the truth "
                     "of winning announcements (ignoring the clock) is checked",
                     "drawn root: the last exact score is not a mate score and bestmove does not reach a position the opponent wins with hmc' + plies <= 100; "
                     "the defender's move choice in lost roots is reported, not asserted",
                     "the engine is given up to 90 s (thorough 300 s) to finish iteration 2 (table generation ~2 s); later = inconclusive",
                     "15 shards drive the -O2 engine, 1 the ASan+UBSan engine (3-man classes only in the quick tier)"],
    )
