ID = "C02"
LEVEL = "exploration"


def plan(tier, seed):
    quick = tier == "quick"
    nshards = 16
    cases = 6000 if quick else 120000
    return dict(
        builds=[("asan", "c02")],
        shards=[dict(bin=("asan", "c02"), args=["--cases", cases]) for _ in range(nshards)],
        timeout=900 if quick else 6 * 3600,
        rule=("command sequences (<=300 commands, decoded from a rapidcheck choice stream) over a texel Position and a "
              "refchess model with an undo stack: make a legal move (six move-choice profiles), unmake, forced take-back "
              "segment, unmake-all, the search's null-move edit and its inverse, copy-construct / assign / move-assign / "
              "move-construct, serialize+deSerialize, FEN round trip. Starts: C01's seeded FENs, the initial position, "
              "constructed placements; one fifth of the cases are heavy-promotion games from the pawn-race start. Every "
              "oracle runs after every command, and again at every depth while everything is taken back. Non-trivial = "
              "sequence (distinct by start FEN + command list) containing an e.p. capture, castling, a capture-promotion, a "
              "capture of a rook on its home square that loses a right, a take-back across one of those, >=6 queens of one "
              "colour, or a transposition (a position reached by a move from a different predecessor than when first seen)."),
        floors={"e.p. capture": 500, "castling": 1500, "capture-promotion": 1000,
                "rook captured on home square (right lost)": 800, "take-back across special move": 3000,
                ">=6 queens of one colour": 1500, ">=6 black queens": 1000, "transposition hit": 4000,
                "null-move edit": 10000, "start with half-move clock >= 100": 1500} if quick else
               {"e.p. capture": 3000, "castling": 6000, "capture-promotion": 6000,
                "rook captured on home square (right lost)": 3000, "take-back across special move": 20000,
                ">=6 queens of one colour": 6000, ">=6 black queens": 2000, "transposition hit": 20000,
                "null-move edit": 60000},
        assumptions=["refchess (independent mailbox rules, validated by published perft counts at the start of the run) is the model",
                     "'equal under the rules => equal hash' is read over positions normalised by TextIO::fixupEPSquare (DESIGN.md C02 Reading)",
                     "serialize/deSerialize is checked for half-move clock <= 255 and move counter <= 65535 (field widths of the format)",
                     "the EMPTY entry of pieceTypeBB is not an observable (never initialised nor maintained by texel) and is not compared",
                     "ComputerPlayer::initEngine() is called first, as texel's main() does, so that ::pieceValue[] holds pV..qV",
                     "ASan+UBSan build, assert() enabled"],
    )
