from vlib import runner

ID = "C10"
LEVEL = "exploration"


def plan(tier, seed):
    quick = tier == "quick"
    net = runner.net_path("material", 1)
    shards = [dict(bin=("opt", "c10"), args=["--cases", 50 if quick else 2500, "--dfs-scripts", 1 if quick else 40,
                                             "--dfs-points", 24 if quick else 0, "--tree-cases", 8 if quick else 300])
              for _ in range(16)]
    return dict(
        builds=[("opt", "c10")],
        nets=[("material", 1)],
        env={"TEXEL_VERIF_NET": net},
        shards=shards,
        timeout=1800 if quick else 8 * 3600,
        rule=("command scripts {go depth/nodes/movetime/infinite/ponder, stop, ponderhit, back-to-back go, setoption Threads/Hash/Clear Hash "
              "and isready and ucinewgame during a search, quit / EOF during a search} with release conditions on the run's own history "
              "(now / after k scheduling steps / after n bestmoves / after N main-thread nodes / after k info lines) x Threads 1..8 x schedules: "
              "fair round-robin baseline, uniform random, PCT priorities with 1..4 change points (sub-property 'schedules'); and bounded "
              "systematic exploration (sub-property 'preempt-1'): baseline run, then one deviation from the baseline at each (quick: sampled; "
              "thorough: every) decision point; and sub-property 'helper-tree': Threads 6..10 (a helper thread has helper children), 2..6 short "
              "searches per script on roots where helpers search or idle (mate, stalemate, bare kings), stops within 0..60 steps of the go, "
              "random / PCT schedules with every 1st..3rd mutex acquisition and every notification a scheduling point. Scheduling points: Communicator::poll, before every queued inter-thread command, cv waits, "
              "sleeps, thread start/exit/join, reading a command. Non-trivial = run (distinct by script+schedule) with helper threads and "
              ">= 1 choice that differs from the fair baseline."),
        floors={"helper threads + >=1 pre-emption": 100, "has ponderhit": 25, "ends with EOF": 15,
                "two-level helper tree (Threads >= 6), pre-emptive schedule, mutex scheduling points": 60},
        assumptions=["in-process engine via the public UCIProtocol::main with std::cin/std::cout redirected, one forked child per run",
                     "mutex-protected sections contain no scheduling point and are therefore atomic (lock discipline is judged by C09 under TSan)",
                     "bounded exploration: sampled schedules + at most one deviation from the baseline per systematic run; MPI cluster code is compiled out",
                     "a run whose step budget is exhausted or whose child does not finish in real time is inconclusive"],
    )
