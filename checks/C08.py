ID = "C08"
LEVEL = "exploration"


def plan(tier, seed):
    quick = tier == "quick"
    A, T = ("asan", "c08"), ("tsan", "c08")
    shards = []
    if quick:
        # (ii) hammer first: the multi-threaded shards start together, ~10 s each
        for _ in range(2):
            shards.append(dict(bin=A, args=["--mode", "hammer", "--cases", 10, "--ops", 1000000, "--max-threads", 8], cpus=4))
        for _ in range(2):
            shards.append(dict(bin=T, args=["--mode", "hammer", "--cases", 8, "--ops", 300000, "--max-threads", 8], cpus=4))
        for _ in range(4):     # (i) + (iv)
            shards.append(dict(bin=A, args=["--mode", "model", "--cases", 12000, "--mate-cases", 30000]))
        for i in range(4):     # (iii) through the accessor
            shards.append(dict(bin=A, args=["--mode", "index", "--slice", i, "--slices", 4, "--random-sizes", 2000]))
        for i in range(2):     # (iii) really allocated
            shards.append(dict(bin=A, args=["--mode", "alloc", "--slice", i, "--slices", 2]))
        for i in range(2):     # (v)
            shards.append(dict(bin=A, args=["--mode", "tb", "--slice", i, "--inserts", 4000000]))
        floors = {"model: insert into a full/contended bucket (another key may be evicted)": 20000,
                  "model: hit on a key after other keys were inserted into its bucket": 20000,
                  "model: empty move merged with the stored move": 10000,
                  "model: mate score read at another ply": 15000,
                  "model: setBusy on a hit": 8000,
                  "model: setBusy on a hit under non-zero contempt": 500,
                  "model: key in the last bucket of the table": 2000,
                  "mate: win score": 30000, "mate: loss score": 20000,
                  "hammer: hits on a record of another thread in a bucket written by >= 2 threads": 500000,
                  "index: sizes with all 2^16 top-bit patterns x 7 low-bit patterns": 800,
                  "index: sizes that are not a power of two": 400000,
                  "alloc: table not a power of two": 10,
                  "tb: 3-man table resident": 2, "tb: inserts with a resident tablebase": 8000000}
    else:
        for _ in range(3):     # 5 min hammer each
            shards.append(dict(bin=A, args=["--mode", "hammer", "--cases", 60, "--ops", 5000000, "--max-threads", 16], cpus=8))
        for _ in range(3):
            shards.append(dict(bin=T, args=["--mode", "hammer", "--cases", 60, "--ops", 1200000, "--max-threads", 16], cpus=8))
        for _ in range(6):
            shards.append(dict(bin=A, args=["--mode", "model", "--cases", 500000, "--mate-cases", 2000000]))
        for i in range(16):
            shards.append(dict(bin=A, args=["--mode", "index", "--slice", i, "--slices", 16, "--random-sizes", 8000, "--full-multiples", 6000]))
        for i in range(4):
            shards.append(dict(bin=A, args=["--mode", "alloc", "--slice", i, "--slices", 4]))
        for i in range(6):
            shards.append(dict(bin=A, args=["--mode", "tb", "--slice", i, "--inserts", 30000000]))
        for i in range(2):
            shards.append(dict(bin=A, args=["--mode", "tb", "--slice", 6 + i, "--inserts", 30000000, "--four", 1]))
        floors = {"model: insert into a full/contended bucket (another key may be evicted)": 1000000,
                  "model: hit on a key after other keys were inserted into its bucket": 1000000,
                  "hammer: hits on a record of another thread in a bucket written by >= 2 threads": 100000000,
                  "index: sizes with all 2^16 top-bit patterns x 7 low-bit patterns": 90000,
                  "alloc: table not a power of two": 14,
                  "tb: 3-man table resident": 6, "tb: 4-man table resident (region fully used)": 2}
    return dict(
        builds=[A, T],
        shards=shards,
        timeout=1200 if quick else 4 * 3600,
        rule=("(i) model: histories of <= 250 commands (insert / probe / clear / nextGeneration / setBusy; a quarter of the histories "
              "also setWhiteContempt over a pool of 2..3 contempt values, a record stored under one contempt being a different "
              "logical key under another) on tables of 512..8192 "
              "entries over a pool of 5..24 keys that share the top 16 and low 16 bits of <= 3 representatives (so they fall into "
              "the same buckets; first/last bucket and key 0 included); the model keeps, per key, the set of records the table may "
              "legitimately hold. Non-trivial = history (distinct by content) with an insert into a contended bucket, an "
              "empty-move merge, a mate score read at another ply, or setBusy on a hit. (ii) hammer: 2..16 threads x 3*10^5..5*10^6 "
              "operations each on <= 8 buckets x 5..8 keys, non-empty moves, payload(key, nonce) keyed hash with the nonce in the "
              "evalScore field; non-trivial = successful probe of a record written by another thread in a bucket that >= 2 threads "
              "have written (distinct by key+nonce, capped); the same hammer runs on the ThreadSanitizer build. (iii) index: "
              "setUsedSize(s)/getIndex(key) through the friend accessor, never dereferenced: every multiple of 65536 up to 2^35 with "
              "extreme keys, ~1000 special sizes (powers of two +-4..16, power of two minus the 5 MiB TB reserve, all multiples of 4 "
              "in 512..1536, odd multiples) and random sizes with all 2^16 top-bit patterns x 7 low-bit patterns {0,3,4,mask,mask+1,"
              "mask-1,all ones}; really allocated tables of 512 entries..64 MiB (thorough: 1 GiB) with insert/probe round trips; "
              "non-trivial = size that is not a power of two. (iv) mate scores: setScore(s, ply1)/getScore(ply2) directly and through "
              "insert/probe, |s| <= MATE0 - ply1, plies 0..200; non-trivial = mate score with ply1 != ply2. (v) 16 MiB table, "
              "updateTB on a 3-man (thorough also 4-man) root, snapshot of the 5 MiB reserved region and of every probeDTM answer, "
              "4*10^6..3*10^7 inserts incl. all top-bit patterns, setBusy, nextGeneration: region and answers unchanged; clear() drops the table."),
        floors=floors,
        assumptions=["domain of table sizes: multiples of 4 that are >= 512 (the smallest size any in-tree caller probes is 1024; below 512 getIndex+3 can pass the end: see notes/C08.md)",
                     "model (i) is agnostic about the replacement policy: after an insert of an absent key any other key of an overlapping bucket may be gone; after an insert of a present key the record is either the merged new one or (busy=false) the old one",
                     "generation and busy bits are bookkeeping: busy is modelled in (i), excluded from the payload in (ii)",
                     "hammer interleavings are those the OS produced on x86-TSO in this run; ThreadSanitizer (halt_on_error) is an additional oracle in the tsan shards",
                     "ASan+UBSan build with assert() enabled for everything except the tsan hammer shards",
                     "the table allocator leaves up to 64 bytes of slack after the table, so the explicit index bound (friend accessor) is the oracle for small overruns, ASan for large ones"],
    )


def post(tier, seed, parts, results, workdir):
    full = sum(p.get("counters", {}).get("index: sizes with all 2^16 top-bit patterns x 7 low-bit patterns", 0) for p in parts)
    ext = sum(p.get("counters", {}).get("index: sizes with extreme key patterns", 0) for p in parts)
    return dict(index_subdomain=dict(sizes_with_every_key_pattern=full, sizes_with_extreme_key_patterns=ext,
                                     key_patterns="2^16 top-bit patterns x 7 low-bit patterns",
                                     note="enumerated completely for the listed number of sizes; the other sub-properties are sampled, so 'exhaustive' stays false for the property"))
