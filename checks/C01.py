ID = "C01"
LEVEL = "exploration"


def plan(tier, seed):
    quick = tier == "quick"
    nshards = 16
    cases = 3000 if quick else 60000
    return dict(
        builds=[("asan", "c01")],
        shards=[dict(bin=("asan", "c01"), args=["--cases", cases]) for _ in range(nshards)],
        timeout=900 if quick else 6 * 3600,
        rule=("positions from random legal games (seeded starts, <=300 plies, six move-choice profiles) and from "
              "constructed placements (10 templates: pins, double checks, e.p. pins, castling paths, 7th-rank pawns, "
              "many like pieces, batteries, endgames); each also one ply below. Non-trivial = position (distinct by "
              "FEN) with a pinned man, check, double check, legal e.p., e.p. made illegal by pin/check, castling "
              "right with blocked/attacked path, available promotion, or >=2 like pieces reaching one square."),
        floors={"pinned man": 200, "double check": 20, "legal e.p.": 30, "e.p. illegal by pin/check": 15, "e.p. capture gives check": 10,
                "castling right but path blocked/attacked": 200, "promotion available": 100,
                ">=2 like pieces to one square": 200, "in check": 200},
        assumptions=["refchess (independent mailbox rules, validated by published perft counts at the start of the run) is the oracle",
                     "domain: positions texel's FEN reader accepts with <=16 men per side and promotion-consistent counts",
                     "ASan+UBSan build, assert() enabled"],
    )
