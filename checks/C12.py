import json
import os

ID = "C12"
LEVEL = "exploration"

N_TABLES = 44          # 8 three-man + 36 four-man pawnless tables (both colour assignments)
FAULT_SLICES = 8       # thorough: slices per 4-man class of the fault sweep
FAULT_CLASSES4 = 2


def plan(tier, seed):
    quick = tier == "quick"
    if quick:
        shards = [dict(bin=("opt", "c12"), args=["--mode", "quick", "--nshards", 16, "--cases", 700000,
                                                 "--inserts", 200000, "--fsamples", 150000, "--fpoints4", 6])
                  for _ in range(16)]
        for i in (16, 17):   # ASan+UBSan sample: one shard per 3-man class of this run
            shards.append(dict(bin=("asan", "c12"), shard=i, args=["--mode", "asan", "--nshards", 2, "--points", 4, "--inserts", 50000]))
        floors = {"3-man tables enumerated completely (both storages)": 2,
                  "win, mate in >= 2 moves": 200000, "loss, mated in >= 2 moves": 200000, "draw (not stalemate)": 200000,
                  "checkmate": 200, "stalemate": 100,
                  "illegal placements probed (must be not found)": 100000,
                  "out of scope: extra pawn": 500, "out of scope: other material": 500, "out of scope: 5 men": 500,
                  "out of scope: castling right": 50,
                  "fault: abort in phase 1": 6, "fault: abort in phase 2": 6,
                  "fault: abort before a retrograde iteration": 10, "fault: completed": 2,
                  "fault: probes after an abort": 5000000}
    else:
        nitems = N_TABLES + FAULT_CLASSES4 * FAULT_SLICES
        shards = [dict(bin=("opt", "c12"), shard=i, args=["--mode", "item", "--slices", FAULT_SLICES, "--points", 8,
                                                          "--inserts", 1000000, "--fsamples", 400000])
                  for i in range(nitems)]
        # heavy items (4-man tables) first so that the tail of the schedule is short
        shards.sort(key=lambda s: 0 if 8 <= s["shard"] < N_TABLES else 1)
        shards.append(dict(bin=("asan", "c12"), shard=0, args=["--mode", "asan", "--nshards", 2, "--points", 1000, "--inserts", 200000]))
        floors = {"3-man tables enumerated completely (both storages)": 8,
                  "4-man tables enumerated completely (both storages)": 36,
                  "fault: abort in phase 1": 100, "fault: abort in phase 2": 100,
                  "fault: abort before a retrograde iteration": 100, "fault: completed": 8}
    return dict(
        builds=[("opt", "c12"), ("asan", "c12")],
        shards=shards,
        timeout=1500 if quick else 4 * 3600,
        rule=("Tables: every pawnless material with <= 4 men, both colour assignments (8 three-man, 36 four-man), both storages "
              "(TBGenerator<VectorStorage>; TBGenerator<TTStorage> inside a 16 MiB TranspositionTable through updateTB/probeDTM). "
              "A case is one placement of the men (any material subset that captures can reach) x side to move: a legal one "
              "(refchess) must be found and its value must satisfy the minimax recurrence over the probed values of all refchess "
              "successors; an illegal one (side not to move in check) and out-of-scope positions (pawns, castling rights, other "
              "material, 5 men) must be 'not found'; probeDTM at ply p equals ply 0 shifted by p. quick: two seeded 3-man classes "
              "enumerated completely (one of KQvK/KRvK/KvKQ/KvKR and one other), 16 seeded 4-man tables with 7*10^5 random "
              "placements each; thorough: all 44 tables, every placement on 64^n squares x side to move. Fault sweep: generation "
              "inside updateTB aborted at every clock call (clock hook = call counter) by stop (maxTimeMillis:=0; phase-1/2 time "
              "checks, before every retrograde iteration) and by the time limit (phase-1/2 time checks), after three kinds of "
              "prior table state, followed by 2*10^5..10^6 ordinary inserts (half of them aimed at the last 5 MiB), then every "
              "placement of the class (4-man: random sample) is probed: miss or exact; a later updateTB must return true and leave "
              "an exact table. Non-trivial = legal placement (distinct by table+placement; only every 16th one of a 4-man table is "
              "entered into the distinctness set, the class counters are exact) whose value is a draw that is not stalemate, a win "
              "with mate in >= 2 moves or a loss with mated in >= 2 moves; for faults: each (class, mode, clock call, prior state)."),
        floors=floors,
        assumptions=["refchess (independent mailbox rules, validated by published perft counts at the start of the run) decides legality and produces the successors",
                     "a labelling that satisfies the recurrence at every legal placement of a table is the DTM labelling; for sampled tables (quick tier, 4 men) only the sampled placements are shown consistent",
                     "fault sweep reference: 3-man classes are compared with the arrays validated completely in the same process; 4-man classes with the VectorStorage table of the same class (validated completely by the thorough tier, by sample in the quick tier)",
                     "bulk probes build the Position with the public Position::setPiece; every 257th legal placement also goes through TextIO::readFEN and must give the same answer",
                     "the 50-move rule is not part of DTM; illegal placements are constructed with setPiece because readFEN rejects them",
                     "updateTB's static requiredTime doubles after every time-limit abort, so at most 28 limit-mode aborts are run per process; stop-mode aborts (the D5 scenario) are unlimited",
                     "opt build (asserts on); one extra shard runs a 3-man class on the ASan+UBSan build"],
    )


def post(tier, seed, parts, results, workdir):
    tables, faults = {}, {}
    for r in results:
        sp = r["spec"]
        if sp.get("kind") != "shard" or not sp.get("part"):
            continue
        f = sp["part"] + ".c12.json"
        if not os.path.exists(f):
            continue
        try:
            e = json.load(open(f))
        except Exception:
            continue
        for t in e.get("tables", []):
            cur = tables.setdefault(t["table"], dict(men=t["men"], complete=False, placements_sampled=0))
            if t.get("complete"):
                cur["complete"] = True
            cur["placements_sampled"] += t.get("placements", 0)
        for ft in e.get("fault", []):
            cur = faults.setdefault(ft["table"], dict(men=ft["men"], clock_calls_of_a_full_generation=ft["clock_calls_total"],
                                                      time_checks_per_phase=ft["time_checks_per_phase"],
                                                      retrograde_iterations=ft["retrograde_iterations"],
                                                      abort_points=0, done=set(), runs=0, outcomes={}))
            cur["abort_points"] = max(cur["abort_points"], ft["points_total"])
            for d in ft["points_done"]:
                cur["done"].add((d["mode"], d["clock_call"]))
                cur["runs"] += 1
                cur["outcomes"][d["outcome"]] = cur["outcomes"].get(d["outcome"], 0) + 1
    complete = sorted(k for k, v in tables.items() if v["complete"])
    sampled = {k: v["placements_sampled"] for k, v in sorted(tables.items()) if not v["complete"]}
    fs = {}
    for k, v in sorted(faults.items()):
        total = v["abort_points"]
        fs[k] = dict(men=v["men"], clock_calls_of_a_full_generation=v["clock_calls_of_a_full_generation"],
                     time_checks_per_phase=v["time_checks_per_phase"], retrograde_iterations=v["retrograde_iterations"],
                     abort_points=total, distinct_points_run=len(v["done"]), runs=v["runs"],
                     every_point_run=len(v["done"]) >= total, outcomes=v["outcomes"])
    out = dict(tables_enumerated_completely=complete, tables_sampled=sampled, fault_sweep=fs)
    out["exhaustive"] = tier != "quick" and len(complete) == N_TABLES
    if tier != "quick" and len(complete) != N_TABLES:
        out["errors"] = ["only %d of %d tables were enumerated completely; the rest is listed under tables_sampled / missing" % (len(complete), N_TABLES)]
    return out
