import os

ID = "C17"
LEVEL = "exploration"

FUZZ = ["c17_fen", "c17_move", "c17_pgn", "c17_uci"]

# measured exec/s (clang -O1, ASan+UBSan, one core): fen 20k, move 15k, pgn 1k, uci 125
QUICK_RUNS = {"c17_fen": 400000, "c17_move": 300000, "c17_pgn": 25000, "c17_uci": 3000}
THOROUGH_RUNS = {"c17_fen": 8000000, "c17_move": 6000000, "c17_pgn": 400000, "c17_uci": 50000}


def fuzz_shard(target, runs, k, max_len, empty=False):
    cmd = ["python3", "{verif}/tools/fuzzshard.py", "--prop", ID, "--target", target, "--build", "{build}",
           "--verif", "{verif}", "--part", "{part}", "--found", "{found}", "--work", "{work}",
           "--seed", "{seed}", "--shard", str(k), "--runs", str(runs), "--max-len", str(max_len)]
    if empty:
        cmd.append("--empty-corpus")
    return dict(cmd=cmd)


def plan(tier, seed):
    quick = tier == "quick"
    from vlib import build
    net = os.path.join(build.BUILD, "nets", "material-1.net")
    shards = []
    nrc = 8 if quick else 16
    cases = 22000 if quick else 1000000     # rapidcheck cases per shard; ~0.55 positions per case => 1e5 / 9e6 positions in total (~700 positions/s/core)
    trees = 375 if quick else 6250          # trees per shard: 3e3 / 1e5 in total
    for _ in range(nrc):
        shards.append(dict(bin=("asan", "c17"), args=["--cases", cases, "--trees", trees]))
    runs = QUICK_RUNS if quick else THOROUGH_RUNS
    nf = 2 if quick else 4
    k = 100
    for t in FUZZ:
        for j in range(nf):
            small = t in ("c17_fen", "c17_move") and j % 2 == 0   # short inputs find more per run for the one-line formats
            empty = (not quick) and j == nf - 1                   # thorough: one campaign per target from an empty corpus
            shards.append(fuzz_shard(t, runs[t], k, 256 if small else 4096, empty))
            k += 1
    floors = {
        "file disambiguation": 2000 if quick else 200000, "rank disambiguation": 1000 if quick else 100000,
        "file+rank disambiguation": 500 if quick else 50000, "capture-promotion with check": 500 if quick else 50000,
        "tree with variations": 900 if quick else 30000, "nested variations (depth>=2)": 500 if quick else 15000,
        "comments": 700 if quick else 25000, "$NAG": 500 if quick else 15000, "!?-style suffix": 500 if quick else 15000,
    }
    for t in FUZZ:
        # DESIGN: at least 5 % of the fuzz inputs must reach the "accepted" branch
        n = nf if quick else nf - 1
        floors["fuzz accepted " + t] = int(0.05 * runs[t] * n)
    return dict(
        builds=[("asan", "c17")] + [("fuzz", t) for t in FUZZ],
        replay_bin=("asan", "c17"),
        nets=[("material", 1)],
        env={"TEXEL_VERIF_NET": net},
        shards=shards,
        timeout=1800 if quick else 4 * 3600,
        rule=("round-trips (rapidcheck): positions from constructed placements (rectangles/lines of 3-5 like pieces around a "
              "target, many-like-pieces, 7th-rank pawns with capture targets, the C01 templates) and from random legal games; "
              "every legal move of each position is checked. Non-trivial = position (distinct by FEN) where >= 1 move needs "
              "file, rank or file+rank disambiguation. Game trees: model trees with variations (depth <= 4), comments, NAGs, "
              "!?-suffixes, tags with escapes, FEN starts, 1-3 games per stream, written by the harness's own PGN writer; "
              "non-trivial = stream (distinct by text) with a variation, comment or NAG. Fuzz targets (libFuzzer, seeded from "
              "the repository tests' FENs/PGNs + dictionaries): non-trivial = distinct input (hash of the bytes) that reached "
              "the target's accepted branch (FEN accepted; a move found; a game with moves read; a UCI session that dispatched "
              "position/setoption/isready/go)."),
        floors=floors,
        assumptions=[
            "refchess (independent rules, SAN/LAN/FEN writers; validated by published perft counts at the start of the run) is the oracle",
            "texel's short form omits the '=' of promotions (documented by its tests); compared with SAN after deleting '='",
            "FEN acceptance is judged against an independent model of the FEN dialect texel documents/tests (fields after the side optional, trailing text allowed); "
            "move counters outside [0,1000]/[0,100000] are not compared (a reader may ignore or clamp them)",
            "clean rejection = ChessParseError; any other exception, sanitizer report, assert or trap inside a target is a violation; libFuzzer timeout/oom/slow-unit artefacts are inconclusive",
            "UCI target: `go` is forwarded as `go depth 1|2 [searchmoves ...]` and only while the last accepted `position` replays legally in refchess from material legal play can produce; "
            "Hash<=64, Threads<=8, GaviotaTbCache<=16, MaxNPS not in 1..9999, path options below a non-existent directory (resource guards); parameters reset to defaults before each input",
            "PGN writer never emits a variation before the first move of a line, more than one NAG per move, or a comment after the last variation of a line (the reader's handling of those is not specified)",
            "ASan+UBSan builds, assert() enabled, 8 MiB stack",
        ],
    )


def post(tier, seed, parts, results, workdir):
    extra = {}
    tot = {}
    for p in parts:
        for k, v in (p.get("counters") or {}).items():
            if k.startswith("fuzz "):
                tot[k] = tot.get(k, 0) + v
    for t in FUZZ:
        ex = tot.get("fuzz execs " + t, 0)
        if ex:
            extra["fuzz_accept_ratio_" + t] = round(tot.get("fuzz accepted " + t, 0) / ex, 4)
    return extra
