from vlib import build, runner

ID = "C05"
LEVEL = "exploration"


def plan(tier, seed):
    quick = tier == "quick"
    cases = 60 if quick else 1500
    net = runner.net_path("material", 1)
    shards = []
    for i in range(16):
        variant = "asan" if i % 4 != 3 else "opt"
        shards.append(dict(bin=("asan", "c05"), args=["--cases", cases, "--engine", build.binpath(variant, "texel"), "--net", net] + (["--max-threads", 4, "--max-hash", 64] if quick else [])))
    return dict(
        builds=[("asan", "c05"), ("asan", "texel"), ("opt", "texel")],
        nets=[("material", 1)],
        shards=shards,
        replay_args=["--engine", build.binpath("asan", "texel"), "--net", net],
        timeout=1500 if quick else 8 * 3600,
        rule=("UCI command scripts of 1..60 commands (120 in the isready-flood sub-generator) decoded from the choice stream over "
              "{uci, isready, setoption (options parsed from the engine's own 'uci' answer; in-range, boundary, out-of-range, "
              "non-numeric), ucinewgame, position startpos/fen + legal move lists, go (depth/nodes/movetime/clock/mate/infinite/"
              "ponder/searchmoves), stop, ponderhit, unknown words, blank lines, quit, EOF} with per-command pacing (now / after "
              "next info / after depth k / after bestmove / sleep). Non-trivial = session (distinct by script) with a command "
              "sent while a search was running, a first command other than uci/isready, or an out-of-range/non-numeric value."),
        floors={"command while searching": 60, "ponder + ponderhit": 5, "back-to-back go": 10,
                "EOF right after go": 5, "quit right after go": 3, "first command is not uci/isready": 60},
        assumptions=["the engine is the real binary built from /repo/app/texel (12 shards ASan+UBSan, 4 shards -O2) with a synthetic network",
                     "accepted option values are capped at Hash 256 MiB / Threads 16 / MultiPV 8 (resource guard); out-of-range values are unrestricted",
                     "hang = no exit after quit/EOF and zero CPU ticks for 20 s; an engine still consuming CPU after 60 s is 'inconclusive'",
                     "line interleavings between the two output threads are schedule dependent: detection is probabilistic"],
    )
