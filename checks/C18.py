import os

ID = "C18"
LEVEL = "exploration"

# measured (ASan, one core): c18 harness 300-600 generated probe cases/s (each up to 5000 draws); c18_polyglot fuzz target 2.1k exec/s
def plan(tier, seed):
    from vlib import build
    quick = tier == "quick"
    nrc = 8 if quick else 16
    cases = 6000 if quick else 62500          # 2e4 / 1e6 generated probe cases in total
    booksrc = os.path.join(build.REPO, "lib/texellib/book/book.cpp")
    shards = []
    for i in range(nrc):
        args = ["--cases", cases, "--booksrc", booksrc]
        if i == 0:
            args += ["--builtin", 1]           # the built-in book walk is deterministic: once
            args += ["--huge", 1 if quick else 3]  # sparse book files > 2 GiB (0.1 s each, no real disk)
            args += ["--heavy", 2 if quick else 6]  # one key whose weight sum passes 2^30 / 2^31 (D18)
        shards.append(dict(bin=("asan", "c18"), args=args))
    runs = 60000 if quick else 1200000   # ~2.1k exec/s per core
    nf = 2 if quick else 8
    for j in range(nf):
        cmd = ["python3", "{verif}/tools/fuzzshard.py", "--prop", ID, "--target", "c18_polyglot", "--build", "{build}",
               "--verif", "{verif}", "--part", "{part}", "--found", "{found}", "--work", "{work}",
               "--seed", "{seed}", "--shard", str(100 + j), "--runs", str(runs), "--max-len", "1026"]
        shards.append(dict(cmd=cmd))
    return dict(
        builds=[("asan", "c18"), ("fuzz", "c18_polyglot")],
        replay_bin=("asan", "c18"),
        replay_args=["--booksrc", booksrc],
        shards=shards,
        timeout=1800 if quick else 4 * 3600,
        rule=("probe = (position, book file). Positions: constructed placements (castling, 7th-rank pawns, all C01 templates), "
              "heavy piece on e1/e8, positions of random legal games; files generated with texel's PolyglotBook::getHashKey and an "
              "independent move encoder: sorted valid files (1-8 entries under the probed key: duplicate moves, both castling "
              "encodings, under-promotions, zero weights, total/min positive weight <= 51; 0-40 other keys placed before/after/adjacent), "
              "an illegal move under the key, truncation at any length, swapped entries, flipped bytes, missing / empty file, a directory. "
              "Non-trivial = distinct (position, file) whose key is present in a well-formed file, or which stores an illegal move under the "
              "key, or whose damage lies within 32 bytes of the matching entries. Built-in book: every position on every line of book.cpp "
              "(exhaustive, deterministic). Fuzz target: libFuzzer mutates the file bytes for 16 fixed positions; non-trivial = a move was returned."),
        floors={"well-formed file, key present": 3000 if quick else 150000,
                "stored castling move": 300 if quick else 15000,
                "stored under-promotion": 100 if quick else 5000,
                "stored zero weight": 300 if quick else 15000,
                "same move stored twice": 300 if quick else 15000,
                "stored heavy piece e1/e8 -> corner": 100 if quick else 5000,
                "illegal move stored under the key": 300 if quick else 15000,
                "damage within 32 bytes of the matching entries": 1500 if quick else 75000,
                "file: truncated": 1500 if quick else 75000, "file: unsorted": 800 if quick else 40000,
                "file: corrupt": 1500 if quick else 75000, "file: missing": 200 if quick else 10000,
                "file: directory": 200 if quick else 10000, "file: empty": 100 if quick else 5000, "file: larger than 2 GiB (sparse)": 2 if quick else 6,
                "built-in book position": 2000,
                "fuzz accepted c18_polyglot": int(0.05 * runs * nf)},
        assumptions=[
            "refchess (independent rules; validated by published perft counts at the start of the run) judges legality",
            "texel's own PolyglotBook::getHashKey is the key function (as DESIGN.md prescribes); the key itself is covered by the repository's PolyglotTest vectors",
            "a well-formed file keeps total/min positive weight <= 51 under the probed key, so 5000 draws miss a stored move with probability < 1e-43",
            "zero weight means 'never play' (polyglot format); an entry that is not a legal move makes the whole probe return no move (texel's documented hash-collision rule) - the oracle only requires empty-or-legal there",
            "Book seeds its generator from the clock: the harness installs a constant clock (verif::clockNanosHook)",
            "book files up to 8 GiB are covered by sparse files (2/4/8 GiB + a few entries); files >= 32 GiB (entry count does not fit texel's int) are outside the domain",
            "ASan+UBSan build, assert() enabled",
        ],
    )


def post(tier, seed, parts, results, workdir):
    # the built-in book walk enumerates every position on every line of book.cpp
    n = sum((p.get("classes") or {}).get("built-in book position", 0) for p in parts)
    mod16 = set()
    for p in parts:
        for k in (p.get("counters") or {}):
            if k.startswith("truncation length mod 16 = "):
                mod16.add(k)
    return {"builtin_book_positions_enumerated": n, "truncation_residues_covered": len(mod16)}
