#!/bin/bash
# Runs every check's quick tier once on the current tree; prints one line per check.
cd "$(dirname "$0")/.."
for c in $(./check --list); do
  s=$(date +%s)
  out=$(./check $c --tier ${1:-quick} 2>&1 | grep -v "^WARNING conda" | tail -3 | tr '\n' ' ' | cut -c1-260)
  rc=$?
  echo "$c $(( $(date +%s) - s ))s $out"
done
