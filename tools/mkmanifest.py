#!/usr/bin/env python3
"""Regenerates /verif/MANIFEST.json from the table below and the set of checks
that exist (checks/Cxx.py) and are listed in READY."""
import json
import os
import subprocess

V = "/verif"
READY = os.environ.get("READY", "").split() or None

META = {
 "C01": ("property-based differential testing against an independent reference move generator (rapidcheck, ASan/UBSan)",
         "seeded generated search over random legal games and constructed placements; every generated list and per-move verdict is compared with refchess in both directions",
         "refchess (validated against published perft counts each run), rapidcheck, sanitizer runtime"),
 "C02": ("stateful model-based property testing (rapidcheck command sequences vs. refchess model + from-scratch recomputation)",
         "generated make/unmake/null-move/copy/serialise histories checked after every step against a reference model and against values recomputed from scratch",
         "refchess model, texel's own from-scratch recomputation functions on a copy, sanitizer runtime"),
 "C03": ("property-based testing of (options x position x limits) configurations with validity predicates over the UCI transcript",
         "generated configurations run on the real engine binary; bestmove/ponder/pv/score/multi-PV validity judged by refchess",
         "refchess, the UCI transcript of the real binary, synthetic evaluation networks"),
 "C04": ("property-based testing with an exhaustive mate solver / validated DTM tables as oracle",
         "generated forced-mate positions; every announced mate is checked against an exhaustive AND/OR solver or a validated distance-to-mate table",
         "refchess mate solver (exhaustive to its depth bound), DTM tables validated by C12's recurrence"),
 "C05": ("stateful property-based testing of generated UCI sessions against a transcript monitor automaton",
         "generated command scripts with pacing against the real (ASan) binary; monitor checks readyok/bestmove accounting, release rules, line grammar, exit status, hang rule",
         "transcript ordering as observed through pipes, refchess for bestmove legality, sanitizer runtime"),
 "C06": ("property-based testing of time controls under a virtual clock driven by searched nodes",
         "generated time controls and event injections run in-process with the clock hook; soft/hard limits and delivery time checked against the budget formula",
         "clock/limit hooks (TEXEL_VERIF), budget formula derived from computeTimeLimit's documented intent"),
 "C07": ("stateful property-based testing + metamorphic relations + cross-variant differential testing of the evaluation + coverage-guided fuzzing (libFuzzer, symmetry oracle) of the end-game rules",
         "generated move histories and real searches: incremental value vs. from-scratch value, colour-flip and mirror symmetry, identical values across SIMD builds",
         "fresh-evaluator recomputation, synthetic networks, evaluation hook (TEXEL_VERIF)"),
 "C08": ("model-based property testing + multi-threaded hammer with self-validating payloads + enumerated index arithmetic",
         "generated TT histories vs. a model, concurrent writers/readers with keyed-hash payloads, index bounds for every configurable size",
         "x86-TSO hardware for the hammer, TSan for the data-race part, friend access hook"),
 "C09": ("generated UCI sessions and worker-pool runs under ThreadSanitizer (happens-before oracle)",
         "generated concurrency-heavy sessions on a TSan build; any ThreadSanitizer report is a violation",
         "ThreadSanitizer's happens-before analysis over the interleavings the OS produced; libstdc++ internals are uninstrumented"),
 "C10": ("schedule fuzzing: generated scripts x generated thread schedules (seeded priority/random schedules, bounded systematic exploration) with history invariants",
         "generated command scripts under generated schedules at the engine's synchronisation points; exactly one legal bestmove per go, all helpers idle, no deadlock",
         "sync-point hooks (TEXEL_VERIF), bounded pre-emptions; not a proof"),
 "C11": ("property-based testing of generated game histories against a FIDE-rules reference (refchess) for the UCI engine and the Game API",
         "generated repetition / 50-move histories; draw scores and console adjudication compared with a rules model",
         "refchess FIDE 9.2/9.3 identity, Game model written from the rules"),
 "C12": ("exhaustive enumeration with a local-consistency (minimax recurrence) validity predicate + enumerated abort points (fault injection)",
         "every placement of every <=4-man pawnless class checked against the DTM recurrence via refchess successors; aborts injected at every time check",
         "refchess move generation; induction argument that a labelling satisfying the recurrence everywhere is the DTM labelling"),
 "C13": ("property-based testing of tablebase roots on the real engine against validated DTM tables",
         "generated <=4-man roots x half-move clocks x hash/threads; reported score and played move compared with exact DTM",
         "DTM tables validated by the C12 recurrence in the same run"),
 "C14": ("differential property testing: generated session history + Clear Hash vs. a freshly started engine",
         "generated prior sessions; the probe search's (depth, score, bound, nodes, pv, bestmove) stream must equal that of a fresh process",
         "two processes of the same binary; single search thread"),
 "C15": ("property-based testing of reverse move generation against forward play in refchess (completeness + soundness)",
         "(P, m, Q) triples from generated games: un-move lists must contain m with the restoring info, every listed un-move must lead back to Q",
         "refchess, fixupEPSquare normalisation as Game uses it"),
 "C16": ("property-based testing: reachable positions (generated games) vs. illegality verdicts; admissibility of the distance bound (rapidcheck games + coverage-guided libFuzzer games); replay of proof games",
         "final positions of generated games must never be called illegal; lower bound <= remaining plies for every prefix; proofs replayed in refchess",
         "refchess; node budgets make 'unknown' acceptable"),
 "C17": ("round-trip property testing (rapidcheck) + coverage-guided fuzzing (libFuzzer) with semantic oracles inside the targets",
         "move/SAN/PGN round trips against refchess's independent SAN; FEN/move/PGN/UCI fuzz targets under ASan/UBSan",
         "refchess SAN, libFuzzer, sanitizer runtime"),
 "C18": ("property-based testing with generated polyglot files + file-mutation fuzzing",
         "generated well-formed and damaged book files; returned move must be legal and stored under the key; coverage of positive-weight moves",
         "refchess, texel's polyglot key function used as the key oracle (validated by PolyglotTest vectors)"),
 "C19": ("stateful model-based property testing of the book graph against a from-scratch evaluator of the defining equations",
         "generated operation sequences; after every step every node is compared with values recomputed from the class comment's equations",
         "the equations in bookbuild.hpp's class comment"),
 "C20": ("property-based differential testing against brute-force enumeration / plain backtracking",
         "generated constraint systems inside the documented limits; satisfiability and returned assignments compared with exhaustive search",
         "reference backtracking solver cross-checked by brute force"),
}


def main():
    props = [json.loads(l) for l in open(os.path.join(V, "properties.jsonl"))]
    ready = set(READY) if READY else None
    commits = subprocess.run(["git", "-C", "/repo", "log", "--format=%h %s", "--grep=verif hook"],
                             stdout=subprocess.PIPE, text=True).stdout.strip().splitlines()
    m = {
        "version": 1,
        "setup_cmd": "./check --setup",
        "hooks": {
            "guard": "TEXEL_VERIF",
            "enable": "every variant built by ./check compiles /repo's sources with -DTEXEL_VERIF (vlib/build.py); hooks are null function pointers / inert unless a harness installs callbacks",
            "baseline_off_cmd": "tools/baseline_off.sh",
            "source_commits": [c.split()[0] for c in commits],
            "add_only": True,
        },
        "engines": [
            {"name": "rapidcheck", "path": "/usr/include/rapidcheck.h", "serves_properties": [], "kind_free_text": "property-based testing library; every case is decoded from a rapidcheck-generated choice stream (src/common/vh.hpp)"},
            {"name": "libFuzzer", "path": "clang -fsanitize=fuzzer", "serves_properties": ["C17", "C18"], "kind_free_text": "coverage-guided fuzzing with semantic oracles inside the targets (src/fuzz)"},
        ],
        "checks": [],
        "not_applicable": [],
        "notes": "All checks: ./check <id> --tier quick|thorough; VERIF_SEED seeds every random choice; replay: ./check <id> --replay <file>. See DESIGN.md.",
    }
    for p in props:
        pid = p["id"]
        have = os.path.exists(os.path.join(V, "checks", pid + ".py")) and (ready is None or pid in ready)
        if have:
            tech, text, base = META[pid]
            m["checks"].append({
                "property_id": pid,
                "quick_cmd": "./check %s --tier quick" % pid,
                "thorough_cmd": "./check %s --tier thorough" % pid,
                "evidence_file": "/verif/evidence/%s.json" % pid,
                "replay_cmd_template": "./check %s --replay {path}" % pid,
                "engine": "libFuzzer+rapidcheck" if pid in ("C17", "C18") else "rapidcheck",
                "level_claimed": {"category": "exploration", "text": text + "; finds counterexamples, never proves absence", "design_ref": "DESIGN.md §3 " + pid},
                "level_note": "trusted base: " + base,
                "technique": tech,
            })
            m["engines"][0]["serves_properties"].append(pid)
        else:
            m["not_applicable"].append({"property_id": pid, "reason": "check not built yet in this session (work in progress; see DESIGN.md §3 %s)" % pid})
    # kept even when empty: every listed property is claimed
    json.dump(m, open(os.path.join(V, "MANIFEST.json"), "w"), indent=1)
    print("checks:", [c["property_id"] for c in m["checks"]])


main()
