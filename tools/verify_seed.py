#!/usr/bin/env python3
"""verify_seed.py <seed-dir> <n> <property> [--demo-runs K] [--checks Cxx,Cyy]
Confirms a seeded change produced by an independent sub-agent, in the agent's own
scratch worktree <seed-dir>/repo (never in /repo):
  1. unmodified tree: build, demo must PASS;
  2. with <seed-dir>/out/<n>/patch.diff: builds, the stable baseline tests pass, demo FAILS
     (for timing-dependent demos: fails at least once in K runs, and passes K times without the patch);
  3. runs the named checks' quick tier against a scratch worktree with the patch (tools/mutant.py);
and stores the result as /verif/seeded/<property>-<n>/{patch.diff, demo.*, meta.json}.
"""
import glob
import json
import os
import shutil
import subprocess
import sys
import time
import xml.etree.ElementTree as ET

seed, n, prop = sys.argv[1], sys.argv[2], sys.argv[3]
runs = int(sys.argv[sys.argv.index("--demo-runs") + 1]) if "--demo-runs" in sys.argv else 1
checks = sys.argv[sys.argv.index("--checks") + 1].split(",") if "--checks" in sys.argv else [prop]
repo, bdir, out = seed + "/repo", seed + "/build", "%s/out/%s" % (seed, n)
NET = "/verif/build/nets/material-1.net"
log = []


def sh(cmd, **kw):
    return subprocess.run(cmd, shell=isinstance(cmd, str), stdout=subprocess.PIPE, stderr=subprocess.STDOUT, text=True, **kw)


def reset():
    sh(["git", "-C", repo, "checkout", "--", "."])
    shutil.copy(NET, repo + "/nndata.tbin.compr")


def cmake_opts():
    try:
        return json.load(open(out + "/meta.json")).get("cmake_options", "") or ""
    except Exception:
        return ""


def build():
    p = sh("cmake -G Ninja -S %s -B %s -DCMAKE_BUILD_TYPE=RelWithDebInfo %s >/dev/null && cmake --build %s -j10 2>&1 | tail -5" % (repo, bdir, cmake_opts(), bdir))
    return p.returncode == 0, p.stdout


def stable_tests():
    tdir = bdir
    if "-fsanitize" in cmake_opts():
        # the demonstration needs a sanitizer build; the baseline tests are judged in a default build
        tdir = seed + "/build-default"
        sh("cmake -G Ninja -S %s -B %s -DCMAKE_BUILD_TYPE=RelWithDebInfo >/dev/null && cmake --build %s -j10 2>&1 | tail -3" % (repo, tdir, tdir))
    junit = tdir + "/junit-verify.xml"
    sh("ctest --test-dir %s -j8 --timeout 900 --output-junit %s >/dev/null 2>&1" % (tdir, junit))
    base = json.load(open("/root/.vp/BASELINE.json"))
    want = set((x.split("::")[0] if "." in x.split("::")[0] else x.replace("::", ".")) for x in base["stable_pass"])
    got = {}
    for tc in ET.parse(junit).getroot().iter("testcase"):
        got[tc.get("name")] = tc.find("failure") is None and tc.find("error") is None and tc.get("status", "run") != "fail"
    missing = sorted(t for t in want if not got.get(t))
    return len(want) - len(missing), len(want), missing


def demo_cmd():
    d = glob.glob(out + "/demo.*")
    if not d:
        return None, None
    f = d[0]
    if f.endswith(".cpp"):
        incs = " ".join("-I%s/%s" % (repo, x) for x in ["lib/texellib", "lib/texellib/util", "lib/texellib/nn", "lib/texellib/hw", "lib/texellib/tb",
                                                        "lib/texellib/book", "lib/texellib/debug", "lib/texelutillib", "lib/texelutillib/pg", "app/texel"])
        exe = bdir + "/seed-demo"
        simd = cmake_opts()
        extra = ("-mssse3 -DUSE_SSSE3 " if ("SSSE3" in simd or "AVX" in simd) else "") + ("-mavx2 -DUSE_AVX2 " if "AVX2" in simd or "AVX512" in simd else "") + ("-mavx512f -mavx512bw -mavx512vnni -DUSE_AVX512 " if "AVX512" in simd else "")
        comp = "g++ -std=c++17 -O1 -pthread " + extra + "%s %s %s/lib/texelutillib/libtexelutillib.a %s/lib/texellib/libtexellib.a -lrt -lpthread -o %s" % (f, incs, bdir, bdir, exe)
        return comp, exe
    eng = sh("find %s -name texel -type f -perm -u+x | head -1" % bdir).stdout.strip()
    if f.endswith(".py"):
        return None, "python3 %s %s" % (f, eng)
    return None, "bash %s %s" % (f, eng)


def run_demo(k):
    comp, run = demo_cmd()
    if run is None:
        return None, "no demo"
    if comp:
        p = sh(comp)
        if p.returncode != 0:
            return None, "demo does not compile: " + p.stdout[-800:]
    fails, last = 0, ""
    for _ in range(k):
        try:
            p = sh(run, timeout=1800, cwd=out, env=dict(os.environ, TEXEL=run.split()[-1]))
            rc, last = p.returncode, p.stdout[-600:]
        except subprocess.TimeoutExpired:
            rc, last = 124, "timeout"
        if rc != 0:
            fails += 1
    return fails, last


result = {"verified_at": time.strftime("%Y-%m-%d %H:%M:%S")}
reset()
ok, o = build()
if not ok:
    sys.exit("unmodified tree does not build: " + o)
f0, last0 = run_demo(runs)
result["demo_without_patch"] = "%s failures in %d runs" % (f0, runs)
p = sh(["git", "-C", repo, "apply", out + "/patch.diff"])
if p.returncode != 0:
    reset()
    sys.exit("patch does not apply: " + p.stdout)
ok, o = build()
result["builds_with_patch"] = ok
if ok:
    npass, ntot, missing = stable_tests()
    result["stable_tests_with_patch"] = "%d/%d" % (npass, ntot)
    result["stable_tests_missing"] = missing
    f1, last1 = run_demo(runs)
    result["demo_with_patch"] = "%s failures in %d runs; last output: %s" % (f1, runs, (last1 or "")[-300:])
else:
    f1 = None
reset()
build()
confirmed = bool(ok and f0 == 0 and f1 and not result.get("stable_tests_missing"))
result["confirmed"] = confirmed
print(json.dumps(result, indent=1))
if not confirmed:
    sys.exit(1)
# --- run our checks against the change (scratch worktree through tools/mutant.py)
tag = sys.argv[sys.argv.index("--tag") + 1] + "-" if "--tag" in sys.argv else ""
dst = "/verif/seeded/%s-%s%s" % (prop, tag, n)
os.makedirs(dst, exist_ok=True)
shutil.copy(out + "/patch.diff", dst + "/patch.diff")
for d in glob.glob(out + "/demo.*"):
    shutil.copy(d, dst)
meta = json.load(open(out + "/meta.json")) if os.path.exists(out + "/meta.json") else {}
meta["coordinator_verification"] = result
meta["checks"] = {}
for c in checks:
    p = sh(["/verif/tools/mutant.py", dst + "/patch.diff", c])
    first = p.stdout.strip().splitlines()[0] if p.stdout.strip() else "ERROR"
    msg = ""
    lines = p.stdout.splitlines()
    for i, l in enumerate(lines):
        if "VIOLATION" in l and i + 1 < len(lines):
            msg = lines[i + 1].strip()[:300]
            break
    meta["checks"][c] = {"verdict": first.split()[0], "line": first, "first_violation": msg,
                         "command": "tools/mutant.py %s/patch.diff %s  (= VERIF_REPO=<scratch worktree with the patch> ./check %s --tier quick)" % (dst, c, c)}
    print(first, msg[:200])
json.dump(meta, open(dst + "/meta.json", "w"), indent=1)
