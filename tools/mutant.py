#!/usr/bin/env python3
"""mutant.py <patch> <Cxx> [--tier quick] : judge a patch with the unchanged check
commands, in a scratch copy of /repo's HEAD (git worktree under /tmp), which is
removed afterwards together with its build output."""
import os, subprocess, sys, tempfile, shutil, time
patch, pid = sys.argv[1], sys.argv[2]
extra = sys.argv[3:]
d = tempfile.mkdtemp(prefix="vt-")
wt = os.path.join(d, "repo")
bd = os.path.join(d, "build")
try:
    subprocess.check_call(["git", "-C", "/repo", "worktree", "add", "-q", "--detach", wt, "HEAD"])
    subprocess.check_call(["git", "-C", wt, "apply", os.path.abspath(patch)])
    os.makedirs(bd)
    nets = "/verif/build/nets"
    if os.path.isdir(nets):
        os.symlink(nets, os.path.join(bd, "nets"))
    env = dict(os.environ, VERIF_REPO=wt, VERIF_BUILD=bd)
    t = time.time()
    p = subprocess.run(["/verif/check", pid] + extra, env=env, stdout=subprocess.PIPE, stderr=subprocess.STDOUT, text=True)
    out = p.stdout
    verdict = "CAUGHT" if ("VIOLATION property=" in out and p.returncode == 1) else ("MISSED" if p.returncode == 0 else "ERROR rc=%d" % p.returncode)
    print("%s %s %s (%.0fs)" % (verdict, os.path.basename(patch), pid, time.time() - t))
    for line in out.splitlines():
        if line.startswith(("VIOLATION", "  ", "NOTE", "INCONCLUSIVE", "BUILD")):
            print("   " + line[:300])
    # keep the first found replay for inspection (the scratch build dir is removed below)
    keep = "/verif/replays/found/from-mutants"
    fd = os.path.join(bd, "found")
    if os.path.isdir(fd):
        os.makedirs(keep, exist_ok=True)
        for f in sorted(os.listdir(fd))[:3]:
            try:
                shutil.copy(os.path.join(fd, f), os.path.join(keep, os.path.basename(patch)[:-6] + "--" + f))
            except OSError:
                pass
    # keep found replays out of /verif/replays/found? they are git-ignored; fine.
finally:
    # engines of a mutated tree may survive their harness (a hang is what some mutants produce): kill whatever still runs from the scratch directory
    for pdir in os.listdir("/proc"):
        if pdir.isdigit():
            try:
                if os.readlink("/proc/%s/exe" % pdir).startswith(d + "/"):
                    os.kill(int(pdir), 9)
            except OSError:
                pass
    subprocess.call(["git", "-C", "/repo", "worktree", "remove", "--force", wt])
    shutil.rmtree(d, ignore_errors=True)
