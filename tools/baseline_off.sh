#!/bin/sh
# Runs the repository's own test baseline with the verification guard OFF
# (plain CMake build of /repo, no -DTEXEL_VERIF), in /verif/build/baseline_off.
set -e
B=/verif/build/baseline_off
cmake -G Ninja -S /repo -B "$B" -DCMAKE_BUILD_TYPE=RelWithDebInfo >/dev/null
cmake --build "$B" -j16 >/dev/null
ctest --test-dir "$B" -j8 --timeout 900 --output-junit "$B/junit.xml" >"$B/ctest.log" 2>&1 || true
python3 - "$B/junit.xml" <<'PY'
import json, sys, xml.etree.ElementTree as ET
base = json.load(open('/root/.vp/BASELINE.json'))
want = set((n.split('::')[0] if '.' in n.split('::')[0] else n.replace('::', '.')) for n in base['stable_pass'])
got = {}
for tc in ET.parse(sys.argv[1]).getroot().iter('testcase'):
    ok = tc.find('failure') is None and tc.find('error') is None and tc.get('status', 'run') != 'fail'
    got[tc.get('name')] = ok
missing = sorted(n for n in want if not got.get(n))
print("baseline (guard off): %d/%d stable tests pass" % (len(want) - len(missing), len(want)))
for n in missing: print("  NOT PASSING:", n)
sys.exit(1 if missing else 0)
PY
