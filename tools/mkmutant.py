#!/usr/bin/env python3
"""mkmutant.py <name> <repo-relative-file> <old> <new> [count]
Creates /verif/mutants/<name>.patch replacing the first (or count-th) occurrence of <old>."""
import difflib, os, sys
name, rel, old, new = sys.argv[1:5]
nth = int(sys.argv[5]) if len(sys.argv) > 5 else 1
src = open(os.path.join("/repo", rel)).read()
idx = -1
for _ in range(nth):
    idx = src.find(old, idx + 1)
    if idx < 0:
        sys.exit("pattern not found")
mut = src[:idx] + new + src[idx + len(old):]
d = difflib.unified_diff(src.splitlines(True), mut.splitlines(True), "a/" + rel, "b/" + rel)
open("/verif/mutants/%s.patch" % name, "w").write("".join(d))
print("wrote /verif/mutants/%s.patch" % name)
