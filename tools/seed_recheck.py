#!/usr/bin/env python3
"""seed_recheck.py <seeded-dir-name> <Cxx> "<note>" : re-judge a seeded change with the current check and append to its meta.json history."""
import json, subprocess, sys, time
name, chk, note = sys.argv[1], sys.argv[2], (sys.argv[3] if len(sys.argv) > 3 else "")
d = "/verif/seeded/" + name
meta = json.load(open(d + "/meta.json"))
p = subprocess.run(["/verif/tools/mutant.py", d + "/patch.diff", chk], stdout=subprocess.PIPE, stderr=subprocess.STDOUT, text=True)
first = p.stdout.strip().splitlines()[0] if p.stdout.strip() else "ERROR"
msg = ""
lines = p.stdout.splitlines()
for i, l in enumerate(lines):
    if "VIOLATION" in l and i + 1 < len(lines):
        msg = lines[i + 1].strip()[:300]; break
c = meta.setdefault("checks", {}).setdefault(chk, {})
hist = c.setdefault("history_runs", [])
if "verdict" in c and not hist:
    hist.append({"verdict": c["verdict"], "line": c.get("line", ""), "note": "first run"})
hist.append({"verdict": first.split()[0], "line": first, "first_violation": msg, "note": note, "at": time.strftime("%Y-%m-%d %H:%M")})
c["verdict"] = first.split()[0]; c["line"] = first; c["first_violation"] = msg
json.dump(meta, open(d + "/meta.json", "w"), indent=1)
print(first, msg[:200])
