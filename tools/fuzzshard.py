#!/usr/bin/env python3
"""fuzzshard.py: run one libFuzzer target as a shard of a /verif check.

  fuzzshard.py --prop C17 --target c17_fen --build BUILD --verif VERIF --part PART
               --found FOUND --work WORK --seed S --shard I --runs N
               [--max-len 4096] [--empty-corpus] [--timeout-unit 60]

Runs  BUILD/fuzz/bin/<target> -runs=N -seed=<derived> -max_len=.. on a fresh copy
of VERIF/corpus/<target> (or an empty directory); artefacts are written to the
shard's own work directory and copied to FOUND when they are violations.  Only crash-/leak- artefacts are
violations (sanitizer report, uncaught exception, oracle trap inside the target);
timeout-/oom-/slow-unit- artefacts are counted as inconclusive.  Writes the part
JSON the runner merges (evaluations = executed runs, classes/samples/hashes from
the counters the target dumps to $VERIF_FUZZ_STATS) and prints
`VIOLATION property=<prop> replay=<json>` for every violation; the JSON wrapper
holds the bytes (hex) and names the raw artefact.  Exit status 1 iff a violation.
"""
import argparse
import glob
import hashlib
import json
import os
import re
import shutil
import subprocess
import sys


def splitmix(z):
    z = (z + 0x9E3779B97F4A7C15) & 0xFFFFFFFFFFFFFFFF
    z = ((z ^ (z >> 30)) * 0xBF58476D1CE4E5B9) & 0xFFFFFFFFFFFFFFFF
    z = ((z ^ (z >> 27)) * 0x94D049BB133111EB) & 0xFFFFFFFFFFFFFFFF
    return z ^ (z >> 31)


def main():
    ap = argparse.ArgumentParser()
    for k in ("prop", "target", "build", "verif", "part", "found", "work"):
        ap.add_argument("--" + k, required=True)
    ap.add_argument("--seed", type=int, default=1)
    ap.add_argument("--shard", type=int, default=0)
    ap.add_argument("--runs", type=int, default=10000)
    ap.add_argument("--max-len", type=int, default=4096)
    ap.add_argument("--timeout-unit", type=int, default=60)
    ap.add_argument("--empty-corpus", action="store_true")
    ap.add_argument("--minimize-runs", type=int, default=3000)
    a = ap.parse_args()

    exe = os.path.join(a.build, "fuzz", "bin", a.target)
    wd = os.path.join(a.work, "%s-%d" % (a.target, a.shard))
    shutil.rmtree(wd, ignore_errors=True)
    os.makedirs(wd)
    corpus = os.path.join(wd, "corpus")
    src = os.path.join(a.verif, "corpus", a.target)
    if a.empty_corpus or not os.path.isdir(src):
        os.makedirs(corpus)
    else:
        shutil.copytree(src, corpus)
    nseed = len(os.listdir(corpus))
    os.makedirs(a.found, exist_ok=True)
    # artefacts go to this shard's private directory first (other runs may share
    # the found directory); violations are copied to the found directory below
    prefix = os.path.join(wd, "%s-%s-" % (a.prop, a.target))
    stats = os.path.join(wd, "stats.json")
    h = int(hashlib.sha256(a.target.encode()).hexdigest()[:12], 16)
    fseed = splitmix(a.seed * 1000003 + a.shard * 7919 + h) % 0xFFFFFFFF or 1
    cmd = [exe, "-runs=%d" % a.runs, "-seed=%d" % fseed, "-max_len=%d" % a.max_len,
           "-artifact_prefix=" + prefix, "-timeout=%d" % a.timeout_unit, "-rss_limit_mb=6000",
           "-print_final_stats=1", "-verbosity=0", "-reload=0"]
    dic = os.path.join(a.verif, "corpus", "dict", a.target + ".dict")
    if os.path.exists(dic):
        cmd.append("-dict=" + dic)
    cmd.append(corpus)
    scratch = os.path.join(wd, "scratch")
    env = dict(os.environ, VERIF_FUZZ_STATS=stats, VERIF_C18_SCRATCH=scratch)
    os.environ["VERIF_C18_SCRATCH"] = scratch  # minimisation / verification children too
    before = set(glob.glob(prefix + "*"))
    p = subprocess.Popen(cmd, env=env, stdout=subprocess.PIPE, stderr=subprocess.STDOUT, cwd=wd)
    raw_out, _ = p.communicate()
    out = raw_out.decode("utf-8", "replace")
    # scratch directories a target creates under /tmp (removed by atexit unless it crashed)
    shutil.rmtree("/tmp/verif-c18-%d" % p.pid, ignore_errors=True)
    sys.stdout.write(out[-6000:])
    new = sorted(set(glob.glob(prefix + "*")) - before)
    written = re.findall(r"Test unit written to (\S+)", out)
    for w in written:
        if w not in new and os.path.exists(w) and w.startswith(prefix):
            new.append(w)

    st = {}
    try:
        st = json.load(open(stats))
    except Exception:
        pass
    m = re.search(r"stat::number_of_executed_units:\s*(\d+)", out) or re.search(r"Done (\d+) runs", out)
    execs = int(m.group(1)) if m else int(st.get("execs", 0))
    classes = dict(st.get("classes", {}))
    samples = {k: [{"input": s, "target": a.target} for s in v] for k, v in st.get("samples", {}).items()}
    counters = {"fuzz execs " + a.target: execs, "fuzz accepted " + a.target: int(st.get("accepted", 0)),
                "fuzz rejected " + a.target: int(st.get("rejected", 0)), "fuzz seed files " + a.target: nseed}
    classes = {"%s: %s" % (a.target, k): v for k, v in classes.items()}
    samples = {"%s: %s" % (a.target, k): v for k, v in samples.items()}
    part = dict(evaluations=execs, inconclusive=0, discarded=0, classes=classes, counters=counters,
                samples=samples, violations=[], hashes_file=stats + ".hashes")
    viol = 0
    for art in new:
        base = os.path.basename(art)[len(os.path.basename(prefix)):]
        kind = base.split("-")[0]
        if kind not in ("crash", "leak"):
            part["inconclusive"] += 1
            counters["fuzz %s artefacts %s" % (kind, a.target)] = counters.get("fuzz %s artefacts %s" % (kind, a.target), 0) + 1
            continue
        viol += 1
        raw = art
        # bounded minimisation (by runs, not time); keeps the original when it does not help
        mini = art + ".min"
        if a.minimize_runs > 0:
            subprocess.run([exe, "-minimize_crash=1", "-runs=%d" % a.minimize_runs, "-exact_artifact_path=" + mini,
                            "-timeout=%d" % a.timeout_unit, "-verbosity=0", art], env=dict(os.environ), cwd=wd,
                           stdout=subprocess.DEVNULL, stderr=subprocess.DEVNULL, timeout=900)
            if os.path.exists(mini) and 0 < os.path.getsize(mini) <= os.path.getsize(art):
                # keep it only if it still fails
                q = subprocess.run([exe, "-exact_artifact_path=/dev/null", mini], env=dict(os.environ), cwd=wd,
                                   stdout=subprocess.DEVNULL, stderr=subprocess.DEVNULL)
                if q.returncode != 0:
                    raw = mini
        data = open(raw, "rb").read()
        keep = os.path.join(a.found, os.path.basename(art) + (".min" if raw != art else ""))
        shutil.copyfile(raw, keep)
        raw = keep
        msg = ""
        mm = re.findall(r"ORACLE-FAIL: (.*)", out)
        if mm:
            msg = "oracle: " + mm[-1]
        else:
            mm = re.findall(r"SUMMARY: (.*)", out) or re.findall(r"(runtime error: .*)", out) or re.findall(r"(terminate called.*)", out)
            msg = mm[0] if mm else "crash in the fuzz target (see shard log)"
        sha = hashlib.sha1(data).hexdigest()[:16]
        wrapper = os.path.join(a.found, "%s-fuzz-%s-%s.json" % (a.prop, a.target, sha))
        json.dump({"property": a.prop, "sub": "fuzz:" + a.target, "bin": ["fuzz", a.target], "message": msg[:2000],
                   "case": {"target": a.target, "hex": data.hex(), "text": data.decode("latin-1"), "artifact": raw,
                            "libfuzzer_seed": fseed}}, open(wrapper, "w"), indent=1)
        part["violations"].append({"replay": wrapper, "message": "%s: %s" % (a.target, msg[:500]), "sub": "fuzz:" + a.target})
        print("VIOLATION property=%s replay=%s" % (a.prop, wrapper))
        print("  %s: %s" % (a.target, msg[:500]))
    if p.returncode != 0 and not new:
        # died without an artefact (e.g. missing network file): let the runner report an error
        json.dump(part, open(a.part, "w"))
        print("fuzz target exited with status %s and left no artefact" % p.returncode)
        return 3
    json.dump(part, open(a.part, "w"))
    shutil.rmtree(scratch, ignore_errors=True)
    return 1 if viol else 0


if __name__ == "__main__":
    sys.exit(main())
