#!/usr/bin/env python3
"""run_mutants.py Cxx [Cyy ...] [--only substring] : judge every mutants/<id>-*.patch with the unchanged
quick command (tools/mutant.py) and record the verdicts in mutants/RESULTS.json."""
import glob, json, os, re, subprocess, sys, time
ids = [a for a in sys.argv[1:] if re.match(r"C\d\d$", a)]
only = sys.argv[sys.argv.index("--only") + 1] if "--only" in sys.argv else ""
resf = "/verif/mutants/RESULTS.json"
res = json.load(open(resf)) if os.path.exists(resf) else {}
for pid in ids:
    for p in sorted(glob.glob("/verif/mutants/%s-*.patch" % pid)):
        name = os.path.basename(p)[:-6]
        if only and only not in name:
            continue
        t = time.time()
        out = subprocess.run(["/verif/tools/mutant.py", p, pid], stdout=subprocess.PIPE, stderr=subprocess.STDOUT, text=True).stdout
        first = out.strip().splitlines()[0] if out.strip() else "ERROR no output"
        verdict = first.split()[0]
        msg = ""
        lines = out.splitlines()
        for i, l in enumerate(lines):
            if "VIOLATION" in l and i + 1 < len(lines):
                msg = lines[i + 1].strip()[:300]
                break
        res[name] = dict(property=pid, verdict=verdict, seconds=round(time.time() - t), tier="quick", message=msg)
        json.dump(res, open(resf, "w"), indent=1, sort_keys=True)
        print(verdict, name, msg[:150], flush=True)
